#!/usr/bin/env python3
"""Regenerates /verif/MANIFEST.json from the table below (keeps it schema-valid)."""
import json, subprocess
props=[json.loads(l) for l in open('/verif/properties.jsonl')]
ids=[p['id'] for p in props]

ASSUME="rustc/std, secp256k1, bitcoin (hashes, tx/witness serialisation, SighashCache) are trusted; the harness's own reference models (AST walker/printer/encoder, reference Script machine, policy evaluator, spec type tables) are trusted to the extent their self-checks bind them (see DESIGN.md sections 2 and 7)."

# id -> (technique, level text, design_ref)
BUILT={
 "C01":("bounded-exhaustive term/world enumeration; every library satisfaction replayed on an independent reference Script machine",
        "Every B term up to the node bound in every descriptor wrapping x every subset of signatures/preimages x lock grid x {non-malleable, malleable} x {get_satisfaction, into_plan+Plan::satisfy}: the returned scriptSig/witness is executed by the reference Script machine under standardness flags against the real transaction digest. Through hook H1 every node-level satisfaction and dissatisfaction of every term is executed on its fragment script. Exhaustive within the bounds stated in the evidence.",
        "3 C01"),
 "C02":("bounded-exhaustive enumeration; refusals decided by exhaustive nondeterministic witness search of the reference Script machine",
        "Same enumeration as C01. Every refusal (malleable mode: all; non-malleable: sane descriptors with all preimages) is decided by depth-first exploration of ALL witnesses over the caller's alphabet on the reference Script machine (states/transitions reported); a found witness is re-validated concretely before the library is accused. H1: every node typed dissatisfiable must offer a dissatisfaction from public data.",
        "3 C02"),
 "C03":("bounded-exhaustive enumeration; all adversarial witnesses explored on the reference Script machine",
        "For every sane descriptor up to the node bound and every world in which the non-malleable satisfier succeeds, ALL witnesses over the third-party alphabet are explored depth-first on every script of the output (every tap leaf) under standardness flags; the solution set must be exactly the original. A positive control on non-sane scripts shows the search does find alternative witnesses.",
        "3 C03"),
 "C04":("bounded-exhaustive term enumeration plus exhaustive token-sequence / single-edit / raw-byte enumeration of decoder inputs",
        "(a) every well-typed term up to the node bound in four contexts: encoding equals an independent reference encoder, script_size equals length, decode(encode) re-encodes byte-identically with identical type and equal truth table; (b) every script token sequence up to length L, every single edit and alternative push encoding of every valid script of <= 5 nodes, every raw byte string up to the length bound: whatever any decode entry point accepts must re-encode to exactly the input and be well typed.",
        "3 C04"),
 "C05":("complete enumeration of the finite type domain against transcribed specification tables",
        "Every unary typing rule on all 960 child types, every binary rule and thresh(k,2) on all 960^2 pairs, and_or on the cube of reachable types plus correctness/malleability cubes (thorough: all 960^3), wider thresholds over reachable child types: accept/reject equality, never-stronger on inhabitable types, exact equality on reachable types minus a printed deviation list; Type::type_check dispatch of every Terminal variant.",
        "3 C05"),
 "C06":("bounded-exhaustive fragment enumeration; all input stacks explored on the reference Script machine",
        "Every well-typed term of every base type up to the node bound (Segwitv0, Legacy, Tap) is executed alone on the reference Script machine over ALL input stacks from a finite alphabet (lazily materialised, consensus and standard flags); z/o/n/u/d/f/s and the B/V/W stack-shape contracts of the library type (and of the specification-table type) are checked on every complete path.",
        "3 C06"),
 "C07":("bounded-exhaustive enumeration; policy truth vs witness existence by exhaustive witness search",
        "For every liftable descriptor up to the node bound (all wrappings, duplicate keys, 2/3-leaf tap trees) and every world, the reference evaluator's truth value of lift(d) is compared in both directions with the existence of a witness found by exhaustive exploration of the reference Script machine over the caller's alphabet.",
        "3 C07"),
 "C10":("bounded-exhaustive round-trip enumeration; exhaustive substitution enumeration and explicit-state syndrome search of the checksum code model",
        "Every well-typed term up to the node bound (display equals a reference printer, sugared and unsugared spellings parse to the same structure, re-display is a fixed point), descriptor wrappings with every tap tree shape up to 5 leaves, enumerated policies and the descriptor-key grammar round-trip. Checksum: library equals an independent BIP-380 model on every enumerated string and every (position, character); ALL 1- and 2-character substitutions of short checksummed descriptors are rejected by Descriptor::from_str / verify_checksum; the code model's error patterns of weight <= 2 are enumerated completely and have pairwise distinct syndromes (=> every <= 4-symbol error detected) up to the stated length.",
        "3 C10"),
 "C13":("bounded-exhaustive enumeration of spends and all single (thorough: pair) mutations; interpreter vs reference Script machine",
        "Every library satisfaction of every sane descriptor up to the node bound in every world, every single-element mutation of its witness / scriptSig (thorough: all pairs), and satisfactions fabricated with ignored time locks are given to Interpreter::iter and to the reference Script machine (consensus flags): interpreter-accept implies machine-accept, reported constraints equal the machine's trace and satisfy the lifted policy, and the library's own satisfactions are accepted.",
        "3 C13"),
 "C09":("bounded-exhaustive enumeration; measured execution traces vs static figures",
        "Same enumeration as C01; every satisfaction the library returns (all asset subsets, both modes, both production paths) is measured on the real data and on the reference machine's trace and compared with script_size, pk_cost, max_satisfaction_*, sat_data, max_weight_to_satisfy and the plan's announced sizes.",
        "3 C09"),
 "C17":("bounded-exhaustive enumeration; plan vs satisfier differential plus lock-necessity transactions on the reference Script machine",
        "Every descriptor of the C01 enumeration x all worlds x CanSign variants x both plan modes: into_plan succeeds iff the satisfier holding exactly those assets succeeds, Plan::satisfy equals get_satisfaction, the spend validates with exactly the reported locks and is rejected by the reference Script machine for every weaker lock (value-1, removed, other unit, final sequence).",
        "3 C17"),
 "C19":("bounded-exhaustive all-pairs/all-triples exploration over the BFS term universe",
        "Every ordered pair (and every triple of a slice) of all well-typed terms up to the node bound plus their k/arity/leaf neighbours is compared through ==, cmp and hash against the harness's structural identity; descriptors, tap trees and policies likewise over an enumerated family. Exhaustive within the bound, nothing sampled.",
        "3 C19"),
}
BUILT["C20"]=("bounded-exhaustive term enumeration x translator family, structural walker as oracle",
        "Every well-typed term up to the node bound in four contexts, a descriptor family covering every wrapping and tap trees, and policies are translated with identity / renaming / composed / failing-on-each-label / String->concrete / context-illegal translators; structure, types, scripts (against the reference encoder) and error kinds are compared with the harness model; iter_pk / for_each_key / for_any_key / Concrete::keys are compared with the key tokens of the string form.",
        "3 C20")
BUILT["C12"]=("bounded-exhaustive term enumeration x complete switch lattice; structural reference predicates",
        "Every well-typed term of every base type up to the node bound (key partitions, key forms): each validation switch alone fails iff the structurally computed defect is present, all 2^14 switch combinations on small terms, every numeric limit at figure-1 / figure / figure+1; every term pushed through every constructor and parser of its context against a structural legality predicate; descriptor-parser acceptance implies consensus-miniscript-parser acceptance; entails/intersect lattice laws on a parameter family and monotonicity of validate over all entailing pairs.",
        "3 C12")
BUILT["C15"]=("exhaustive enumeration of binary tree shapes and chains against a recursive BIP341 reference",
        "ALL binary tree shapes up to the leaf bound (two internal keys, repeated leaves) and left/right/zig-zag chains of every depth 1..128, each built by leaf/combine, by parsing and by key translation: merkle root, output key and parity, every control block (also verified independently against the scriptPubKey), leaf order and depths, address, bitcoin::TapTree conversion and Display->FromStr are compared with a reference written from BIP341; depth 129 must be refused.",
        "3 C15")
BUILT["C16"]=("bounded-exhaustive enumeration of output types / key forms / networks / indices against byte-level references",
        "Every output type x key form x network and every B term up to the node bound inside sh/wsh/sh-wsh/tr: scriptPubKey, address, explicit_script, script_code and unsigned_script_sig equal byte-level references and a spend signed over script_code() verifies on the reference Script machine; xpub key expressions x indices equal independent BIP32 derivation with the documented errors; all key permutations of sortedmulti give one scriptPubKey; multipath split equals textual selection.",
        "3 C16")
BUILT["C14"]=("explicit-state breadth-first search over PSBT operation histories (states = real Psbt values deduplicated by BIP174 serialisation)",
        "For each descriptor pair of a 15-member family, ALL histories of update / add-signature / add-preimage / finalize / finalize_mall / finalize_inp / finalize_inp_mall up to the depth bound (most pairs reach closure) are executed on real two-input PSBTs; on every transition: finalized inputs validate on the reference Script machine, final inputs are never altered by finalization, a failing finalize leaves the input byte-identical, idempotence, result consistency, order independence of data actions (one state per action set), extract succeeds iff all inputs are final and the extracted transaction validates, update records scripts / origins / taproot data that verify, sighash_msg equals the independent digest.",
        "3 C14")
BUILT["C18"]=("exhaustive enumeration of policies up to a node bound with truth-table (all assignments) oracles",
        "ALL semantic policies up to the node bound over 12 atoms (repeated atoms, TRIVIAL/UNSATISFIABLE children, thresholds with every k): normalized/sorted keep the truth table over all assignments, at_age/at_lock_time equal the restriction for every value around every lock in both units, n_keys, minimum_n_keys vs exhaustive assignment search; entails vs truth-table implication on ALL ordered pairs up to the pair bound; concrete policies: lift keeps the truth table, check_timelocks fires iff some satisfying path mixes units.",
        "3 C18")
BUILT["C08"]=("exhaustive enumeration of concrete policies up to a leaf bound x every compiler entry point; truth-table and execution oracles",
        "ALL concrete policies up to the leaf bound (and / weighted or / thresh, leaves over keys, hash, height/time locks) through compile::<4 contexts>, compile_to_descriptor (5 contexts), compile_tr, compile_tr_native (3 caps), compile_tr_private_experimental, with and without an unspendable key: every Ok output has the policy's truth table under the harness's own lift (all assignments), small policies are additionally executed on the reference Script machine in every world, outputs are sane/signed/non-malleable/within limits/free of context-forbidden fragments, every node's stored type equals from_ast, and the string re-parses with the default parser.",
        "3 C08")
BUILT["C11"]=("bounded-exhaustive input enumeration executed in fault-contained worker subprocesses",
        "Strings (22 parser entry points each): all strings up to the length bound over a 22-character alphabet, all grammar-token sequences up to the token bound, every single edit of every valid string of the term enumeration, scaling probes (nesting to 200000, width to 100000, 100 kB names, 40-digit numbers); script decoder: token sequences, raw bytes, truncations/substitutions of valid scripts, deep/wide scripts; interpreter: standard scriptPubKey templates and truncations x scriptSigs x witness sequences; PSBT: reachable fully-populated states with every field dropped/emptied/set to a boundary value through finalize*/extract/update*/sighash_msg; planner: key forms x asset fingerprints x derivation paths x capability flags. Each case runs in a worker process (address-space limit, wall budget); panics, aborts, stack overflows and hangs are attributed to the single offending input.",
        "3 C11")
NA_REASON={}

def hooks_commits():
    out=subprocess.run(["git","-C","/repo","log","--format=%h %s"],capture_output=True,text=True).stdout.splitlines()
    return [l.split()[0] for l in out if "cfg(miniscript_verif)" in l]

m={
 "version":1,
 "setup_cmd":"cd /verif/harness && CARGO_NET_OFFLINE=true cargo build --release --offline",
 "hooks":{"guard":"--cfg miniscript_verif",
          "enable":"rustflags = [\"--cfg\",\"miniscript_verif\"] in /verif/harness/.cargo/config.toml; miniscript is a path dependency on /repo so every check rebuilds the current working tree with the hook on",
          "baseline_off_cmd":"cd /repo && cargo test --workspace --no-fail-fast --offline",
          "source_commits":hooks_commits(),"add_only":True},
 "engines":[
   {"name":"msverif","path":"/verif/harness","serves_properties":sorted(BUILT.keys()),
    "kind_free_text":"own explicit-state explorers in Rust running the real crate in-process: term BFS (states = well-typed terms accepted by Miniscript::from_ast), reference Script machine with nondeterministic witness exploration, PSBT operation-history BFS"}],
 "checks":[],
 "not_applicable":[],
 "notes":"Driver: ./check <Cxx> --tier quick|thorough [--replay file]. exit 0 held / 1 violation / 2 machinery failure. Known findings: /verif/known_findings.jsonl."
}
for i in ids:
    if i in BUILT:
        tech,text,ref=BUILT[i]
        m["checks"].append({
          "property_id":i,
          "quick_cmd":f"./check {i} --tier quick",
          "thorough_cmd":f"./check {i} --tier thorough",
          "evidence_file":f"/verif/evidence/{i}.json",
          "replay_cmd_template":f"./check {i} --replay {{path}}",
          "engine":"msverif",
          "level_claimed":{"category":"model_checking","text":text,"design_ref":ref},
          "level_note":ASSUME,
          "technique":tech})
    else:
        m["not_applicable"].append({"property_id":i,"reason":NA_REASON.get(i,"check not built yet (work in progress; design in DESIGN.md section 3)")})
json.dump(m,open('/verif/MANIFEST.json','w'),indent=1)
print("checks:",[c["property_id"] for c in m["checks"]])

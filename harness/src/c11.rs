//! C11 — no input can crash or hang the library.
//!
//! All calls run in worker subprocesses (`msverif worker`) with an address-space limit; the
//! parent feeds cases over a pipe, detects panics (reported by the worker with their site),
//! aborts / stack overflows (worker death) and hangs (no answer within the budget), attributes
//! each to the single offending input and restarts the worker.

use std::collections::BTreeMap;
use std::io::{BufRead, BufReader, Write};
use std::process::{Child, ChildStdin, Command, Stdio};
use std::str::FromStr;
use std::sync::mpsc::{channel, Receiver, RecvTimeoutError};
use std::sync::{Arc, Mutex};
use std::time::Duration;

use bitcoin::hashes::Hash;
use bitcoin::psbt::Psbt;
use bitcoin::{ScriptBuf, Sequence, Witness};
use miniscript::descriptor::{Bare, DescriptorSecretKey, Sh, Tr, WalletPolicy, Wsh};
use miniscript::plan::{Assets, CanSign};
use miniscript::policy::{Concrete, Semantic};
use miniscript::psbt::PsbtExt;
use miniscript::{
    BareCtx, DefiniteDescriptorKey, Descriptor, DescriptorPublicKey, Interpreter, Legacy, Miniscript, Segwitv0, Tap, ValidationParams,
};
use secp256k1::SECP256K1;
use serde_json::json;

use crate::ast::{serialize_toks, walk, Tok, T};
use crate::common::*;
use crate::desc::D;
use crate::keys::{key, DefEnv, KeyForm};
use crate::terms::{explore, Alphabet};

// ------------------------------------------------------------------ worker side

fn run_string(s: &str) {
    let _ = Descriptor::<String>::from_str(s);
    let _ = Descriptor::<DescriptorPublicKey>::from_str(s);
    let _ = Descriptor::<DefiniteDescriptorKey>::from_str(s);
    let _ = Descriptor::parse_descriptor(SECP256K1, s);
    let _ = Miniscript::<String, Segwitv0>::from_str(s);
    let _ = Miniscript::<String, Segwitv0>::from_str_insane(s);
    let _ = Miniscript::<String, Tap>::from_str_insane(s);
    let _ = Miniscript::<String, Legacy>::from_str_insane(s);
    let _ = Miniscript::<String, BareCtx>::from_str_insane(s);
    let _ = Miniscript::<bitcoin::PublicKey, Segwitv0>::from_str_with_validation_params(s, &ValidationParams::MAX);
    let _ = Miniscript::<String, Tap>::from_str_with_validation_params(s, &ValidationParams::MAX);
    let _ = Concrete::<String>::from_str(s);
    let _ = Semantic::<String>::from_str(s);
    let _ = DescriptorPublicKey::from_str(s);
    let _ = DescriptorSecretKey::from_str(s);
    let _ = DefiniteDescriptorKey::from_str(s);
    let _ = WalletPolicy::from_str(s);
    let _ = miniscript::expression::Tree::from_str(s);
    let _ = Tr::<String>::from_str(s);
    let _ = Wsh::<String>::from_str(s);
    let _ = Sh::<String>::from_str(s);
    let _ = Bare::<String>::from_str(s);
    // things that parsed are exercised a little further
    if let Ok(d) = Descriptor::<String>::from_str(s) {
        let _ = d.to_string();
        use miniscript::policy::Liftable;
        let _ = d.lift();
    }
    // (the policy compiler and the policy transformations are not among C11's entry points)
    if let Ok(p) = Concrete::<String>::from_str(s) {
        let _ = p.to_string();
    }
    if let Ok(d) = Descriptor::<DescriptorPublicKey>::from_str(s) {
        let _ = d.derive_at_index(0).into_result().map(|x| x.script_pubkey());
        let _ = d.clone().into_single_descriptors();
        let _ = d.max_weight_to_satisfy();
    }
}

fn run_script(b: &[u8]) {
    let s = ScriptBuf::from_bytes(b.to_vec());
    macro_rules! ctx {
        ($c:ty) => {{
            let _ = Miniscript::<<$c as miniscript::ScriptContext>::Key, $c>::decode(&s);
            let _ = Miniscript::<<$c as miniscript::ScriptContext>::Key, $c>::decode_consensus(&s);
            if let Ok(m) = Miniscript::<<$c as miniscript::ScriptContext>::Key, $c>::decode_with_validation_params(&s, &ValidationParams::MAX) {
                let _ = m.to_string();
                let _ = m.encode();
                let _ = m.script_size();
                use miniscript::policy::Liftable;
                let _ = m.lift();
                let _ = m.max_satisfaction_size();
            }
        }};
    }
    ctx!(Segwitv0);
    ctx!(Tap);
    ctx!(Legacy);
    ctx!(BareCtx);
}

fn split_fields(b: &[u8]) -> Vec<Vec<u8>> {
    // length-prefixed (u16 LE) fields
    let mut out = vec![];
    let mut i = 0;
    while i + 2 <= b.len() {
        let l = u16::from_le_bytes([b[i], b[i + 1]]) as usize;
        i += 2;
        if i + l > b.len() {
            break;
        }
        out.push(b[i..i + l].to_vec());
        i += l;
    }
    out
}

pub fn join_fields(f: &[Vec<u8>]) -> Vec<u8> {
    let mut out = vec![];
    for x in f {
        out.extend((x.len() as u16).to_le_bytes());
        out.extend(x);
    }
    out
}

fn run_interp(b: &[u8]) {
    // fields: spk, scriptSig, n witness items..., then 8 trailing bytes: sequence, locktime
    let f = split_fields(b);
    if f.len() < 3 {
        return;
    }
    let spk = ScriptBuf::from_bytes(f[0].clone());
    let ss = ScriptBuf::from_bytes(f[1].clone());
    let meta = &f[f.len() - 1];
    if meta.len() != 8 {
        return;
    }
    let wit = Witness::from_slice(&f[2..f.len() - 1]);
    let seq = Sequence(u32::from_le_bytes([meta[0], meta[1], meta[2], meta[3]]));
    let lt = bitcoin::absolute::LockTime::from_consensus(u32::from_le_bytes([meta[4], meta[5], meta[6], meta[7]]));
    if let Ok(i) = Interpreter::from_txdata(&spk, &ss, &wit, seq, lt) {
        for _ in i.iter_assume_sigs() {}
        let _ = i.inferred_descriptor();
        let _ = i.inferred_descriptor_string();
        let spend = crate::world::make_spend(spk.clone(), lt.to_consensus_u32(), seq.0);
        let prevouts = bitcoin::sighash::Prevouts::All(&spend.prevouts);
        for _ in i.iter(SECP256K1, &spend.tx, 0, &prevouts) {}
    }
}

fn run_psbt(b: &[u8]) {
    // fields: psbt bytes, descriptor string (may be empty)
    let f = split_fields(b);
    if f.is_empty() {
        return;
    }
    let psbt = match Psbt::deserialize(&f[0]) {
        Ok(p) => p,
        Err(_) => return,
    };
    let desc = f.get(1).and_then(|d| std::str::from_utf8(d).ok()).and_then(|s| Descriptor::<DefiniteDescriptorKey>::from_str(s).ok());
    for variant in 0..8 {
        let mut p = psbt.clone();
        match variant {
            0 => {
                let _ = p.finalize_mut(SECP256K1);
            }
            1 => {
                let _ = p.finalize_mall_mut(SECP256K1);
            }
            2 => {
                for i in 0..4 {
                    let _ = p.finalize_inp_mut(SECP256K1, i);
                }
            }
            3 => {
                for i in 0..4 {
                    let _ = p.finalize_inp_mall_mut(SECP256K1, i);
                }
            }
            4 => {
                let _ = p.extract(SECP256K1);
            }
            5 => {
                if let Some(d) = &desc {
                    for i in 0..3 {
                        let _ = p.update_input_with_descriptor(i, d);
                        let _ = p.update_output_with_descriptor(i, d);
                    }
                }
            }
            6 => {
                let tx = p.unsigned_tx.clone();
                let mut cache = bitcoin::sighash::SighashCache::new(&tx);
                for i in 0..4 {
                    let _ = p.sighash_msg(i, &mut cache, None);
                    let _ = p.sighash_msg(i, &mut cache, Some(bitcoin::taproot::TapLeafHash::from_byte_array([7; 32])));
                }
            }
            _ => {
                let _ = p.clone().finalize(SECP256K1);
            }
        }
    }
}

fn run_plan(b: &[u8]) {
    // fields: descriptor string, then per key source: fingerprint(4) + path string, flags
    let f = split_fields(b);
    if f.len() < 2 {
        return;
    }
    let desc = match std::str::from_utf8(&f[0]).ok().and_then(|s| Descriptor::<DefiniteDescriptorKey>::from_str(s).ok()) {
        Some(d) => d,
        None => return,
    };
    let mut a = Assets::new();
    for src in &f[1..] {
        if src.len() < 5 {
            continue;
        }
        let fp = bitcoin::bip32::Fingerprint::from([src[0], src[1], src[2], src[3]]);
        let flags = src[4];
        let path = std::str::from_utf8(&src[5..]).ok().and_then(|s| bitcoin::bip32::DerivationPath::from_str(s).ok());
        if let Some(path) = path {
            let mut cs = CanSign::default();
            if flags & 1 != 0 {
                cs.ecdsa = false;
            }
            if flags & 2 != 0 {
                cs.taproot.key_spend = false;
            }
            if flags & 4 != 0 {
                cs.taproot.sighash_default = false;
            }
            a.keys.insert(((fp, path), cs));
        }
        if flags & 8 != 0 {
            a.absolute_timelock = Some(bitcoin::absolute::LockTime::from_consensus(if flags & 16 != 0 { 500_000_100 } else { 100 }));
        }
        if flags & 32 != 0 {
            a.relative_timelock = bitcoin::relative::LockTime::from_consensus(if flags & 64 != 0 { 0x400010 } else { 16 }).ok();
        }
    }
    for mall in [false, true] {
        let r = if mall { desc.clone().into_plan_mall(&a) } else { desc.clone().into_plan(&a) };
        if let Ok(p) = r {
            let _ = p.witness_size();
            let _ = p.scriptsig_size();
            let _ = p.satisfaction_weight();
            let mut inp = bitcoin::psbt::Input::default();
            p.update_psbt_input(&mut inp);
        }
    }
}

/// Debug aid: run one string through each string entry point separately, timing each
/// (each entry in its own child process when invoked as `msverif probe <file>`).
/// Planner over descriptor shapes: fields = descriptor string, then one byte string
/// [key mask lo, key mask hi, flags]; assets are built with the public builder API from the
/// descriptor's own keys (bit i = key i is held), its hash leaves (flag 1 = all preimages held)
/// and locks (flag 2 = absolute 500000100 / relative 0x400010 in time units, flag 4 = 100 / 16 in blocks).
fn run_plan_shapes(b: &[u8]) {
    use miniscript::{ForEachKey, Terminal};
    let f = split_fields(b);
    if f.len() < 2 || f[1].len() < 3 {
        return;
    }
    let desc = match std::str::from_utf8(&f[0]).ok().and_then(|s| Descriptor::<DefiniteDescriptorKey>::from_str(s).ok()) {
        Some(d) => d,
        None => return,
    };
    let mask = f[1][0] as u16 | ((f[1][1] as u16) << 8);
    let flags = f[1][2];
    let mut keys: Vec<DescriptorPublicKey> = vec![];
    desc.for_each_key(|k| {
        let k = k.clone().into_descriptor_public_key();
        if !keys.contains(&k) {
            keys.push(k);
        }
        true
    });
    let mut a = Assets::new();
    for (i, k) in keys.iter().enumerate() {
        if i < 16 && mask & (1 << i) != 0 {
            a = a.add(k.clone());
        }
    }
    if flags & 1 != 0 {
        macro_rules! hashes {
            ($ms:expr) => {
                for n in $ms.iter() {
                    match &n.node {
                        Terminal::Sha256(h) => a = a.add(*h),
                        Terminal::Hash256(h) => a = a.add(*h),
                        Terminal::Ripemd160(h) => a = a.add(*h),
                        Terminal::Hash160(h) => a = a.add(*h),
                        _ => {}
                    }
                }
            };
        }
        match &desc {
            Descriptor::Bare(x) => hashes!(x.as_inner()),
            Descriptor::Wsh(x) => hashes!(x.as_inner()),
            Descriptor::Sh(x) => match x.as_inner() {
                miniscript::descriptor::ShInner::Ms(ms) => hashes!(ms),
                miniscript::descriptor::ShInner::Wsh(w) => hashes!(w.as_inner()),
                _ => {}
            },
            Descriptor::Tr(t) => {
                for leaf in t.leaves() {
                    hashes!(leaf.miniscript())
                }
            }
            _ => {}
        }
    }
    if flags & 2 != 0 {
        a = a.after(bitcoin::absolute::LockTime::from_consensus(500_000_100));
        if let Ok(l) = bitcoin::relative::LockTime::from_consensus(0x400010) {
            a = a.older(l);
        }
    }
    if flags & 4 != 0 {
        a = a.after(bitcoin::absolute::LockTime::from_consensus(100));
        if let Ok(l) = bitcoin::relative::LockTime::from_consensus(16) {
            a = a.older(l);
        }
    }
    for mall in [false, true] {
        let r = if mall { desc.clone().into_plan_mall(&a) } else { desc.clone().into_plan(&a) };
        if let Ok(p) = r {
            let _ = p.witness_size();
            let _ = p.scriptsig_size();
            let _ = p.satisfaction_weight();
            let _ = p.witness_template().len();
            let _ = p.witness_version();
            let mut inp = bitcoin::psbt::Input::default();
            p.update_psbt_input(&mut inp);
        }
    }
}

pub fn probe_main(path: &str, which: Option<usize>) -> i32 {
    let s = std::fs::read_to_string(path).unwrap();
    let s = s.trim_end_matches('\n');
    let entries: Vec<(&str, Box<dyn Fn(&str)>)> = vec![
        ("Descriptor<String>", Box::new(|s| { let _ = Descriptor::<String>::from_str(s); })),
        ("Descriptor<DescriptorPublicKey>", Box::new(|s| { let _ = Descriptor::<DescriptorPublicKey>::from_str(s); })),
        ("parse_descriptor", Box::new(|s| { let _ = Descriptor::parse_descriptor(SECP256K1, s); })),
        ("Miniscript<String,Segwitv0>::from_str", Box::new(|s| { let _ = Miniscript::<String, Segwitv0>::from_str(s); })),
        ("Miniscript<String,Tap>::from_str_insane", Box::new(|s| { let _ = Miniscript::<String, Tap>::from_str_insane(s); })),
        ("Miniscript<PublicKey,Segwitv0> MAX", Box::new(|s| { let _ = Miniscript::<bitcoin::PublicKey, Segwitv0>::from_str_with_validation_params(s, &ValidationParams::MAX); })),
        ("Concrete::from_str", Box::new(|s| { let _ = Concrete::<String>::from_str(s); })),
        ("Concrete parse+compile", Box::new(|s| { if let Ok(p) = Concrete::<String>::from_str(s) { let _ = p.compile::<Segwitv0>(); } })),
        ("Concrete parse+lift", Box::new(|s| { if let Ok(p) = Concrete::<String>::from_str(s) { use miniscript::policy::Liftable; let _ = p.lift(); } })),
        ("Concrete parse+display", Box::new(|s| { if let Ok(p) = Concrete::<String>::from_str(s) { let _ = p.to_string(); } })),
        ("Semantic::from_str", Box::new(|s| { let _ = Semantic::<String>::from_str(s); })),
        ("DescriptorPublicKey", Box::new(|s| { let _ = DescriptorPublicKey::from_str(s); })),
        ("DescriptorSecretKey", Box::new(|s| { let _ = DescriptorSecretKey::from_str(s); })),
        ("WalletPolicy", Box::new(|s| { let _ = WalletPolicy::from_str(s); })),
        ("expression::Tree", Box::new(|s| { let _ = miniscript::expression::Tree::from_str(s); })),
        ("Tr", Box::new(|s| { let _ = Tr::<String>::from_str(s); })),
        ("Wsh", Box::new(|s| { let _ = Wsh::<String>::from_str(s); })),
    ];
    match which {
        Some(i) => {
            let t = std::time::Instant::now();
            (entries[i].1)(s);
            println!("{:40} {:?}", entries[i].0, t.elapsed());
            0
        }
        None => {
            let exe = std::env::current_exe().unwrap();
            for i in 0..entries.len() {
                let st = Command::new(&exe).arg("probe").arg(path).arg(i.to_string()).status().unwrap();
                if !st.success() {
                    println!("{:40} DIED {:?}", entries[i].0, st);
                }
            }
            0
        }
    }
}

pub fn worker_main() -> i32 {
    // address space limit: an unbounded allocation must fail loudly, not take the box down
    unsafe {
        let lim = libc::rlimit { rlim_cur: 6 << 30, rlim_max: 6 << 30 };
        libc::setrlimit(libc::RLIMIT_AS, &lim);
    }
    let stdin = std::io::stdin();
    let stdout = std::io::stdout();
    let mut out = stdout.lock();
    for line in stdin.lock().lines() {
        let line = match line {
            Ok(l) => l,
            Err(_) => break,
        };
        let (kind, payload) = match line.split_once('\t') {
            Some(x) => x,
            None => continue,
        };
        let bytes = unhex(payload);
        let r = guard(|| match kind {
            "str" => {
                if let Ok(s) = std::str::from_utf8(&bytes) {
                    run_string(s)
                }
            }
            "scr" => run_script(&bytes),
            "int" => run_interp(&bytes),
            "psbt" => run_psbt(&bytes),
            "plan" => run_plan(&bytes),
            "plan2" => run_plan_shapes(&bytes),
            // controls of the containment itself (never generated as a case)
            "ctl-spin" => loop {
                std::hint::black_box(bytes.len());
            },
            "ctl-panic" => panic!("control panic"),
            _ => {}
        });
        match r {
            Ok(()) => {
                let _ = writeln!(out, "D");
            }
            Err(p) => {
                let _ = writeln!(out, "P {}", p);
            }
        }
        let _ = out.flush();
    }
    0
}

// ------------------------------------------------------------------ parent side

struct Worker {
    child: Child,
    stdin: ChildStdin,
    rx: Receiver<String>,
}

fn spawn_worker() -> Worker {
    let exe = std::env::current_exe().expect("exe");
    let mut child = Command::new(exe).arg("worker").stdin(Stdio::piped()).stdout(Stdio::piped()).stderr(Stdio::null()).spawn().expect("spawn worker");
    let stdin = child.stdin.take().unwrap();
    let stdout = child.stdout.take().unwrap();
    let (tx, rx) = channel();
    std::thread::spawn(move || {
        for l in BufReader::new(stdout).lines() {
            match l {
                Ok(l) => {
                    if tx.send(l).is_err() {
                        break;
                    }
                }
                Err(_) => break,
            }
        }
    });
    Worker { child, stdin, rx }
}

enum HangVerdict {
    Answered(String),
    Died,
    CpuExceeded(u64),
}

/// CPU milliseconds (user + system) a process has used so far
fn cpu_ms(pid: u32) -> Option<u64> {
    let st = std::fs::read_to_string(format!("/proc/{}/stat", pid)).ok()?;
    // fields after the parenthesised command name; utime and stime are the 14th and 15th overall
    let rest = &st[st.rfind(')')? + 2..];
    let f: Vec<&str> = rest.split(' ').collect();
    let ticks: u64 = f.get(11)?.parse::<u64>().ok()? + f.get(12)?.parse::<u64>().ok()?;
    let hz = unsafe { libc::sysconf(libc::_SC_CLK_TCK) }.max(1) as u64;
    Some(ticks * 1000 / hz)
}

/// One input, alone, in a fresh worker: answered, died, or used more CPU time than its budget.
fn confirm_hang(c: &Case) -> HangVerdict {
    let mut w = spawn_worker();
    let pid = w.child.id();
    let base = cpu_ms(pid).unwrap_or(0);
    let line = format!("{}\t{}\n", c.kind, hex(&c.payload));
    if w.stdin.write_all(line.as_bytes()).and_then(|_| w.stdin.flush()).is_err() {
        let _ = w.child.kill();
        let _ = w.child.wait();
        return HangVerdict::Died;
    }
    let wall = std::time::Instant::now();
    loop {
        match w.rx.recv_timeout(Duration::from_millis(50)) {
            Ok(l) => {
                drop(w.stdin);
                let _ = w.child.wait();
                return HangVerdict::Answered(l);
            }
            Err(RecvTimeoutError::Disconnected) => {
                let _ = w.child.wait();
                return HangVerdict::Died;
            }
            Err(RecvTimeoutError::Timeout) => {
                let used = cpu_ms(pid).unwrap_or(0).saturating_sub(base);
                // the wall ceiling only ends a worker that sleeps without using CPU (none of the
                // entry points blocks); it is 100 budgets wide so that load cannot reach it
                if used > c.budget_ms || wall.elapsed().as_millis() as u64 > 100 * c.budget_ms {
                    let _ = w.child.kill();
                    let _ = w.child.wait();
                    return HangVerdict::CpuExceeded(used);
                }
            }
        }
    }
}

#[derive(Clone)]
pub struct Case {
    pub kind: &'static str,
    pub payload: Vec<u8>,
    pub budget_ms: u64,
    pub origin: &'static str,
}

fn describe(c: &Case) -> String {
    match c.kind {
        "str" => {
            let s = String::from_utf8_lossy(&c.payload).to_string();
            if s.len() > 120 {
                format!("{}...[{} chars]", &s[..120], s.len())
            } else {
                s
            }
        }
        _ => {
            let h = hex(&c.payload);
            if h.len() > 160 {
                format!("{}...[{} bytes]", &h[..160], c.payload.len())
            } else {
                h
            }
        }
    }
}

fn report(rep: &Report, c: &Case, class: String, what: String) {
    let id = if c.payload.len() > 200 { format!("{}-bytes-{:016x}", c.payload.len(), fnv64(&c.payload)) } else { describe(c) };
    rep.violation(Violation {
        key: format!("C11|{}|{}|{}", class, c.kind, id),
        class,
        what,
        case: json!({"kind": c.kind, "origin": c.origin, "input": describe(c), "input_hex": if c.payload.len() <= 4096 { hex(&c.payload) } else { String::new() }}),
    });
}

/// Runs all cases through one worker (restarting it when it dies); returns census.
fn run_cases(rep: &Report, cases: &[Case]) -> BTreeMap<&'static str, u64> {
    let mut cen: BTreeMap<&'static str, u64> = BTreeMap::new();
    let mut w = spawn_worker();
    let mut i = 0;
    const CHUNK: usize = 128;
    while i < cases.len() {
        let end = (i + CHUNK).min(cases.len());
        // write the chunk
        let mut buf = String::new();
        for c in &cases[i..end] {
            buf.push_str(c.kind);
            buf.push('\t');
            buf.push_str(&hex(&c.payload));
            buf.push('\n');
        }
        let write_ok = w.stdin.write_all(buf.as_bytes()).and_then(|_| w.stdin.flush()).is_ok();
        let mut j = i;
        let mut died = !write_ok;
        while j < end && !died {
            let budget = Duration::from_millis(cases[j].budget_ms);
            match w.rx.recv_timeout(budget) {
                Ok(l) => {
                    *cen.entry("cases_completed").or_insert(0) += 1;
                    if let Some(p) = l.strip_prefix("P ") {
                        *cen.entry("panics").or_insert(0) += 1;
                        report(rep, &cases[j], format!("panic@{}", panic_site(p)), format!("panic: {}", p));
                    }
                    j += 1;
                }
                Err(RecvTimeoutError::Timeout) => {
                    let _ = w.child.kill();
                    let _ = w.child.wait();
                    // wall time says nothing on a loaded machine: the verdict is taken from the CPU time
                    // a fresh worker spends on this one input
                    match confirm_hang(&cases[j]) {
                        HangVerdict::Answered(l) => {
                            *cen.entry("cases_completed").or_insert(0) += 1;
                            *cen.entry("slow_by_wall_clock_only").or_insert(0) += 1;
                            if let Some(p) = l.strip_prefix("P ") {
                                *cen.entry("panics").or_insert(0) += 1;
                                report(rep, &cases[j], format!("panic@{}", panic_site(p)), format!("panic: {}", p));
                            }
                        }
                        HangVerdict::Died => {
                            *cen.entry("worker_deaths").or_insert(0) += 1;
                            report(rep, &cases[j], format!("crash-0-{}", cases[j].origin), "worker died on this input (re-run alone after a wall-clock overrun)".into());
                        }
                        HangVerdict::CpuExceeded(ms) => {
                            *cen.entry("hangs").or_insert(0) += 1;
                            report(rep, &cases[j], format!("hang-{}", cases[j].origin), format!("no answer after {} ms of CPU time on this input alone (budget {} ms: hang or super-linear time)", ms, cases[j].budget_ms));
                        }
                    }
                    j += 1;
                    died = true;
                }
                Err(RecvTimeoutError::Disconnected) => {
                    let st = w.child.wait().ok();
                    *cen.entry("worker_deaths").or_insert(0) += 1;
                    use std::os::unix::process::ExitStatusExt;
                    let sig = st.and_then(|s| s.signal());
                    let how = match sig {
                        Some(11) => "SIGSEGV (stack overflow)".to_string(),
                        Some(6) => "SIGABRT (abort / allocation failure)".to_string(),
                        Some(s) => format!("signal {}", s),
                        None => format!("exit {:?}", st.and_then(|s| s.code())),
                    };
                    report(rep, &cases[j], format!("crash-{}-{}", sig.unwrap_or(0), cases[j].origin), format!("worker died on this input: {}", how));
                    j += 1;
                    died = true;
                }
            }
        }
        if died {
            let _ = w.child.kill();
            let _ = w.child.wait();
            w = spawn_worker();
        }
        i = j.max(i + if died && j == i { 1 } else { 0 });
        if died {
            // the rest of the chunk was lost with the worker: resend from j
            continue;
        }
    }
    drop(w.stdin);
    let _ = w.child.wait();
    cen
}

// ------------------------------------------------------------------ generators

const XPUB: &str = "xpub6ERApfZwUNrhLCkDtcHTcxd75RbzS1ed54G1LkBUHQVHQKqhMkhgbmJbZRkrgZw4koxb5JaHWkY4ALHY2grBGRjaDMzQLcgJvLJuZZvRcEL";
const KEY: &str = "02c2fd50ceae468857bb7eb32ae9cd4083e6c7e42fbbec179d81134b3e3830586c";

fn scase(s: String, origin: &'static str, budget: u64) -> Case { Case { kind: "str", payload: s.into_bytes(), budget_ms: budget, origin } }

fn gen_short_strings(maxlen: usize) -> Vec<Case> {
    let alpha: Vec<char> = "(){},:#@/*'<;>[]019avk".chars().collect();
    let mut out = vec![];
    for len in 0..=maxlen {
        let total = alpha.len().pow(len as u32);
        for mut code in 0..total {
            let mut s = String::with_capacity(len);
            for _ in 0..len {
                s.push(alpha[code % alpha.len()]);
                code /= alpha.len();
            }
            out.push(scase(s, "short-string", 3000));
        }
    }
    out
}

fn gen_token_sequences(maxlen: usize) -> Vec<Case> {
    let toks: Vec<String> = vec![
        "pk(".into(), "pkh(".into(), "and_v(".into(), "thresh(".into(), "multi(".into(), "tr(".into(), "wsh(".into(), "sh(".into(), ")".into(), ",".into(), "{".into(), "}".into(),
        "A".into(), "2".into(), "v:".into(), "#".into(), KEY.into(), format!("{}/<0;1>/*", XPUB), "or(".into(), "9@".into(), "after(".into(), "0".into(),
    ];
    let mut out = vec![];
    for len in 1..=maxlen {
        let total = toks.len().pow(len as u32);
        for mut code in 0..total {
            let mut s = String::new();
            for _ in 0..len {
                s.push_str(&toks[code % toks.len()]);
                code /= toks.len();
            }
            out.push(scase(s, "token-sequence", 3000));
        }
    }
    out
}

fn valid_strings(n: usize) -> Vec<String> {
    let mut v = vec![];
    let te = explore::<Segwitv0>(n, Alphabet::Small, false);
    for m in te.all() {
        let t = walk(m).relabel_distinct();
        if m.ty.corr.base == miniscript::miniscript::types::Base::B {
            v.push(format!("wsh({})", t.print()));
        }
        v.push(t.print());
    }
    let te = explore::<Tap>(n.min(3), Alphabet::Small, true);
    for m in te.all() {
        if m.ty.corr.base == miniscript::miniscript::types::Base::B {
            let t = walk(m).relabel_distinct();
            v.push(format!("tr(I,{{{},pk(Z)}})", t.print()));
        }
    }
    v.extend([
        format!("wpkh([d34db33f/44'/0'/0']{}/0/*)", XPUB),
        format!("tr({}/<0;1>/*,{{pk({}/1/*),and_v(v:pk({}),older(5))}})", XPUB, XPUB, KEY),
        format!("sh(wsh(sortedmulti(2,{},{}/0/*)))", KEY, XPUB),
        "and(pk(A),or(9@pk(B),1@after(10)))".into(),
        "thresh(2,pk(A),pk(B),older(5))".into(),
        "wsh(thresh(2,pk(A),s:pk(B),sln:older(5)))#pf8cmjjm".into(),
        "tr(@0/**,{pk(@1/<0;1>/*),multi_a(2,@2/**,@3/**)})".into(),
    ]);
    v
}

fn gen_single_edits(strings: &[String], max_strings_len: usize) -> Vec<Case> {
    let alpha: Vec<char> = "(){},:#@/*'<;>[]019avk".chars().collect();
    let mut out = vec![];
    for s in strings {
        if s.len() > max_strings_len {
            continue;
        }
        let ch: Vec<char> = s.chars().collect();
        for i in 0..=ch.len() {
            if i < ch.len() {
                let mut d = ch.clone();
                d.remove(i);
                out.push(scase(d.iter().collect(), "single-edit", 3000));
            }
            for a in &alpha {
                let mut d = ch.clone();
                d.insert(i, *a);
                out.push(scase(d.iter().collect(), "single-edit", 3000));
                if i < ch.len() && ch[i] != *a {
                    let mut d = ch.clone();
                    d[i] = *a;
                    out.push(scase(d.iter().collect(), "single-edit", 3000));
                }
            }
        }
    }
    out
}

/// Malformed strings that carry a VALID checksum of their own body (parsers strip and verify the
/// checksum first and then run on the remaining body, with different length bookkeeping).
fn gen_checksummed(strings: &[String], short_len: usize) -> Vec<Case> {
    let mut bodies: Vec<String> = vec![];
    for c in gen_short_strings(short_len) {
        bodies.push(String::from_utf8_lossy(&c.payload).to_string());
    }
    for c in gen_token_sequences(2) {
        bodies.push(String::from_utf8_lossy(&c.payload).to_string());
    }
    let short_valid: Vec<String> = strings.iter().filter(|s| s.len() <= 26 && !s.contains('#')).cloned().collect();
    for c in gen_single_edits(&short_valid, 26) {
        bodies.push(String::from_utf8_lossy(&c.payload).to_string());
    }
    for s in strings.iter().filter(|s| !s.contains('#')) {
        // every truncation of every valid string
        for cut in 0..s.len() {
            if s.is_char_boundary(cut) {
                bodies.push(s[..cut].to_string());
            }
        }
    }
    bodies.sort();
    bodies.dedup();
    let mut out = vec![];
    for b in bodies {
        if b.contains('#') {
            continue;
        }
        if let Some(cs) = crate::c10::descsum_create(&b) {
            out.push(scase(format!("{}#{}", b, cs), "valid-checksum-on-malformed-body", 3000));
        }
    }
    out
}

/// A token that has to be a leaf (number, key, hash, constant) given children of its own: after
/// every leaf token of every valid string, one of a few bracketed argument lists is inserted.
/// Arity edits: every node of every source string with one argument removed, one argument
/// repeated, and all arguments removed (parsers check arities before they index into children).
fn gen_arity_edits(strings: &[String]) -> Vec<Case> {
    let mut srcs: Vec<String> = strings.iter().filter(|s| s.len() <= 90).cloned().collect();
    srcs.extend(
        [
            "and(pk(A),pk(B))",
            "or(pk(A),pk(B))",
            "or(3@pk(A),1@and(pk(B),older(5)))",
            "thresh(2,pk(A),pk(B),pk(C))",
            "and(pk(A),or(pk(B),and(older(5),sha256(0102030405060708090a0b0c0d0e0f101112131415161718191a1b1c1d1e1f20))))",
            "wsh(andor(pk(A),pk(B),pk(C)))",
            "wsh(multi(2,A,B,C))",
            "sh(sortedmulti(1,A,B))",
            "tr(A,{pk(B),{pk(C),multi_a(1,D,E)}})",
            "wsh(thresh(2,pk(A),s:pk(B),s:pk(C)))",
        ]
        .iter()
        .map(|s| s.to_string()),
    );
    let mut out = std::collections::BTreeSet::new();
    for s in &srcs {
        let ch: Vec<char> = s.chars().collect();
        // every '(' or '{' opens an argument list: find its top-level commas and its closing bracket
        for (i, c) in ch.iter().enumerate() {
            if *c != '(' && *c != '{' {
                continue;
            }
            let mut depth = 0i32;
            let mut cuts = vec![i];
            let mut close = None;
            for j in i..ch.len() {
                match ch[j] {
                    '(' | '{' => depth += 1,
                    ')' | '}' => {
                        depth -= 1;
                        if depth == 0 {
                            close = Some(j);
                            break;
                        }
                    }
                    ',' if depth == 1 => cuts.push(j),
                    _ => {}
                }
            }
            let close = match close {
                Some(c) => c,
                None => continue,
            };
            cuts.push(close);
            let args: Vec<String> = cuts.windows(2).map(|w| ch[w[0] + 1..w[1]].iter().collect()).collect();
            let head: String = ch[..=i].iter().collect();
            let tail: String = ch[close..].iter().collect();
            let mut variants: Vec<Vec<String>> = vec![vec![]];
            for k in 0..args.len() {
                let mut v = args.clone();
                v.remove(k);
                variants.push(v);
                let mut v = args.clone();
                v.insert(k, args[k].clone());
                variants.push(v);
            }
            for v in variants {
                out.insert(format!("{}{}{}", head, v.join(","), tail));
            }
        }
    }
    out.into_iter().map(|s| scase(s, "arity-edit", 3000)).collect()
}

fn gen_leaf_with_children(strings: &[String]) -> Vec<Case> {
    let tails = ["()", "(A)", "(pk(A))", "(pk(A),pk(B))", "(TRIVIAL,TRIVIAL)", "(0)", "(1,2)", "{A,B}", "(("];
    let mut out = vec![];
    let mut srcs: Vec<String> = strings.iter().filter(|s| s.len() <= 60).cloned().collect();
    srcs.extend(["older(1)", "after(1)", "and(pk(A),older(144))", "or(pk(A),after(10))", "thresh(1,older(5),after(7))", "sha256(aa)", "pk(A)", "TRIVIAL", "UNSATISFIABLE", "wsh(and_v(v:pk(A),older(5)))", "tr(A,and_v(v:pk(B),after(9)))"].iter().map(|s| s.to_string()));
    for s in &srcs {
        let ch: Vec<char> = s.chars().collect();
        for i in 0..ch.len() {
            let is_tok = ch[i].is_ascii_alphanumeric() || ch[i] == '\'' || ch[i] == '*';
            let end = i + 1 == ch.len() || matches!(ch[i + 1], ',' | ')' | '}' | '#');
            if is_tok && end {
                for t in tails {
                    let mut d: String = ch[..=i].iter().collect();
                    d.push_str(t);
                    d.extend(ch[i + 1..].iter());
                    out.push(scase(d, "leaf-with-children", 3000));
                }
            }
        }
    }
    out
}

fn gen_scaling() -> Vec<Case> {
    let mut out = vec![];
    let b = 20_000u64;
    for depth in [400usize, 401, 402, 403, 404, 5000, 200_000] {
        for w in ["a:", "s:", "v:", "n:", "j:", "d:", "c:", "t", "l", "u"] {
            let s = if w.len() == 2 { format!("{}{}pk(A)", w[..1].repeat(depth), ":") } else { format!("{}:pk(A)", w.repeat(depth)) };
            out.push(scase(s.clone(), "deep-wrappers", b));
            out.push(scase(format!("wsh({})", s), "deep-wrappers", b));
        }
        for (o, c) in [("and_v(v:pk(A),", ")"), ("or_d(pk(A),", ")"), ("thresh(1,", ")"), ("andor(pk(A),pk(B),", ")"), ("and(pk(A),", ")"), ("or(pk(A),", ")"), ("{", ",pk(A)}"), ("(", ")"), ("sh(", ")"), ("wsh(", ")")] {
            let s = format!("{}pk(B){}", o.repeat(depth), c.repeat(depth));
            out.push(scase(s.clone(), "deep-nesting", b));
            out.push(scase(format!("tr(A,{})", s), "deep-nesting", b));
            out.push(scase(o.repeat(depth), "deep-unclosed", b));
        }
    }
    for width in [10usize, 1000, 100_000] {
        let ks: Vec<String> = (0..width).map(|i| format!("pk(K{})", i)).collect();
        out.push(scase(format!("thresh(1,{})", ks.join(",s:")), "wide", b));
        out.push(scase(format!("thresh({},{})", width, ks.join(",")), "wide", b));
        let ks: Vec<String> = (0..width).map(|i| format!("K{}", i)).collect();
        out.push(scase(format!("wsh(multi(1,{}))", ks.join(",")), "wide", b));
        out.push(scase(format!("tr(A,multi_a(1,{}))", ks.join(",")), "wide", b));
        out.push(scase(format!("{}/{}", XPUB, vec!["1"; width].join("/")), "wide", b));
        out.push(scase(format!("{}/<{}>", XPUB, (0..width).map(|i| i.to_string()).collect::<Vec<_>>().join(";")), "wide", b));
    }
    // 100 kB names: termination is required, linear time is not (base58 decoding of an absurdly
    // long key string is quadratic; see DESIGN.md)
    out.push(scase(format!("pk({})", "A".repeat(100_000)), "long-name", 120_000));
    out.push(scase(format!("{}(A)", "p".repeat(100_000)), "long-name", 120_000));
    out.push(scase(format!("wsh(pk({}))", "A".repeat(100_000)), "long-name", 120_000));
    out.push(scase(format!("sha256({})", "a".repeat(100_000)), "long-name", 120_000));
    for digits in 1..=40 {
        let n = "9".repeat(digits);
        for f in ["older({})", "after({})", "thresh({},pk(A),pk(B))", "wsh(multi({},A,B))", "or({}@pk(A),1@pk(B))"] {
            out.push(scase(f.replace("{}", &n), "big-number", 3000));
        }
        out.push(scase(format!("{}/{}", XPUB, n), "big-number", 3000));
        out.push(scase(format!("{}/{}'", XPUB, n), "big-number", 3000));
    }
    out
}

fn gen_scripts(l: usize, valid_nodes: usize) -> Vec<Case> {
    use crate::ast::op::*;
    let k1 = key("K1").compressed();
    let x1 = key("K1").x32();
    let mut alpha: Vec<Tok> = [
        BOOLAND, BOOLOR, ADD, EQUAL, EQUALVERIFY, NUMEQUAL, NUMEQUALVERIFY, CHECKSIG, CHECKSIGVERIFY, CHECKSIGADD, CHECKMULTISIG, CHECKMULTISIGVERIFY, CSV, CLTV, FROMALTSTACK,
        TOALTSTACK, DROP, DUP, IF, IFDUP, NOTIF, ELSE, ENDIF, ZERO_NOT_EQUAL, SIZE, SWAP, VERIFY, RIPEMD160, HASH160, SHA256, HASH256, 0xff, 0x4f, 0x61,
    ]
    .iter()
    .map(|o| Tok::Op(*o))
    .collect();
    for n in [0i64, 1, 2, 16, 17, 32, 100, 0x7fffffff, 0x80000000] {
        alpha.push(Tok::Num(n));
    }
    alpha.push(Tok::Push(k1));
    alpha.push(Tok::Push(x1));
    alpha.push(Tok::Push(vec![0xab; 20]));
    alpha.push(Tok::Push(vec![0xab; 65]));
    let mut out = vec![];
    let a = alpha.len();
    for len in 0..=l {
        for mut code in 0..a.pow(len as u32) {
            let mut toks = vec![];
            for _ in 0..len {
                toks.push(alpha[code % a].clone());
                code /= a;
            }
            out.push(Case { kind: "scr", payload: serialize_toks(&toks), budget_ms: 3000, origin: "script-token-sequence" });
        }
    }
    // raw bytes up to 2
    for len in 0..=2usize {
        for mut code in 0..256usize.pow(len as u32) {
            let mut b = vec![];
            for _ in 0..len {
                b.push((code & 0xff) as u8);
                code >>= 8;
            }
            out.push(Case { kind: "scr", payload: b, budget_ms: 3000, origin: "script-raw-bytes" });
        }
    }
    // single byte edits / truncations of valid scripts
    let te = explore::<Segwitv0>(valid_nodes, Alphabet::Small, false);
    for m in te.all() {
        let t = walk(m).relabel_distinct();
        let s = crate::ast::encode_ref(&t, &crate::keys::RefEnc { form: KeyForm::Compressed });
        for i in 0..s.len() {
            out.push(Case { kind: "scr", payload: s[..i].to_vec(), budget_ms: 3000, origin: "script-truncation" });
            if s[i] > 0x4e || s[i] == 0 {
                for r in [0x00u8, 0x51, 0x63, 0x68, 0x69, 0x87, 0xac, 0xae, 0xb2, 0xff] {
                    let mut d = s.clone();
                    d[i] = r;
                    out.push(Case { kind: "scr", payload: d, budget_ms: 3000, origin: "script-opcode-substitution" });
                }
            }
        }
    }
    // deep / wide scripts
    for depth in [300usize, 403, 5000, 100_000] {
        let mut s = vec![];
        s.extend(std::iter::repeat(IF).take(depth));
        s.push(OP_1);
        s.extend(std::iter::repeat(ENDIF).take(depth));
        out.push(Case { kind: "scr", payload: s, budget_ms: 20_000, origin: "script-deep" });
        let mut s = vec![OP_1];
        s.extend(std::iter::repeat(ZERO_NOT_EQUAL).take(depth));
        out.push(Case { kind: "scr", payload: s, budget_ms: 20_000, origin: "script-deep" });
        let mut s = vec![];
        s.extend(std::iter::repeat(TOALTSTACK).take(depth));
        s.push(OP_1);
        s.extend(std::iter::repeat(FROMALTSTACK).take(depth));
        out.push(Case { kind: "scr", payload: s, budget_ms: 20_000, origin: "script-deep" });
        let mut s = vec![OP_1];
        for _ in 0..depth {
            s.extend([OP_1, ADD]);
        }
        s.extend([OP_1, EQUAL]);
        out.push(Case { kind: "scr", payload: s, budget_ms: 20_000, origin: "script-wide" });
    }
    out
}

fn gen_interp() -> Vec<Case> {
    let k = key("K1");
    let pk = k.compressed();
    let h160 = bitcoin::hashes::hash160::Hash::hash(&pk).to_byte_array().to_vec();
    let ws = {
        let mut v = vec![0x21];
        v.extend(&pk);
        v.push(0xac);
        v
    };
    let wsh = bitcoin::hashes::sha256::Hash::hash(&ws).to_byte_array().to_vec();
    let sh_of = |r: &[u8]| bitcoin::hashes::hash160::Hash::hash(r).to_byte_array().to_vec();
    let mut spks: Vec<Vec<u8>> = vec![];
    spks.push(ws.clone()); // p2pk
    spks.push([vec![0x76, 0xa9, 0x14], h160.clone(), vec![0x88, 0xac]].concat());
    spks.push([vec![0x00, 0x14], h160.clone()].concat());
    spks.push([vec![0x00, 0x20], wsh.clone()].concat());
    let redeem_wpkh = [vec![0x00, 0x14], h160.clone()].concat();
    let redeem_wsh = [vec![0x00, 0x20], wsh.clone()].concat();
    spks.push([vec![0xa9, 0x14], sh_of(&redeem_wpkh), vec![0x87]].concat());
    spks.push([vec![0xa9, 0x14], sh_of(&redeem_wsh), vec![0x87]].concat());
    spks.push([vec![0xa9, 0x14], sh_of(&ws), vec![0x87]].concat());
    spks.push([vec![0x51, 0x20], k.x32()].concat());
    let n = spks.len();
    for i in 0..n {
        let s = spks[i].clone();
        for cut in 0..s.len() {
            if cut % 5 == 0 || cut + 3 > s.len() {
                spks.push(s[..cut].to_vec());
            }
        }
    }
    spks.push(vec![0x52, 0x20]);
    spks.push([vec![0x60, 0x02], vec![1, 2]].concat());
    let sig = crate::world::sign_ecdsa(k, [3; 32], 1);
    let push = |b: &[u8]| {
        let mut v = vec![];
        crate::ast::push_data_minimal(b, &mut v);
        v
    };
    let elems: Vec<Vec<u8>> = vec![vec![], vec![1], sig.clone(), pk.clone(), ws.clone(), redeem_wpkh.clone(), redeem_wsh.clone(), vec![0x50, 1, 2], vec![0xc0; 33], vec![0xc1; 65], vec![7; 64]];
    let mut seqs: Vec<Vec<Vec<u8>>> = vec![vec![]];
    for len in 1..=3usize {
        // length 3 over the first seven elements (the remaining four differ only in junk content)
        let ne = if len == 3 { 7 } else { elems.len() };
        let total = ne.pow(len as u32);
        for mut code in 0..total {
            let mut v = vec![];
            for _ in 0..len {
                v.push(elems[code % ne].clone());
                code /= ne;
            }
            seqs.push(v);
        }
    }
    let sigs: Vec<Vec<u8>> = {
        let mut v: Vec<Vec<u8>> = vec![vec![], vec![0x51], vec![0xff], vec![0x4c]];
        for e in [&sig, &pk, &ws, &redeem_wpkh, &redeem_wsh] {
            v.push(push(e));
        }
        v.push([push(&sig), push(&pk)].concat());
        v.push([push(&sig), push(&ws)].concat());
        v
    };
    let mut out = vec![];
    let meta: Vec<u8> = [0xfffffffeu32.to_le_bytes(), 0u32.to_le_bytes()].concat();
    for spk in &spks {
        for ss in &sigs {
            for w in &seqs {
                if !ss.is_empty() && w.len() > 2 {
                    continue;
                }
                let mut f = vec![spk.clone(), ss.clone()];
                f.extend(w.iter().cloned());
                f.push(meta.clone());
                out.push(Case { kind: "int", payload: join_fields(&f), budget_ms: 3000, origin: "interpreter-triple" });
            }
        }
    }
    out
}

/// Interpreter over real miniscripts: every B term up to `nodes` nodes (full leaf alphabet, so
/// multi 2-of-3, sortedmulti, multi_a, every hash) as wsh() witness script and as single tr() leaf,
/// with EVERY witness stack of length 0..=len over {<>, <1>, a well-formed signature, a 32-byte
/// string, a public key}: too-short stacks, over- and under-satisfied thresholds, wrong element kinds.
fn gen_interp_terms(nodes: usize, len: usize) -> Vec<Case> {
    use crate::ast::{build, walk};
    use crate::keys::{KeyForm, PkEnv, XEnv};
    use crate::terms::{explore, Alphabet};
    use miniscript::miniscript::types::Base;
    let k = key("K1");
    let sig_e = crate::world::sign_ecdsa(k, [3; 32], 1);
    let sig_s = vec![7u8; 64];
    let meta: Vec<u8> = [5u32.to_le_bytes(), 10u32.to_le_bytes()].concat();
    let stacks = |alpha: &[Vec<u8>]| -> Vec<Vec<Vec<u8>>> {
        let mut seqs: Vec<Vec<Vec<u8>>> = vec![vec![]];
        for l in 1..=len {
            for mut code in 0..alpha.len().pow(l as u32) {
                let mut v = vec![];
                for _ in 0..l {
                    v.push(alpha[code % alpha.len()].clone());
                    code /= alpha.len();
                }
                seqs.push(v);
            }
        }
        seqs
    };
    let mut out = vec![];
    // hash fragments committing to preimages that are NOT 32 bytes long (the scripts check SIZE 32
    // first, the interpreter has to refuse them before comparing hashes), alone and below and_v
    let raw_terms = |tap: bool| -> Vec<T> {
        let mut v = vec![];
        for pre in [vec![], vec![2u8], vec![0x11u8; 31], vec![0x11u8; 33], vec![0x11u8; 32]] {
            let l = format!("RAW{}", hex(&pre));
            for h in [T::Sha256(l.clone()), T::Hash256(l.clone()), T::Ripemd160(l.clone()), T::Hash160(l.clone())] {
                v.push(T::AndV(Box::new(T::Verify(Box::new(h.clone()))), Box::new(T::Check(Box::new(T::PkK("K1".into()))))));
                v.push(T::OrB(Box::new(h.clone()), Box::new(T::Alt(Box::new(if tap { T::MultiA(1, vec!["K1".into()]) } else { T::Multi(1, vec!["K1".into()]) })))));
                v.push(h);
            }
        }
        v
    };
    let raw_pre = |t: &T| -> Vec<Vec<u8>> { t.hashes().into_iter().filter(|(_, l)| l.starts_with("RAW")).map(|(_, l)| crate::keys::preimage_bytes(&l)).collect() };
    // segwit v0
    let te = explore::<miniscript::Segwitv0>(nodes, Alphabet::Full, false);
    let alpha0 = vec![vec![], vec![1], sig_e.clone(), vec![0x42; 32], k.compressed()];
    let st0_plain = stacks(&alpha0);
    let terms0: Vec<T> = te.all().filter(|m| m.ty.corr.base == Base::B).map(|m| walk(m).relabel_distinct()).chain(raw_terms(false)).collect();
    for t in terms0 {
        let raws = raw_pre(&t);
        let st0_own;
        let st0 = if raws.is_empty() {
            &st0_plain
        } else {
            let mut a = alpha0.clone();
            a.extend(raws);
            st0_own = stacks(&a);
            &st0_own
        };
        let ms = match build::<bitcoin::PublicKey, miniscript::Segwitv0>(&t, &PkEnv { form: KeyForm::Compressed }) {
            Ok(x) => x,
            Err(_) => continue,
        };
        let ws = ms.encode().into_bytes();
        let spk = [vec![0x00, 0x20], bitcoin::hashes::sha256::Hash::hash(&ws).to_byte_array().to_vec()].concat();
        for w in st0 {
            let mut f = vec![spk.clone(), vec![]];
            f.extend(w.iter().cloned());
            f.push(ws.clone());
            f.push(meta.clone());
            out.push(Case { kind: "int", payload: join_fields(&f), budget_ms: 3000, origin: "interpreter-term-stack" });
        }
    }
    // tapscript, one leaf
    let te = explore::<miniscript::Tap>(nodes, Alphabet::Full, true);
    let alpha1 = vec![vec![], vec![1], sig_s.clone(), vec![0x42; 32], k.x32()];
    let st1_plain = stacks(&alpha1);
    let internal = key("KI").x32();
    let internal: [u8; 32] = internal.try_into().unwrap();
    let terms1: Vec<T> = te.all().filter(|m| m.ty.corr.base == Base::B).map(|m| walk(m).relabel_distinct()).chain(raw_terms(true)).collect();
    for t in terms1 {
        let raws = raw_pre(&t);
        let st1_own;
        let st1 = if raws.is_empty() {
            &st1_plain
        } else {
            let mut a = alpha1.clone();
            a.extend(raws);
            st1_own = stacks(&a);
            &st1_own
        };
        let ms = match build::<bitcoin::key::XOnlyPublicKey, miniscript::Tap>(&t, &XEnv) {
            Ok(x) => x,
            Err(_) => continue,
        };
        let leaf = ms.encode().into_bytes();
        let leaves = vec![(0u8, leaf.clone())];
        let root = crate::world::ref_merkle_root(&leaves);
        let (outk, _) = crate::world::ref_taproot_output(&internal, root);
        let spk = [vec![0x51, 0x20], outk.to_vec()].concat();
        let cb = crate::sat::ref_control_block(&leaves, 0, &internal);
        for w in st1 {
            let mut f = vec![spk.clone(), vec![]];
            f.extend(w.iter().cloned());
            f.push(leaf.clone());
            f.push(cb.clone());
            f.push(meta.clone());
            out.push(Case { kind: "int", payload: join_fields(&f), budget_ms: 3000, origin: "interpreter-term-stack" });
        }
    }
    out
}

fn gen_psbt() -> Vec<Case> {
    // start from the valid PSBT states of a few C14 pairs (fully updated + signed), then
    // mutate one field at a time
    use crate::c14;
    let mut out = vec![];
    let fam = c14::family();
    let pairs = [("wpkh", "sh-multi"), ("wsh-hash-older", "tr-3leaves"), ("wsh-pkh", "pkh"), ("sh-wsh-sortedmulti", "bare-multi"), ("tr-key", "sh-wpkh")];
    for (a, b) in pairs {
        let da = fam.iter().find(|x| x.0 == a).unwrap().1.clone();
        let db = fam.iter().find(|x| x.0 == b).unwrap().1.clone();
        let (psbts, descs) = c14::reachable_full_states(&[da, db]);
        for p in psbts {
            let ser = p.serialize();
            for d in descs.iter().chain(std::iter::once(&String::new())) {
                out.push(Case { kind: "psbt", payload: join_fields(&[ser.clone(), d.clone().into_bytes()]), budget_ms: 5000, origin: "psbt-valid-state" });
            }
            for m in psbt_mutations(&p) {
                out.push(Case { kind: "psbt", payload: join_fields(&[m.serialize(), descs[0].clone().into_bytes()]), budget_ms: 5000, origin: "psbt-field-mutation" });
            }
        }
    }
    out
}

fn psbt_mutations(p: &Psbt) -> Vec<Psbt> {
    let mut out = vec![];
    for i in 0..p.inputs.len() {
        macro_rules! mutate {
            ($f:expr) => {{
                let mut q = p.clone();
                #[allow(clippy::redundant_closure_call)]
                ($f)(&mut q);
                out.push(q);
            }};
        }
        mutate!(|q: &mut Psbt| q.inputs[i].witness_utxo = None);
        mutate!(|q: &mut Psbt| q.inputs[i].non_witness_utxo = None);
        mutate!(|q: &mut Psbt| {
            q.inputs[i].witness_utxo = None;
            q.inputs[i].non_witness_utxo = None;
        });
        mutate!(|q: &mut Psbt| q.inputs[i].redeem_script = None);
        mutate!(|q: &mut Psbt| q.inputs[i].witness_script = None);
        mutate!(|q: &mut Psbt| q.inputs[i].redeem_script = Some(ScriptBuf::from_bytes(vec![0x51])));
        mutate!(|q: &mut Psbt| q.inputs[i].witness_script = Some(ScriptBuf::from_bytes(vec![0x63])));
        mutate!(|q: &mut Psbt| q.inputs[i].witness_script = Some(ScriptBuf::new()));
        mutate!(|q: &mut Psbt| q.inputs[i].partial_sigs.clear());
        mutate!(|q: &mut Psbt| q.inputs[i].bip32_derivation.clear());
        mutate!(|q: &mut Psbt| q.inputs[i].tap_key_origins.clear());
        mutate!(|q: &mut Psbt| q.inputs[i].tap_scripts.clear());
        mutate!(|q: &mut Psbt| q.inputs[i].tap_internal_key = None);
        mutate!(|q: &mut Psbt| q.inputs[i].tap_merkle_root = None);
        mutate!(|q: &mut Psbt| q.inputs[i].tap_key_sig = None);
        mutate!(|q: &mut Psbt| q.inputs[i].tap_script_sigs.clear());
        mutate!(|q: &mut Psbt| q.inputs[i].sighash_type = Some(bitcoin::psbt::PsbtSighashType::from_u32(0x7f)));
        mutate!(|q: &mut Psbt| q.inputs[i].sighash_type = Some(bitcoin::psbt::PsbtSighashType::from_u32(0x83)));
        mutate!(|q: &mut Psbt| {
            for v in q.inputs[i].sha256_preimages.values_mut() {
                v.push(0);
            }
        });
        mutate!(|q: &mut Psbt| {
            for v in q.inputs[i].sha256_preimages.values_mut() {
                v.clear();
            }
        });
        mutate!(|q: &mut Psbt| q.unsigned_tx.input[i].previous_output.vout = 7);
        mutate!(|q: &mut Psbt| q.unsigned_tx.input[i].previous_output.vout = u32::MAX);
        mutate!(|q: &mut Psbt| {
            if let Some(t) = q.inputs[i].non_witness_utxo.as_mut() {
                t.output.clear();
            }
        });
        mutate!(|q: &mut Psbt| {
            if let Some(t) = q.inputs[i].witness_utxo.as_mut() {
                t.script_pubkey = ScriptBuf::from_bytes(vec![0x51, 0x20, 1, 2]);
            }
        });
        mutate!(|q: &mut Psbt| {
            if let Some(t) = q.inputs[i].witness_utxo.as_mut() {
                t.script_pubkey = ScriptBuf::new();
            }
        });
        mutate!(|q: &mut Psbt| q.inputs[i].final_script_witness = Some(Witness::from_slice(&[vec![1u8]])));
        mutate!(|q: &mut Psbt| q.inputs[i].final_script_sig = Some(ScriptBuf::from_bytes(vec![0x4c])));
        mutate!(|q: &mut Psbt| q.unsigned_tx.input[i].sequence = Sequence(0));
        mutate!(|q: &mut Psbt| q.unsigned_tx.version = bitcoin::transaction::Version(1));
    }
    // structural: mismatching input counts
    let mut q = p.clone();
    q.inputs.pop();
    out.push(q);
    let mut q = p.clone();
    q.inputs.push(Default::default());
    out.push(q);
    let mut q = p.clone();
    q.inputs.clear();
    out.push(q);
    let mut q = p.clone();
    q.outputs.clear();
    out.push(q);
    let mut q = p.clone();
    q.unsigned_tx.input.pop();
    out.push(q);
    let mut q = p.clone();
    q.unsigned_tx.output.clear();
    out.push(q);
    out
}

fn gen_plan() -> Vec<Case> {
    // descriptors over keys with / without origin, xpubs with paths; assets with every
    // relation between the asset path and the key path
    let k = key("K1");
    let fp = k.fingerprint;
    let fpb = fp.to_bytes();
    let other = [9u8, 9, 9, 9];
    let with_origin = DefEnv { form: KeyForm::Compressed, with_origin: true };
    let without = DefEnv { form: KeyForm::Compressed, with_origin: false };
    use crate::ast::Env;
    let k_o: DefiniteDescriptorKey = Env::<DefiniteDescriptorKey>::pk(&with_origin, "K1");
    let k_n: DefiniteDescriptorKey = Env::<DefiniteDescriptorKey>::pk(&without, "K1");
    let k2: DefiniteDescriptorKey = Env::<DefiniteDescriptorKey>::pk(&with_origin, "K2");
    let xp = format!("[{}/48'/0']{}/1/2", fp, XPUB);
    let xp_n = format!("{}/1/2", XPUB);
    let xp_bare = XPUB.to_string();
    let keys: Vec<String> = vec![k_o.to_string(), k_n.to_string(), xp, xp_n, xp_bare];
    let self_fp = k_n.master_fingerprint().to_bytes();
    let templates = ["wpkh(K)", "pkh(K)", "wsh(pk(K))", "tr(K)", "tr(Z,pk(K))", "sh(wsh(or_d(pk(K),and_v(v:pkh(Z),older(16)))))", "wsh(and_v(v:pk(K),after(100)))", "sh(multi(1,K,Z))", "tr(Z,{pk(K),multi_a(1,K,Z)})"];
    let master = {
        // fingerprint of the xpub itself (origin-less xpub keys report it)
        let x = bitcoin::bip32::Xpub::from_str(XPUB).unwrap();
        x.fingerprint().to_bytes()
    };
    let paths = ["m", "m/7", "m/7/0", "m/0", "m/48'/0'", "m/48'/0'/1", "m/48'/0'/1/2", "m/48'/0'/1/2/3", "m/1", "m/1/2", "m/1/2/3", "m/2147483647'"];
    let mut out = vec![];
    for t in templates {
        for kk in &keys {
            let ds = t.replace('K', kk).replace('Z', &k2.to_string());
            for fpx in [fpb, other, master, self_fp, [0, 0, 0, 0]] {
                for path in paths {
                    for flags in [0u8, 1, 2, 4, 8, 24, 32, 96, 8 | 32] {
                        let mut src = fpx.to_vec();
                        src.push(flags);
                        src.extend(path.as_bytes());
                        out.push(Case { kind: "plan", payload: join_fields(&[ds.clone().into_bytes(), src]), budget_ms: 3000, origin: "planner-assets" });
                    }
                }
            }
        }
    }
    out
}

/// The planner over descriptor SHAPES: the shared families (wide thresholds, macro fragments in
/// contexts, tie-break and lock families) x asset sets {all keys, all but each of the first four, none}
/// x {all preimages, none} x {locks in time units, in blocks, none}.
fn gen_plan_shapes(tier: Tier) -> Vec<Case> {
    let n = tier.pick(3, 4);
    let u = crate::sat::universe(n, n, n, Alphabet::Small);
    let models = crate::sat::descriptor_models_ctx(&u, n, n, n, n, 0, 2);
    let mut out = vec![];
    for d in models {
        let c = match crate::sat::prepare(&d, KeyForm::Compressed) {
            Ok(c) => c,
            Err(_) => continue,
        };
        let nk = c.keys.len().min(16);
        let all: u16 = if nk == 16 { 0xffff } else { (1u16 << nk) - 1 };
        let mut masks = vec![all, 0];
        for i in 0..nk.min(4) {
            masks.push(all & !(1 << i));
        }
        let ds = c.desc.to_string();
        for m in masks {
            for flags in [1u8 | 2, 1 | 4, 1, 2, 0] {
                out.push(Case { kind: "plan2", payload: join_fields(&[ds.clone().into_bytes(), vec![(m & 0xff) as u8, (m >> 8) as u8, flags]]), budget_ms: 3000, origin: "planner-shapes" });
            }
        }
    }
    out
}

pub fn run(tier: Tier) -> i32 {
    let rep = Report::new("C11", tier);
    let (short_len, tok_len, edit_nodes, script_len, script_nodes) = tier.pick((3, 3, 3, 2, 3), (4, 4, 4, 3, 4));
    let mut groups: Vec<(&'static str, Vec<Case>)> = vec![];
    groups.push(("short-strings", gen_short_strings(short_len)));
    groups.push(("token-sequences", gen_token_sequences(tok_len)));
    let vs = valid_strings(edit_nodes);
    groups.push(("single-edits", gen_single_edits(&vs, tier.pick(60, 200))));
    groups.push(("valid-strings", vs.iter().map(|s| scase(s.clone(), "valid-string", 3000)).collect()));
    groups.push(("checksummed", gen_checksummed(&vs, short_len.min(3))));
    groups.push(("leaf-with-children", gen_leaf_with_children(&vs)));
    groups.push(("arity-edits", gen_arity_edits(&vs)));
    groups.push(("scaling", gen_scaling()));
    groups.push(("scripts", gen_scripts(script_len, script_nodes)));
    groups.push(("interpreter", gen_interp()));
    let (it_nodes, it_len) = tier.pick((3, 3), (4, 4));
    groups.push(("interpreter-terms", gen_interp_terms(it_nodes, it_len)));
    groups.push(("psbt", gen_psbt()));
    groups.push(("planner", gen_plan()));
    groups.push(("planner-shapes", gen_plan_shapes(tier)));
    // positive controls of the containment: a spinning input is reported from its CPU time, a normal
    // and a panicking input are answered; anything else is a machinery failure, not a verdict
    {
        let ctl = |kind: &'static str, payload: &[u8]| Case { kind, payload: payload.to_vec(), budget_ms: 300, origin: "control" };
        let spin = matches!(confirm_hang(&ctl("ctl-spin", b"x")), HangVerdict::CpuExceeded(ms) if ms >= 300);
        let normal = matches!(confirm_hang(&ctl("str", b"pk(A)")), HangVerdict::Answered(ref l) if l == "D");
        let pan = matches!(confirm_hang(&ctl("ctl-panic", b"x")), HangVerdict::Answered(ref l) if l.starts_with("P "));
        if !(spin && normal && pan) {
            eprintln!("C11 containment controls failed: spin={} normal={} panic={}", spin, normal, pan);
            return 2;
        }
        rep.count("containment_controls_ok", 3);
    }
    let mut sizes = serde_json::Map::new();
    let mut all: Vec<Case> = vec![];
    for (n, g) in &groups {
        sizes.insert(n.to_string(), json!(g.len()));
        all.extend(g.iter().cloned());
    }
    rep.extra("case_groups", serde_json::Value::Object(sizes));
    rep.extra("bounds", json!({"short_string_len": short_len, "token_seq_len": tok_len, "edit_source_nodes": edit_nodes, "script_token_len": script_len, "nesting_depths": [400, 401, 402, 403, 404, 5000, 200000], "widths": [10, 1000, 100000]}));
    // split into per-worker slices (interleaved so that expensive groups spread out)
    let nworkers = 16usize;
    let mut slices: Vec<Vec<Case>> = vec![vec![]; nworkers];
    for (i, c) in all.into_iter().enumerate() {
        slices[i % nworkers].push(c);
    }
    let total: u64 = slices.iter().map(|s| s.len() as u64).sum();
    let rep = Arc::new(rep);
    let cen_all: Arc<Mutex<BTreeMap<&'static str, u64>>> = Arc::new(Mutex::new(BTreeMap::new()));
    let mut handles = vec![];
    for sl in slices {
        let rep = Arc::clone(&rep);
        let cen_all = Arc::clone(&cen_all);
        handles.push(std::thread::spawn(move || {
            let cen = run_cases(&rep, &sl);
            let mut g = cen_all.lock().unwrap();
            for (k, v) in cen {
                *g.entry(k).or_insert(0) += v;
            }
        }));
    }
    for h in handles {
        let _ = h.join();
    }
    let cen = cen_all.lock().unwrap().clone();
    rep.merge_counts(&cen);
    rep.sample(json!({"string": "wsh(thresh(2,pk(A),s:pk(B),sln:older(5)))#pf8cmjjm", "entry_points": 22}));
    rep.sample(json!({"containment": "worker subprocess, RLIMIT_AS 6 GiB, default 8 MiB stack, per-input wall budget 3 s (20 s for scaling probes)"}));
    rep.assume("a worker death, hang or panic is attributed to the input being processed when it happened");
    let done = rep.get("cases_completed");
    rep.finish(
        total,
        done,
        done,
        total,
        done.min(total),
        "string parsers (22 entry points per string): all strings up to the length bound over a 22-character alphabet, all grammar-token sequences up to the token bound, every single edit of every valid string from the term enumeration, malformed bodies (short strings, token pairs, single edits and every truncation of valid strings) carrying a valid checksum of themselves, every leaf token of every valid string given a bracketed argument list, scaling probes (nesting 400..200000, width up to 100000, megabyte names, 1..40-digit numbers); script decoder: token sequences, raw bytes, truncations and opcode substitutions of valid scripts, deep/wide scripts; interpreter: standard spk templates and truncations x scriptSigs x witness sequences, and every B term up to the term bound (full leaf alphabet) as wsh script and tr leaf x every witness stack up to the stack bound over {<>, <1>, signature, 32 bytes, key}; PSBT: every fully-populated reachable state of 5 descriptor pairs with each field dropped / emptied / replaced by a boundary value, through finalize*, extract, update_*, sighash_msg; planner: descriptors over origin-less and origin-carrying keys x asset fingerprints x derivation paths x CanSign/time-lock flags. non-trivial = cases completed by the workers",
        true,
    )
}

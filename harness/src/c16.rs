//! C16 — descriptors map to the standard output scripts, addresses and derived keys.

use std::collections::BTreeMap;
use std::str::FromStr;

use bitcoin::bip32::{ChildNumber, DerivationPath, Xpriv, Xpub};
use bitcoin::hashes::{hash160, sha256, Hash};
use bitcoin::{Address, Network, NetworkKind, ScriptBuf};
use miniscript::{DefiniteDescriptorKey, Descriptor, DescriptorPublicKey};
use rayon::prelude::*;
use secp256k1::SECP256K1;
use serde_json::json;

use crate::ast::{encode_ref, push_data_minimal, walk, T};
use crate::common::*;
use crate::desc::D;
use crate::keys::{key, KeyForm, RefEnc};
use crate::rsm::verify_input;
use crate::sat::{b_terms, key_ser, p2pkh_script, prepare, universe, DescCase};
use crate::terms::Alphabet;
use crate::world::{make_spend, ref_merkle_root, ref_taproot_output, SignCap, SignCtx, World, WorldSat};

type Census = BTreeMap<&'static str, u64>;
fn bump(c: &mut Census, k: &'static str) { *c.entry(k).or_insert(0) += 1; }

fn h160(b: &[u8]) -> Vec<u8> { hash160::Hash::hash(b).to_byte_array().to_vec() }
fn sha(b: &[u8]) -> Vec<u8> { sha256::Hash::hash(b).to_byte_array().to_vec() }
fn p2sh(redeem: &[u8]) -> Vec<u8> {
    let mut v = vec![0xa9, 0x14];
    v.extend(h160(redeem));
    v.push(0x87);
    v
}

/// Reference (spk, explicit script, script code, unsigned scriptSig) of a model.
fn reference(d: &D, form: KeyForm) -> (Vec<u8>, Option<Vec<u8>>, Option<Vec<u8>>, Vec<u8>) {
    let enc = |t: &T, f: KeyForm| encode_ref(t, &RefEnc { form: f });
    let push = |b: &[u8]| {
        let mut v = vec![];
        push_data_minimal(b, &mut v);
        v
    };
    match d {
        D::Bare(t) => {
            let s = enc(t, form);
            (s.clone(), Some(s.clone()), Some(s), vec![])
        }
        D::Pkh(k) => {
            let s = p2pkh_script(&key_ser(k, form));
            (s.clone(), Some(s.clone()), Some(s), vec![])
        }
        D::Wpkh(k) => {
            let mut spk = vec![0x00, 0x14];
            spk.extend(h160(&key_ser(k, form)));
            (spk.clone(), Some(spk), Some(p2pkh_script(&key_ser(k, form))), vec![])
        }
        D::ShWpkh(k) => {
            let mut redeem = vec![0x00, 0x14];
            redeem.extend(h160(&key_ser(k, form)));
            (p2sh(&redeem), Some(redeem.clone()), Some(p2pkh_script(&key_ser(k, form))), push(&redeem))
        }
        D::Sh(t) => {
            let r = enc(t, form);
            (p2sh(&r), Some(r.clone()), Some(r), vec![])
        }
        D::Wsh(t) => {
            let ws = enc(t, form);
            let mut spk = vec![0x00, 0x20];
            spk.extend(sha(&ws));
            (spk, Some(ws.clone()), Some(ws), vec![])
        }
        D::ShWsh(t) => {
            let ws = enc(t, form);
            let mut redeem = vec![0x00, 0x20];
            redeem.extend(sha(&ws));
            (p2sh(&redeem), Some(ws.clone()), Some(ws), push(&redeem))
        }
        D::Tr(ik, leaves) => {
            let ls: Vec<(u8, Vec<u8>)> = leaves.iter().map(|(dp, t)| (*dp, encode_ref(t, &RefEnc { form: KeyForm::XOnly }))).collect();
            let mut x = [0u8; 32];
            x.copy_from_slice(&key(ik).x32());
            let (q, _) = ref_taproot_output(&x, ref_merkle_root(&ls));
            let mut spk = vec![0x51, 0x20];
            spk.extend(q);
            (spk, None, None, vec![])
        }
    }
}

fn accessor_checks(rep: &Report, d: &D, form: KeyForm, cen: &mut Census) {
    let c: DescCase = match guard(|| prepare(d, form)) {
        Ok(Ok(c)) => c,
        _ => return,
    };
    bump(cen, "descriptors");
    let dsx = d.sexpr();
    let mut viol = |class: &str, what: String| {
        rep.violation(Violation {
            key: format!("C16|{}|{:?}|{}", class, form, dsx),
            class: format!("{}-{}", class, c.kind()),
            what,
            case: json!({"desc": c.desc.to_string(), "model": dsx, "key_form": format!("{:?}", form)}),
        });
    };
    let (spk, explicit, code, uss) = reference(d, form);
    if c.spk.as_bytes() != &spk[..] {
        viol("script_pubkey", format!("script_pubkey {} reference {}", hex(c.spk.as_bytes()), hex(&spk)));
    }
    match (c.desc.explicit_script(), &explicit) {
        (Ok(s), Some(e)) => {
            if s.as_bytes() != &e[..] {
                viol("explicit_script", format!("{} vs reference {}", hex(s.as_bytes()), hex(e)));
            }
        }
        (Err(_), None) => {}
        (a, _) => viol("explicit_script-availability", format!("is_ok = {}", a.is_ok())),
    }
    match (c.desc.script_code(), &code) {
        (Ok(s), Some(e)) => {
            if s.as_bytes() != &e[..] {
                viol("script_code", format!("{} vs reference {}", hex(s.as_bytes()), hex(e)));
            }
        }
        (Err(_), None) => {}
        (a, _) => viol("script_code-availability", format!("is_ok = {}", a.is_ok())),
    }
    if c.desc.unsigned_script_sig().as_bytes() != &uss[..] {
        viol("unsigned_script_sig", format!("{} vs reference {}", hex(c.desc.unsigned_script_sig().as_bytes()), hex(&uss)));
    }
    // desc_type, the wrapper types' own accessors and the alternative constructors
    {
        use miniscript::descriptor::{DescriptorType, ShInner};
        use miniscript::Descriptor as DD;
        let exp_ty = match d {
            D::Bare(_) => DescriptorType::Bare,
            D::Pkh(_) => DescriptorType::Pkh,
            D::Wpkh(_) => DescriptorType::Wpkh,
            D::ShWpkh(_) => DescriptorType::ShWpkh,
            D::Sh(_) => DescriptorType::Sh,
            D::Wsh(_) => DescriptorType::Wsh,
            D::ShWsh(_) => DescriptorType::ShWsh,
            D::Tr(..) => DescriptorType::Tr,
        };
        if c.desc.desc_type() != exp_ty {
            viol("desc_type", format!("desc_type() = {:?} expected {:?}", c.desc.desc_type(), exp_ty));
        }
        let (t_spk, t_inner, t_code): (Vec<u8>, Option<Vec<u8>>, Option<Vec<u8>>) = match &c.desc {
            DD::Bare(b) => (b.script_pubkey().into_bytes(), Some(b.inner_script().into_bytes()), Some(b.ecdsa_sighash_script_code().into_bytes())),
            DD::Pkh(b) => (b.script_pubkey().into_bytes(), Some(b.inner_script().into_bytes()), Some(b.ecdsa_sighash_script_code().into_bytes())),
            DD::Wpkh(b) => (b.script_pubkey().into_bytes(), Some(b.inner_script().into_bytes()), Some(b.ecdsa_sighash_script_code().into_bytes())),
            DD::Wsh(b) => (b.script_pubkey().into_bytes(), Some(b.inner_script().into_bytes()), Some(b.ecdsa_sighash_script_code().into_bytes())),
            DD::Sh(b) => (b.script_pubkey().into_bytes(), Some(b.inner_script().into_bytes()), Some(b.ecdsa_sighash_script_code().into_bytes())),
            DD::Tr(b) => (b.script_pubkey().into_bytes(), None, None),
        };
        if t_spk != spk {
            viol("type-script_pubkey", format!("the wrapper type's script_pubkey() is {}", hex(&t_spk)));
        }
        if let (Some(a), Some(b)) = (&t_inner, &explicit) {
            if a != b {
                viol("type-inner_script", format!("inner_script() {} vs reference explicit script {}", hex(a), hex(b)));
            }
        }
        if let (Some(a), Some(b)) = (&t_code, &code) {
            if a != b {
                viol("type-script_code", format!("ecdsa_sighash_script_code() {} vs reference {}", hex(a), hex(b)));
            }
        }
        // the taproot accessors of the descriptor agree with the model
        if let (D::Tr(ik, leaves), DD::Tr(_)) = (d, &c.desc) {
            let env = crate::keys::DefEnv { form, with_origin: true };
            use crate::ast::Env;
            let want: DefiniteDescriptorKey = env.pk(ik);
            if c.desc.internal_key() != Some(&want) {
                viol("internal_key", "internal_key() is not the descriptor's internal key".into());
            }
            if c.desc.tap_tree().is_some() != !leaves.is_empty() {
                viol("tap_tree", format!("tap_tree().is_some() = {} for {} leaves", c.desc.tap_tree().is_some(), leaves.len()));
            }
            let got: Vec<(u8, Vec<u8>)> = c.desc.tap_tree_iter().map(|l| (l.depth(), l.miniscript().encode().into_bytes())).collect();
            let exp: Vec<(u8, Vec<u8>)> = leaves.iter().map(|(dp, t)| (*dp, encode_ref(t, &RefEnc { form: KeyForm::XOnly }))).collect();
            if got != exp {
                viol("tap_tree_iter", format!("tap_tree_iter yields {} leaves with other depths / scripts than the {} described", got.len(), exp.len()));
            } else {
                bump(cen, "tap_accessors_ok");
            }
        } else if c.desc.internal_key().is_some() || c.desc.tap_tree().is_some() || c.desc.tap_tree_iter().next().is_some() {
            viol("tap-accessors-on-non-taproot", "a taproot accessor returns something for a non-taproot descriptor".into());
        }
        // alternative constructors build the same descriptor
        let alt: Option<Result<DD<DefiniteDescriptorKey>, miniscript::Error>> = match &c.desc {
            DD::Sh(sh) => match sh.as_inner() {
                ShInner::Wsh(w) => Some(Ok(DD::new_sh_with_wsh(w.clone()))),
                ShInner::Wpkh(w) => Some(Ok(DD::new_sh_with_wpkh(w.clone()))),
                ShInner::Ms(ms) => match &ms.node {
                    miniscript::Terminal::SortedMulti(th) => Some(DD::new_sh_sortedmulti(th.clone())),
                    _ => Some(DD::new_sh(ms.clone())),
                },
            },
            DD::Wsh(w) => match &w.as_inner().node {
                miniscript::Terminal::SortedMulti(th) => Some(DD::new_wsh_sortedmulti(th.clone())),
                _ => Some(DD::new_wsh(w.as_inner().clone())),
            },
            _ => None,
        };
        if let Some(a) = alt {
            match a {
                Ok(a) => {
                    if a != c.desc || a.script_pubkey() != c.spk {
                        viol("alternative-constructor", format!("alternative constructor gives {}", a));
                    } else {
                        bump(cen, "alternative_constructors_ok");
                    }
                }
                Err(e) => viol("alternative-constructor-fails", e.to_string()),
            }
        }
        if let (D::ShWsh(_), DD::Sh(sh)) = (d, &c.desc) {
            if let ShInner::Wsh(w) = sh.as_inner() {
                let a = match &w.as_inner().node {
                    miniscript::Terminal::SortedMulti(th) => DD::new_sh_wsh_sortedmulti(th.clone()),
                    _ => DD::new_sh_wsh(w.as_inner().clone()),
                };
                match a {
                    Ok(a) if a == c.desc => bump(cen, "alternative_constructors_ok"),
                    Ok(a) => viol("alternative-constructor", format!("new_sh_wsh* gives {}", a)),
                    Err(e) => viol("alternative-constructor-fails", e.to_string()),
                }
            }
        }
        if let D::ShWpkh(k) = d {
            let env = crate::keys::DefEnv { form, with_origin: true };
            use crate::ast::Env;
            match DD::new_sh_wpkh(env.pk(k)) {
                Ok(a) if a == c.desc => bump(cen, "alternative_constructors_ok"),
                Ok(a) => viol("alternative-constructor", format!("new_sh_wpkh gives {}", a)),
                Err(e) => viol("alternative-constructor-fails", e.to_string()),
            }
        }
    }
    for net in [Network::Bitcoin, Network::Testnet, Network::Signet, Network::Regtest] {
        bump(cen, "address_evaluations");
        match (c.desc.address(net), matches!(d, D::Bare(_))) {
            (Ok(a), false) => {
                if a.script_pubkey().as_bytes() != &spk[..] {
                    viol("address-spk", format!("address({:?}) encodes {}", net, hex(a.script_pubkey().as_bytes())));
                }
                match Address::from_script(&ScriptBuf::from_bytes(spk.clone()), net) {
                    Ok(b) => {
                        if b != a {
                            viol("address-from_script", format!("{} vs {}", a, b));
                        }
                    }
                    Err(e) => {
                        // uncompressed keys in segwit are refused by from_script; not produced here
                        viol("address-from_script-fails", e.to_string());
                    }
                }
            }
            (Err(_), true) => {}
            (r, bare) => viol("address-availability", format!("is_ok = {} bare = {}", r.is_ok(), bare)),
        }
    }
    // a signature made over the digest computed WITH script_code() must verify on the RSM
    if let Ok(sc) = c.desc.script_code() {
        let sigver = match d {
            D::Wsh(_) | D::ShWsh(_) | D::Wpkh(_) | D::ShWpkh(_) => crate::rsm::SigVer::WitnessV0,
            _ => crate::rsm::SigVer::Base,
        };
        let sign = SignCtx::Ecdsa { script_code: sc.into_bytes(), sigver };
        let w = World { sigs: c.keys.iter().cloned().collect(), pre: c.hash_labels().into_iter().collect(), locktime: 10, sequence: 5 };
        let spend = make_spend(c.spk.clone(), w.locktime, w.sequence);
        let sat = WorldSat { world: &w, spend: &spend, sign: &sign, schnorr_all: false, lie_locks: false, cap: SignCap::All };
        if let Ok(Ok((wit, ss))) = guard(|| c.desc.get_satisfaction_mall(&sat)) {
            bump(cen, "script_code_signatures_tried");
            if let Err(e) = verify_input(&spend, ss.as_bytes(), &wit, true) {
                if !c.keys.is_empty() {
                    viol("script_code-signature", format!("spend signed over script_code() is rejected: {}", e));
                }
            } else {
                bump(cen, "script_code_signatures_verified");
            }
        }
    }
}

// ---------- derivation ----------

struct XK {
    xpub: Xpub,
    s: String,
    fp: String,
}

fn xkeys() -> Vec<XK> {
    (0..3)
        .map(|i| {
            let seed = [i as u8 + 1; 32];
            let xprv = Xpriv::new_master(NetworkKind::Main, &seed).unwrap();
            let xpub = Xpub::from_priv(SECP256K1, &xprv);
            XK { s: xpub.to_string(), fp: xprv.fingerprint(SECP256K1).to_string(), xpub }
        })
        .collect()
}

/// the harness's own reading of a key expression: (xpub index, unhardened steps after the xpub, wildcard)
fn derive_ref(xk: &XK, steps: &[u32], index: Option<u32>) -> Vec<u8> {
    let mut path: Vec<ChildNumber> = steps.iter().map(|s| ChildNumber::from_normal_idx(*s).unwrap()).collect();
    if let Some(i) = index {
        path.push(ChildNumber::from_normal_idx(i).unwrap());
    }
    let x = xk.xpub.derive_pub(SECP256K1, &DerivationPath::from(path)).unwrap();
    x.public_key.serialize().to_vec()
}

fn derivation_checks(rep: &Report, cen: &mut Census) {
    let xs = xkeys();
    let origins: Vec<Box<dyn Fn(&XK) -> String>> = vec![
        Box::new(|_| String::new()),
        Box::new(|x: &XK| format!("[{}]", x.fp)),
        Box::new(|x: &XK| format!("[{}/44'/0'/7]", x.fp)),
    ];
    let step_sets: Vec<Vec<u32>> = vec![vec![], vec![0], vec![1], vec![2147483647], vec![0, 1], vec![5, 0, 2]];
    let wraps: Vec<(&str, Box<dyn Fn(&str) -> String>, Box<dyn Fn(&[u8]) -> Vec<u8>>)> = vec![
        ("pkh", Box::new(|k| format!("pkh({})", k)), Box::new(|pk| p2pkh_script(pk))),
        ("wpkh", Box::new(|k| format!("wpkh({})", k)), Box::new(|pk| { let mut v = vec![0, 0x14]; v.extend(h160(pk)); v })),
        ("sh-wpkh", Box::new(|k| format!("sh(wpkh({}))", k)), Box::new(|pk| { let mut r = vec![0, 0x14]; r.extend(h160(pk)); p2sh(&r) })),
        ("wsh-pk", Box::new(|k| format!("wsh(pk({}))", k)), Box::new(|pk| { let mut ws = vec![0x21]; ws.extend(pk); ws.push(0xac); let mut v = vec![0, 0x20]; v.extend(sha(&ws)); v })),
        ("tr", Box::new(|k| format!("tr({})", k)), Box::new(|pk| { let mut x = [0u8; 32]; x.copy_from_slice(&pk[1..]); let (q, _) = ref_taproot_output(&x, None); let mut v = vec![0x51, 0x20]; v.extend(q); v })),
    ];
    for xk in &xs[..2] {
        for o in &origins {
            for steps in &step_sets {
                for wild in ["", "/*", "/*'", "/*h"] {
                    let path_s: String = steps.iter().map(|s| format!("/{}", s)).collect();
                    let kstr = format!("{}{}{}{}", o(xk), xk.s, path_s, wild);
                    // the key expression's own accessors
                    if let Ok(Ok(k)) = guard(|| DescriptorPublicKey::from_str(&kstr)) {
                        bump(cen, "key_accessor_checks");
                        let origin_idx = origins.iter().position(|f| f(xk) == o(xk)).unwrap();
                        let origin_path: Vec<String> = match origin_idx { 2 => vec!["44'".into(), "0'".into(), "7".into()], _ => vec![] };
                        let exp_path: Vec<String> = origin_path.iter().cloned().chain(steps.iter().map(|s| s.to_string())).collect();
                        let exp_fp = if origin_idx == 0 { xk.xpub.fingerprint().to_string() } else { xk.fp.clone() };
                        let mut kviol = |class: &str, what: String| {
                            rep.violation(Violation {
                                key: format!("C16|key-{}|{}", class, kstr),
                                class: format!("key-accessor-{}", class),
                                what,
                                case: json!({"key": kstr}),
                            });
                        };
                        if k.has_wildcard() == wild.is_empty() {
                            kviol("has_wildcard", format!("has_wildcard() = {}", k.has_wildcard()));
                        }
                        if k.is_multipath() {
                            kviol("is_multipath", "single-path key reported as multipath".into());
                        }
                        if k.master_fingerprint().to_string() != exp_fp {
                            kviol("master_fingerprint", format!("{} expected {}", k.master_fingerprint(), exp_fp));
                        }
                        match k.full_derivation_path() {
                            Some(p) => {
                                let got: Vec<String> = p.into_iter().map(|c| c.to_string()).collect();
                                if got != exp_path {
                                    kviol("full_derivation_path", format!("{:?} expected {:?}", got, exp_path));
                                }
                            }
                            None => kviol("full_derivation_path", "None for a single-path key".into()),
                        }
                        let fps = k.full_derivation_paths();
                        if fps.len() != 1 {
                            kviol("full_derivation_paths", format!("{} paths for a single-path key", fps.len()));
                        }
                        let singles = k.clone().into_single_keys();
                        if singles.len() != 1 || singles[0] != k {
                            kviol("into_single_keys", "single-path key does not split into itself".into());
                        }
                        // "a hardened step in the path": the steps after the xpub here are all
                        // unhardened; a hardened wildcard is not a path step
                        if k.has_hardened_step() {
                            kviol("has_hardened_step", "has_hardened_step() = true although no step after the xpub is hardened".into());
                        }
                    }
                    for (wname, wrap, spk_of) in &wraps {
                        let ds = wrap(&kstr);
                        bump(cen, "derivation_descriptors");
                        let desc = match guard(|| Descriptor::<DescriptorPublicKey>::from_str(&ds)) {
                            Ok(Ok(d)) => d,
                            Ok(Err(e)) => {
                                rep.violation(Violation {
                                    key: format!("C16|derive-parse|{}", ds),
                                    class: "derivation-descriptor-does-not-parse".into(),
                                    what: e.to_string(),
                                    case: json!({"descriptor": ds}),
                                });
                                continue;
                            }
                            Err(p) => {
                                rep.violation(Violation { key: format!("C16|derive-parse-panic|{}", ds), class: "derivation-parse-panic".into(), what: p, case: json!({"descriptor": ds}) });
                                continue;
                            }
                        };
                        let mut viol = |class: &str, what: String| {
                            rep.violation(Violation {
                                key: format!("C16|{}|{}", class, ds),
                                class: format!("derivation-{}-{}", class, wname),
                                what,
                                case: json!({"descriptor": ds}),
                            });
                        };
                        for idx in [0u32, 1, 2147483647, 2147483648] {
                            bump(cen, "derivation_evaluations");
                            let r = guard(|| desc.derive_at_index(idx).into_result().map(|d| d.derived_descriptor(SECP256K1)));
                            let expect_err = (wild.is_empty()) || wild != "/*" || idx >= 1 << 31;
                            match r {
                                Ok(Ok(dd)) => {
                                    if expect_err {
                                        viol("should-fail", format!("index {} wildcard '{}' accepted", idx, wild));
                                        continue;
                                    }
                                    let pk = derive_ref(xk, steps, Some(idx));
                                    let spk = spk_of(&pk);
                                    if dd.script_pubkey().as_bytes() != &spk[..] {
                                        viol("wrong-key", format!("index {}: spk {} but independent BIP32 derivation gives {}", idx, hex(dd.script_pubkey().as_bytes()), hex(&spk)));
                                    } else {
                                        bump(cen, "derivations_ok");
                                    }
                                    if idx < 3 {
                                        // every search range [a, b) with 0 <= a <= b <= 5: found with its own
                                        // index iff the range contains it
                                        for a in 0u32..=5 {
                                            for b in a..=5 {
                                                let want = if a <= idx && idx < b { Some(idx) } else { None };
                                                match desc.find_derivation_index_for_spk(SECP256K1, &ScriptBuf::from_bytes(spk.clone()), a..b) {
                                                    Ok(got) if got.as_ref().map(|x| x.0) == want => bump(cen, "find_index_ok"),
                                                    other => viol("find_derivation_index", format!("range {}..{}: expected {:?} got {:?}", a, b, want, other.map(|o| o.map(|x| x.0)))),
                                                }
                                            }
                                        }
                                    }
                                }
                                Ok(Err(_)) => {
                                    if !expect_err {
                                        viol("should-succeed", format!("index {} refused", idx));
                                    } else {
                                        bump(cen, "derivation_errors_as_documented");
                                    }
                                }
                                Err(p) => viol("panic", p),
                            }
                        }
                        // no wildcard: into_definite gives the fixed key
                        if wild.is_empty() {
                            match guard(|| desc.into_definite().map(|d| d.derived_descriptor(SECP256K1))) {
                                Ok(Ok(dd)) => {
                                    let pk = derive_ref(xk, steps, None);
                                    if dd.script_pubkey().as_bytes() != &spk_of(&pk)[..] {
                                        viol("definite-wrong-key", "into_definite().derived_descriptor() differs from independent derivation".into());
                                    } else {
                                        bump(cen, "derivations_ok");
                                    }
                                }
                                _ => viol("definite-fails", "into_definite failed on a descriptor without wildcard".into()),
                            }
                        }
                    }
                }
            }
        }
    }
    // multipath: split equals textual selection
    for n_alt in [2usize, 3] {
        for pos_steps in [vec![], vec![0u32]] {
            for wild in ["", "/*"] {
                let alts: Vec<u32> = (0..n_alt as u32).map(|i| i + 3).collect();
                let pre: String = pos_steps.iter().map(|s| format!("/{}", s)).collect();
                let mp = format!("<{}>", alts.iter().map(|a| a.to_string()).collect::<Vec<_>>().join(";"));
                let k1 = format!("[{}/48']{}{}/{}{}", xs[0].fp, xs[0].s, pre, mp, wild);
                // the second key: another xpub with the same alternatives; another xpub with other
                // alternatives; the SAME xpub with other alternatives; the same xpub one step deeper
                let alts2: Vec<u32> = alts.iter().map(|a| a + 10).collect();
                let mp2 = format!("<{}>", alts2.iter().map(|a| a.to_string()).collect::<Vec<_>>().join(";"));
                let k2_variants: Vec<(String, Vec<u32>, String)> = vec![
                    (format!("{}{}/{}{}", xs[1].s, pre, mp, wild), alts.clone(), mp.clone()),
                    (format!("{}{}/{}{}", xs[1].s, pre, mp2, wild), alts2.clone(), mp2.clone()),
                    (format!("{}{}/{}{}", xs[0].s, pre, mp2, wild), alts2.clone(), mp2.clone()),
                    (format!("{}/9{}/{}{}", xs[0].s, pre, mp2, wild), alts2.clone(), mp2.clone()),
                ];
                for (k2, k2_alts, k2_mp) in &k2_variants {
                for templ in ["wpkh(K1)", "wsh(multi(1,K1,K2))", "tr(K1,pk(K2))", "sh(wsh(and_v(v:pk(K1),pk(K2))))", "tr(K2,{pk(K1),pk(K2)})"] {
                    if !templ.contains("K2") && k2_mp != &mp {
                        continue;
                    }
                    let ds = templ.replace("K1", &k1).replace("K2", k2);
                    bump(cen, "multipath_descriptors");
                    let desc = match Descriptor::<DescriptorPublicKey>::from_str(&ds) {
                        Ok(d) => d,
                        Err(e) => {
                            rep.violation(Violation { key: format!("C16|multipath-parse|{}", ds), class: "multipath-parse-fails".into(), what: e.to_string(), case: json!({"descriptor": ds}) });
                            continue;
                        }
                    };
                    // the multipath predicates and the per-key split say the same as the text
                    {
                        use miniscript::ForEachKey;
                        if !desc.is_multipath() {
                            rep.violation(Violation { key: format!("C16|is_multipath|{}", ds), class: "is_multipath-false".into(), what: "Descriptor::is_multipath() is false for a descriptor with <a;b> steps".into(), case: json!({"descriptor": ds}) });
                        }
                        desc.for_each_key(|k| {
                            let text = k.to_string();
                            let has = text.contains('<');
                            let singles = k.clone().into_single_keys();
                            let ok = k.is_multipath() == has && singles.len() == if has { n_alt } else { 1 } && singles.iter().enumerate().all(|(j, sk)| {
                                let (m, a) = if text.contains(&mp) { (&mp, &alts) } else { (k2_mp, k2_alts) };
                                !has && sk.to_string() == text || has && sk.to_string() == text.replace(m.as_str(), &a[j].to_string())
                            });
                            if !ok {
                                rep.violation(Violation { key: format!("C16|into_single_keys|{}|{}", ds, text), class: "into_single_keys-differs".into(), what: format!("is_multipath = {}, into_single_keys = {:?}", k.is_multipath(), singles.iter().map(|x| x.to_string()).collect::<Vec<_>>()), case: json!({"descriptor": ds, "key": text}) });
                            } else {
                                bump(cen, "single_keys_ok");
                            }
                            true
                        });
                    }
                    match guard(|| desc.clone().into_single_descriptors()) {
                        Ok(Ok(v)) => {
                            if v.len() != n_alt {
                                rep.violation(Violation { key: format!("C16|multipath-count|{}", ds), class: "multipath-split-count".into(), what: format!("{} descriptors for {} alternatives", v.len(), n_alt), case: json!({"descriptor": ds}) });
                                continue;
                            }
                            for (j, dj) in v.iter().enumerate() {
                                let sel = templ.replace("K1", &k1.replace(&mp, &alts[j].to_string())).replace("K2", &k2.replace(k2_mp, &k2_alts[j].to_string()));
                                let exp = Descriptor::<DescriptorPublicKey>::from_str(&sel).expect("selected string parses");
                                if exp.to_string() != dj.to_string() || exp != *dj {
                                    rep.violation(Violation {
                                        key: format!("C16|multipath-split|{}|{}", ds, j),
                                        class: "multipath-split-differs".into(),
                                        what: format!("alternative {}: got {} expected {}", j, dj, exp),
                                        case: json!({"descriptor": ds}),
                                    });
                                } else {
                                    bump(cen, "multipath_splits_ok");
                                }
                            }
                        }
                        other => {
                            rep.violation(Violation { key: format!("C16|multipath-fails|{}", ds), class: "multipath-split-fails".into(), what: format!("{:?}", other.map(|r| r.is_ok())), case: json!({"descriptor": ds}) });
                        }
                    }
                }
                }
            }
        }
    }
}

/// Secret key expressions: `to_public` must commute with derivation. For every xprv expression
/// (origin x shared steps mixing normal and hardened steps in every order x optional multipath x
/// trailing step x wildcard) the public keys finally derived from `to_public()` equal the public
/// keys of independent BIP32 *private* derivation along the written path, the recorded origin
/// is the written path, and hardened steps that are not shared by all alternatives are refused.
fn secret_to_public_checks(rep: &Report, cen: &mut Census) {
    use bitcoin::bip32::{ChildNumber, Xpriv};
    use miniscript::descriptor::DescriptorSecretKey;
    let secp = secp256k1::Secp256k1::new();
    let master = Xpriv::new_master(bitcoin::Network::Bitcoin, &[0x42; 32]).unwrap();
    let n = |i: u32| ChildNumber::from_normal_idx(i).unwrap();
    let h = |i: u32| ChildNumber::from_hardened_idx(i).unwrap();
    let shared_sets: Vec<Vec<ChildNumber>> = vec![vec![], vec![n(7)], vec![h(8)], vec![n(7), h(8)], vec![h(8), n(7)], vec![n(7), h(8), n(9)], vec![h(7), n(8), h(9)], vec![n(1), n(2), h(3), n(4)]];
    let multis: Vec<Option<Vec<ChildNumber>>> = vec![None, Some(vec![n(0), n(1)]), Some(vec![n(0), n(1), n(2)]), Some(vec![h(0), n(1)])];
    let trailing: Vec<Vec<ChildNumber>> = vec![vec![], vec![n(3)], vec![h(5)]];
    let origins = ["", "[aabbccdd/44'/1]"];
    let show = |c: &ChildNumber| match c {
        ChildNumber::Normal { index } => format!("{}", index),
        ChildNumber::Hardened { index } => format!("{}'", index),
    };
    for o in origins {
        for sh in &shared_sets {
            for mp in &multis {
                for tr in &trailing {
                    for wild in ["", "/*"] {
                        let mut s = format!("{}{}", o, master);
                        for c in sh {
                            s.push_str(&format!("/{}", show(c)));
                        }
                        if let Some(alts) = mp {
                            s.push_str(&format!("/<{}>", alts.iter().map(show).collect::<Vec<_>>().join(";")));
                        }
                        for c in tr {
                            s.push_str(&format!("/{}", show(c)));
                        }
                        s.push_str(wild);
                        bump(cen, "secret_key_expressions");
                        let mut viol = |class: &str, what: String| {
                            rep.violation(Violation {
                                key: format!("C16|secret-{}|{}", class, s),
                                class: format!("secret-key-{}", class),
                                what,
                                case: json!({"key": s}),
                            });
                        };
                        let sk = match guard(|| DescriptorSecretKey::from_str(&s)) {
                            Ok(Ok(k)) => k,
                            Ok(Err(_)) => {
                                bump(cen, "secret_key_expressions_refused_by_parser");
                                continue;
                            }
                            Err(p) => {
                                viol("parse-panic", p);
                                continue;
                            }
                        };
                        // hardened steps that are not shared by all alternatives cannot be applied to a public key
                        let unshared_hardened = mp.as_ref().map(|a| a.iter().any(|c| c.is_hardened())).unwrap_or(false) || (mp.is_some() && tr.iter().any(|c| c.is_hardened()));
                        let pk = match guard(|| sk.to_public(&secp)) {
                            Ok(Ok(p)) => p,
                            Ok(Err(_)) => {
                                if !unshared_hardened {
                                    viol("to_public-refuses", "to_public fails although every hardened step is shared".into());
                                } else {
                                    bump(cen, "secret_unshared_hardened_refused");
                                }
                                continue;
                            }
                            Err(p) => {
                                viol("to_public-panic", p);
                                continue;
                            }
                        };
                        if unshared_hardened {
                            viol("to_public-accepts-unshared-hardened", format!("to_public gives {}", pk));
                            continue;
                        }
                        // every alternative x index: final public key vs private derivation along the written path
                        let alts: Vec<Option<ChildNumber>> = match mp {
                            Some(a) => a.iter().map(|c| Some(*c)).collect(),
                            None => vec![None],
                        };
                        let singles = pk.clone().into_single_keys();
                        if singles.len() != alts.len() {
                            viol("alternatives", format!("{} single keys for {} alternatives", singles.len(), alts.len()));
                            continue;
                        }
                        for (j, alt) in alts.iter().enumerate() {
                            for idx in [0u32, 5] {
                                if wild.is_empty() && idx != 0 {
                                    continue;
                                }
                                let mut path: Vec<ChildNumber> = sh.clone();
                                if let Some(a) = alt {
                                    path.push(*a);
                                }
                                path.extend(tr.iter().cloned());
                                if !wild.is_empty() {
                                    path.push(n(idx));
                                }
                                let want = master.derive_priv(&secp, &path).unwrap().private_key.public_key(&secp);
                                let got = guard(|| singles[j].clone().at_derivation_index(idx).map(|d| d.derive_public_key(&secp)));
                                match got {
                                    Ok(Ok(g)) => {
                                        if g.inner != want {
                                            viol("derived-key", format!("alternative {} index {}: derived {} but private derivation along the written path gives {}", j, idx, g, want));
                                        } else {
                                            bump(cen, "secret_derivations_ok");
                                        }
                                    }
                                    Ok(Err(e)) => viol("derive-fails", e.to_string()),
                                    Err(p) => viol("derive-panic", p),
                                }
                            }
                            // recorded origin + remaining path = written path (under the written / implied fingerprint)
                            let mut written: Vec<String> = if o.is_empty() { vec![] } else { vec!["44'".into(), "1".into()] };
                            written.extend(sh.iter().map(|c| c.to_string()));
                            if let Some(a) = alt {
                                written.push(a.to_string());
                            }
                            written.extend(tr.iter().map(|c| c.to_string()));
                            let has_hard = sh.iter().any(|c| c.is_hardened()) || tr.iter().any(|c| c.is_hardened());
                            if !o.is_empty() || has_hard {
                                let got: Option<Vec<String>> = singles[j].full_derivation_path().map(|p| p.into_iter().map(|c| c.to_string()).collect());
                                if got.as_ref() != Some(&written) {
                                    viol("origin-path", format!("alternative {}: full derivation path {:?}, written {:?}", j, got, written));
                                }
                                let exp_fp = if o.is_empty() { master.fingerprint(&secp).to_string() } else { "aabbccdd".to_string() };
                                if singles[j].master_fingerprint().to_string() != exp_fp {
                                    viol("origin-fingerprint", format!("{} expected {}", singles[j].master_fingerprint(), exp_fp));
                                }
                            }
                        }
                    }
                }
            }
        }
    }
}

fn permutations(n: usize) -> Vec<Vec<usize>> {
    if n == 0 {
        return vec![vec![]];
    }
    let mut out = vec![];
    for p in permutations(n - 1) {
        for i in 0..n {
            let mut q = p.clone();
            q.insert(i, n - 1);
            out.push(q);
        }
    }
    out
}

fn sortedmulti_checks(rep: &Report, cen: &mut Census) {
    for n in 1..=4usize {
        for k in 1..=n {
            // key labels chosen so that the x-only order differs from the order of the 33-byte
            // serializations (some odd-parity key has a smaller x than an even-parity one)
            let labels: Vec<String> = {
                let pool: Vec<String> = (1..=40).map(|i| format!("K{}", i)).collect();
                let mut pick: Vec<String> = pool[..n].to_vec();
                'search: for start in 0..pool.len() - n {
                    let cand = pool[start..start + n].to_vec();
                    let mut a = cand.clone();
                    let mut b = cand.clone();
                    a.sort_by_key(|l| crate::keys::key(l).x32());
                    b.sort_by_key(|l| crate::keys::key(l).compressed());
                    if a != b || n == 1 {
                        pick = cand;
                        break 'search;
                    }
                }
                pick
            };
            for (wname, mk) in [
                ("wsh", Box::new(|ks: Vec<String>| D::Wsh(T::SortedMulti(k, ks))) as Box<dyn Fn(Vec<String>) -> D>),
                ("sh", Box::new(|ks: Vec<String>| D::Sh(T::SortedMulti(k, ks)))),
                ("sh-wsh", Box::new(|ks: Vec<String>| D::ShWsh(T::SortedMulti(k, ks)))),
                ("tr", Box::new(|ks: Vec<String>| D::Tr("KI".into(), vec![(0, T::SortedMultiA(k, ks))]))),
            ] {
                let mut spks = vec![];
                for p in permutations(n) {
                    let ks: Vec<String> = p.iter().map(|i| labels[*i].clone()).collect();
                    let d = mk(ks);
                    bump(cen, "sortedmulti_permutations");
                    if let Ok(Ok(c)) = guard(|| prepare(&d, KeyForm::Compressed)) {
                        spks.push(c.spk.clone());
                        // the output is the standard one for the sorted key list (byte-level reference)
                        let (ref_spk, _, _, _) = reference(&d, KeyForm::Compressed);
                        if c.spk.as_bytes() != &ref_spk[..] {
                            rep.violation(Violation {
                                key: format!("C16|sortedmulti-spk|{}|{}|{}", wname, k, n),
                                class: format!("sortedmulti-output-differs-from-reference-{}", wname),
                                what: format!("script_pubkey {} but the reference for the sorted key list is {}", hex(c.spk.as_bytes()), hex(&ref_spk)),
                                case: json!({"descriptor": c.desc.to_string()}),
                            });
                        }
                        // satisfaction with exactly k signatures validates
                        let w = World { sigs: labels[..k].iter().cloned().collect(), pre: Default::default(), locktime: 0, sequence: 0xffff_fffe };
                        let spend = make_spend(c.spk.clone(), w.locktime, w.sequence);
                        let sat = WorldSat { world: &w, spend: &spend, sign: &c.sign, schnorr_all: false, lie_locks: false, cap: SignCap::NoKeySpend };
                        match guard(|| c.desc.get_satisfaction(&sat)) {
                            Ok(Ok((wit, ss))) => match verify_input(&spend, ss.as_bytes(), &wit, true) {
                                Ok(_) => bump(cen, "sortedmulti_satisfactions_validated"),
                                Err(e) => rep.violation(Violation {
                                    key: format!("C16|sortedmulti-sat|{}|{:?}", wname, p),
                                    class: format!("sortedmulti-satisfaction-rejected-{}", wname),
                                    what: e,
                                    case: json!({"desc": c.desc.to_string()}),
                                }),
                            },
                            _ => rep.violation(Violation {
                                key: format!("C16|sortedmulti-nosat|{}|{}|{:?}", wname, k, p),
                                class: format!("sortedmulti-not-satisfied-{}", wname),
                                what: "satisfier fails with k signatures".into(),
                                case: json!({"desc": c.desc.to_string()}),
                            }),
                        }
                    }
                }
                spks.dedup();
                if spks.len() > 1 {
                    rep.violation(Violation {
                        key: format!("C16|sortedmulti-order|{}|{}|{}", wname, k, n),
                        class: format!("sortedmulti-depends-on-key-order-{}", wname),
                        what: format!("{} distinct scriptPubKeys over the permutations of {} keys", spks.len(), n),
                        case: json!({"k": k, "n": n}),
                    });
                }
            }
        }
    }
}

pub fn run(tier: Tier) -> i32 {
    let rep = Report::new("C16", tier);
    if let Err(e) = crate::kat::run_kats() {
        println!("MACHINERY: reference Script machine failed its known-answer tests: {}", e);
        return 2;
    }
    let n = tier.pick(4, 5);
    let u = universe(n, n, n, Alphabet::Small);
    let mut models: Vec<(D, KeyForm)> = vec![];
    for k in ["K1", "K2"] {
        for f in [KeyForm::Compressed, KeyForm::Uncompressed] {
            models.push((D::Pkh(k.into()), f));
            models.push((D::Bare(T::Check(Box::new(T::PkK(k.into())))), f));
        }
        models.push((D::Wpkh(k.into()), KeyForm::Compressed));
        models.push((D::ShWpkh(k.into()), KeyForm::Compressed));
        models.push((D::Tr(k.into(), vec![]), KeyForm::Compressed));
        models.push((D::Tr(k.into(), vec![]), KeyForm::XOnly));
    }
    // sorted multisigs of every small (k, n): their dedicated constructors are compared below
    for nn in 1..=4usize {
        for k in 1..=nn {
            let ks: Vec<String> = (1..=nn).map(|i| format!("K{}", i)).collect();
            models.push((D::Wsh(T::SortedMulti(k, ks.clone())), KeyForm::Compressed));
            models.push((D::ShWsh(T::SortedMulti(k, ks.clone())), KeyForm::Compressed));
            models.push((D::Sh(T::SortedMulti(k, ks.clone())), KeyForm::Compressed));
            models.push((D::Sh(T::SortedMulti(k, ks.clone())), KeyForm::Uncompressed));
            models.push((D::Sh(T::SortedMulti(k, ks)), KeyForm::Mixed));
        }
    }
    for t in b_terms(&u.segwit, n) {
        models.push((D::Wsh(t.clone()), KeyForm::Compressed));
        models.push((D::ShWsh(t), KeyForm::Compressed));
    }
    for t in b_terms(&u.legacy, n) {
        models.push((D::Sh(t.clone()), KeyForm::Compressed));
        if t.size() <= 3 {
            models.push((D::Sh(t), KeyForm::Uncompressed));
        }
    }
    for t in b_terms(&u.tap, n) {
        models.push((D::Tr("KI".into(), vec![(0, t.clone())]), KeyForm::Compressed));
        if t.size() <= 3 {
            models.push((D::Tr("KI".into(), vec![(1, t.clone()), (1, T::Check(Box::new(T::PkK("K9".into()))))]), KeyForm::XOnly));
        }
    }
    // large script trees: balanced trees whose inner nodes sit at pre-order positions beyond 255 and
    // 65535 would need 2^16 leaves (thorough only has 2^10), depth-limit caterpillars, a late big subtree
    {
        let leaf = |i: usize| T::Check(Box::new(T::PkK(format!("L{}", i))));
        let balanced = |d: u8, at: u8, from: usize| -> Vec<(u8, T)> { (0..(1usize << d)).map(|i| (at + d, leaf(from + i))).collect() };
        for d in [2u8, 3, 6, 8, 9].into_iter().chain(if tier == Tier::Thorough { vec![10u8] } else { vec![] }) {
            models.push((D::Tr("KI".into(), balanced(d, 0, 0)), KeyForm::XOnly));
        }
        // a single leaf first, then a balanced 256-leaf subtree; and the mirror image
        let mut late = vec![(1u8, leaf(1000))];
        late.extend(balanced(8, 1, 0));
        models.push((D::Tr("KI".into(), late), KeyForm::XOnly));
        let mut early = balanced(8, 1, 0);
        early.push((1u8, leaf(1000)));
        models.push((D::Tr("KI".into(), early), KeyForm::Compressed));
        // caterpillars at the depth limit, growing to the right and to the left
        let mut right: Vec<(u8, T)> = (1..=128u8).map(|d| (d, leaf(d as usize))).collect();
        right.push((128, leaf(129)));
        models.push((D::Tr("KI".into(), right.clone()), KeyForm::XOnly));
        right.reverse();
        models.push((D::Tr("KI".into(), right), KeyForm::XOnly));
    }
    let cen = models
        .par_iter()
        .fold(Census::new, |mut cen, (d, f)| {
            accessor_checks(&rep, d, *f, &mut cen);
            cen
        })
        .reduce(Census::new, |mut a, b| {
            for (k, v) in b {
                *a.entry(k).or_insert(0) += v;
            }
            a
        });
    rep.merge_counts(&cen);
    let mut cen = Census::new();
    derivation_checks(&rep, &mut cen);
    sortedmulti_checks(&rep, &mut cen);
    secret_to_public_checks(&rep, &mut cen);
    rep.merge_counts(&cen);
    let _ = (walk::<String, miniscript::Segwitv0>, DefiniteDescriptorKey::from_str);
    rep.extra("bounds", json!({"script_nodes": n, "networks": 4, "derivation_indices": [0, 1, 2147483647u32, 2147483648u32], "sortedmulti_n": 4}));
    rep.sample(json!({"key_expressions": "[fp/44'/0'/7]? xpub (/step){0..3} (/* | /*' | /*h)?, multipath <a;b(;c)>"}));
    rep.assume("bitcoin::bip32::Xpub::derive_pub and bitcoin::Address encoding are trusted");
    let evals = rep.get("descriptors") + rep.get("derivation_evaluations") + rep.get("sortedmulti_permutations") + rep.get("multipath_descriptors");
    rep.finish(
        (u.segwit.count() + u.legacy.count() + u.tap.count()) as u64 + models.len() as u64,
        evals + rep.get("address_evaluations"),
        rep.get("derivations_ok") + rep.get("script_code_signatures_verified") + rep.get("sortedmulti_satisfactions_validated"),
        evals,
        rep.get("derivations_ok").min(rep.get("descriptors")),
        "every output type x key form x 4 networks and every B term up to the node bound inside sh / wsh / sh-wsh / tr: scriptPubKey, address, explicit_script, script_code, unsigned_script_sig against byte-level references, and a spend signed over script_code() verified on the RSM; xpub key expressions (origin x steps x wildcard) x indices vs independent BIP32 derivation, find_derivation_index_for_spk over every search range [a,b) within 0..5, documented errors; all key permutations of sortedmulti (n <= 4); multipath split vs textual selection (two keys on different xpubs / the same xpub, equal and different alternatives). non-trivial = min(derivations confirmed, descriptors compared)",
        true,
    )
}

//! The harness's own, boring model of a miniscript term: `T`.
//!
//! * `walk`    : real `Miniscript` -> `T` through the public `node` fields (structural walker);
//! * `build`   : `T` -> real `Miniscript` through `Miniscript::from_ast` at every node;
//! * `print`   : reference string form (Miniscript text grammar with canonical sugar);
//! * `encode`  : reference Bitcoin Script encoding (from the specification's translation table).
//!
//! None of `print`/`encode` calls into the crate under test.

use std::sync::Arc;

use miniscript::miniscript::limits::{MAX_PUBKEYS_IN_CHECKSIGADD, MAX_PUBKEYS_PER_MULTISIG};
use miniscript::{
    AbsLockTime, Miniscript, MiniscriptKey, RelLockTime, ScriptContext, Terminal, Threshold,
};

#[derive(Clone, PartialEq, Eq, Hash, PartialOrd, Ord, Debug)]
pub enum T {
    False,
    True,
    PkK(String),
    PkH(String),
    RawPkH(String),
    After(u32),
    Older(u32),
    Sha256(String),
    Hash256(String),
    Ripemd160(String),
    Hash160(String),
    Alt(Box<T>),
    Swap(Box<T>),
    Check(Box<T>),
    DupIf(Box<T>),
    Verify(Box<T>),
    NonZero(Box<T>),
    ZeroNotEqual(Box<T>),
    AndV(Box<T>, Box<T>),
    AndB(Box<T>, Box<T>),
    AndOr(Box<T>, Box<T>, Box<T>),
    OrB(Box<T>, Box<T>),
    OrD(Box<T>, Box<T>),
    OrC(Box<T>, Box<T>),
    OrI(Box<T>, Box<T>),
    Thresh(usize, Vec<T>),
    Multi(usize, Vec<String>),
    SortedMulti(usize, Vec<String>),
    MultiA(usize, Vec<String>),
    SortedMultiA(usize, Vec<String>),
}

impl T {
    pub fn children(&self) -> Vec<&T> {
        use T::*;
        match self {
            Alt(x) | Swap(x) | Check(x) | DupIf(x) | Verify(x) | NonZero(x) | ZeroNotEqual(x) => {
                vec![x]
            }
            AndV(a, b) | AndB(a, b) | OrB(a, b) | OrD(a, b) | OrC(a, b) | OrI(a, b) => vec![a, b],
            AndOr(a, b, c) => vec![a, b, c],
            Thresh(_, v) => v.iter().collect(),
            _ => vec![],
        }
    }

    pub fn children_mut(&mut self) -> Vec<&mut T> {
        use T::*;
        match self {
            Alt(x) | Swap(x) | Check(x) | DupIf(x) | Verify(x) | NonZero(x) | ZeroNotEqual(x) => {
                vec![x]
            }
            AndV(a, b) | AndB(a, b) | OrB(a, b) | OrD(a, b) | OrC(a, b) | OrI(a, b) => vec![a, b],
            AndOr(a, b, c) => vec![a, b, c],
            Thresh(_, v) => v.iter_mut().collect(),
            _ => vec![],
        }
    }

    pub fn size(&self) -> usize {
        1 + self.children().iter().map(|c| c.size()).sum::<usize>()
    }

    pub fn depth(&self) -> usize {
        1 + self.children().iter().map(|c| c.depth()).max().unwrap_or(0)
    }

    /// pre-order traversal of all nodes
    pub fn nodes(&self) -> Vec<&T> {
        let mut out = vec![];
        fn rec<'a>(t: &'a T, out: &mut Vec<&'a T>) {
            out.push(t);
            for c in t.children() {
                rec(c, out);
            }
        }
        rec(self, &mut out);
        out
    }

    /// Key labels in left-to-right textual order (with multiplicity).
    pub fn keys(&self) -> Vec<String> {
        let mut out = vec![];
        for n in self.nodes() {
            match n {
                T::PkK(k) | T::PkH(k) => out.push(k.clone()),
                T::Multi(_, ks) | T::SortedMulti(_, ks) | T::MultiA(_, ks) | T::SortedMultiA(_, ks) => {
                    out.extend(ks.iter().cloned())
                }
                _ => {}
            }
        }
        out
    }

    /// Hash labels in left-to-right order: (kind, label)
    pub fn hashes(&self) -> Vec<(char, String)> {
        let mut out = vec![];
        for n in self.nodes() {
            match n {
                T::Sha256(h) => out.push(('s', h.clone())),
                T::Hash256(h) => out.push(('d', h.clone())),
                T::Ripemd160(h) => out.push(('r', h.clone())),
                T::Hash160(h) => out.push(('h', h.clone())),
                _ => {}
            }
        }
        out
    }

    pub fn afters(&self) -> Vec<u32> {
        self.nodes().iter().filter_map(|n| if let T::After(x) = n { Some(*x) } else { None }).collect()
    }
    pub fn olders(&self) -> Vec<u32> {
        self.nodes().iter().filter_map(|n| if let T::Older(x) = n { Some(*x) } else { None }).collect()
    }

    /// Rename key labels by `f` (applied in left-to-right order).
    pub fn map_keys(&self, f: &mut dyn FnMut(&str) -> String) -> T {
        use T::*;
        let mut t = self.clone();
        fn rec(t: &mut T, f: &mut dyn FnMut(&str) -> String) {
            match t {
                PkK(k) | PkH(k) => *k = f(k),
                Multi(_, ks) | SortedMulti(_, ks) | MultiA(_, ks) | SortedMultiA(_, ks) => {
                    for k in ks.iter_mut() {
                        *k = f(k);
                    }
                }
                _ => {
                    for c in t.children_mut() {
                        rec(c, f);
                    }
                }
            }
        }
        rec(&mut t, f);
        t
    }

    pub fn map_hashes(&self, f: &mut dyn FnMut(char, &str) -> String) -> T {
        use T::*;
        let mut t = self.clone();
        fn rec(t: &mut T, f: &mut dyn FnMut(char, &str) -> String) {
            match t {
                Sha256(h) => *h = f('s', h),
                Hash256(h) => *h = f('d', h),
                Ripemd160(h) => *h = f('r', h),
                Hash160(h) => *h = f('h', h),
                _ => {
                    for c in t.children_mut() {
                        rec(c, f);
                    }
                }
            }
        }
        rec(&mut t, f);
        t
    }

    /// Canonical labelling: i-th key occurrence gets K{i}, i-th hash gets its own label.
    pub fn relabel_distinct(&self) -> T {
        let mut i = 0;
        let t = self.map_keys(&mut |_| {
            i += 1;
            format!("K{}", i)
        });
        let mut j = 0;
        t.map_hashes(&mut |_, _| {
            j += 1;
            format!("H{}", j)
        })
    }

    pub fn tag(&self) -> &'static str {
        use T::*;
        match self {
            False => "0",
            True => "1",
            PkK(_) => "pk_k",
            PkH(_) => "pk_h",
            RawPkH(_) => "expr_raw_pkh",
            After(_) => "after",
            Older(_) => "older",
            Sha256(_) => "sha256",
            Hash256(_) => "hash256",
            Ripemd160(_) => "ripemd160",
            Hash160(_) => "hash160",
            Alt(_) => "a",
            Swap(_) => "s",
            Check(_) => "c",
            DupIf(_) => "d",
            Verify(_) => "v",
            NonZero(_) => "j",
            ZeroNotEqual(_) => "n",
            AndV(..) => "and_v",
            AndB(..) => "and_b",
            AndOr(..) => "andor",
            OrB(..) => "or_b",
            OrD(..) => "or_d",
            OrC(..) => "or_c",
            OrI(..) => "or_i",
            Thresh(..) => "thresh",
            Multi(..) => "multi",
            SortedMulti(..) => "sortedmulti",
            MultiA(..) => "multi_a",
            SortedMultiA(..) => "sortedmulti_a",
        }
    }

    /// Fully explicit S-expression (no sugar): the canonical structural identity.
    pub fn sexpr(&self) -> String {
        use T::*;
        match self {
            False | True => self.tag().to_string(),
            PkK(k) | PkH(k) | RawPkH(k) | Sha256(k) | Hash256(k) | Ripemd160(k) | Hash160(k) => {
                format!("{}({})", self.tag(), k)
            }
            After(n) | Older(n) => format!("{}({})", self.tag(), n),
            Thresh(k, v) => format!(
                "thresh({},{})",
                k,
                v.iter().map(|c| c.sexpr()).collect::<Vec<_>>().join(",")
            ),
            Multi(k, ks) | SortedMulti(k, ks) | MultiA(k, ks) | SortedMultiA(k, ks) => {
                format!("{}({},{})", self.tag(), k, ks.join(","))
            }
            _ => format!(
                "{}({})",
                self.tag(),
                self.children().iter().map(|c| c.sexpr()).collect::<Vec<_>>().join(",")
            ),
        }
    }

    // ---------------- reference printer ----------------

    fn display_name(&self) -> &'static str {
        use T::*;
        match self {
            Check(x) if matches!(**x, PkK(_)) => "pk",
            Check(x) if matches!(**x, PkH(_)) => "pkh",
            AndV(_, r) if **r == True => "t",
            AndOr(_, _, c) if **c == False => "and_n",
            OrI(_, r) if **r == False => "u",
            OrI(l, _) if **l == False => "l",
            _ => self.tag(),
        }
    }

    /// Text form without any syntactic sugar (only the seven real wrappers as prefixes).
    pub fn print_explicit(&self) -> String {
        fn rec(t: &T, out: &mut String, parent_wrapper: bool) {
            use T::*;
            match t {
                Alt(x) | Swap(x) | Check(x) | DupIf(x) | Verify(x) | NonZero(x) | ZeroNotEqual(x) => {
                    out.push_str(t.tag());
                    rec(x, out, true);
                }
                _ => {
                    if parent_wrapper {
                        out.push(':');
                    }
                    out.push_str(t.tag());
                    match t {
                        True | False => {}
                        PkK(k) | PkH(k) | RawPkH(k) | Sha256(k) | Hash256(k) | Ripemd160(k) | Hash160(k) => {
                            out.push('(');
                            out.push_str(k);
                            out.push(')');
                        }
                        After(n) | Older(n) => {
                            out.push('(');
                            out.push_str(&n.to_string());
                            out.push(')');
                        }
                        Thresh(k, v) => {
                            out.push('(');
                            out.push_str(&k.to_string());
                            for c in v {
                                out.push(',');
                                rec(c, out, false);
                            }
                            out.push(')');
                        }
                        Multi(k, ks) | SortedMulti(k, ks) | MultiA(k, ks) | SortedMultiA(k, ks) => {
                            out.push('(');
                            out.push_str(&k.to_string());
                            for c in ks {
                                out.push(',');
                                out.push_str(c);
                            }
                            out.push(')');
                        }
                        _ => {
                            out.push('(');
                            for (i, c) in t.children().iter().enumerate() {
                                if i > 0 {
                                    out.push(',');
                                }
                                rec(c, out, false);
                            }
                            out.push(')');
                        }
                    }
                }
            }
        }
        let mut s = String::new();
        rec(self, &mut s, false);
        s
    }

    fn is_wrapper(&self) -> bool {
        !matches!(self, T::True | T::False) && self.display_name().len() == 1
    }

    /// Reference text form (canonical sugar as in the Miniscript spec / descriptor docs).
    pub fn print(&self) -> String {
        let mut s = String::new();
        self.print_into(&mut s, false);
        s
    }

    fn print_into(&self, out: &mut String, parent_wrapper: bool) {
        use T::*;
        let name = self.display_name();
        if self.is_wrapper() {
            out.push_str(name);
            let child: &T = match self {
                AndV(l, _) => l,
                OrI(l, r) => {
                    if **r == False {
                        l
                    } else {
                        r
                    }
                }
                _ => self.children()[0],
            };
            child.print_into(out, true);
            return;
        }
        if parent_wrapper {
            out.push(':');
        }
        out.push_str(name);
        match self {
            True | False => {}
            PkK(k) | PkH(k) | RawPkH(k) | Sha256(k) | Hash256(k) | Ripemd160(k) | Hash160(k) => {
                out.push('(');
                out.push_str(k);
                out.push(')');
            }
            After(n) | Older(n) => {
                out.push('(');
                out.push_str(&n.to_string());
                out.push(')');
            }
            Check(x) => match &**x {
                PkK(k) | PkH(k) => {
                    out.push('(');
                    out.push_str(k);
                    out.push(')');
                }
                _ => unreachable!("c: is a wrapper otherwise"),
            },
            Thresh(k, v) => {
                out.push('(');
                out.push_str(&k.to_string());
                for c in v {
                    out.push(',');
                    c.print_into(out, false);
                }
                out.push(')');
            }
            Multi(k, ks) | SortedMulti(k, ks) | MultiA(k, ks) | SortedMultiA(k, ks) => {
                out.push('(');
                out.push_str(&k.to_string());
                for c in ks {
                    out.push(',');
                    out.push_str(c);
                }
                out.push(')');
            }
            AndOr(a, b, c) if **c == False => {
                out.push('(');
                a.print_into(out, false);
                out.push(',');
                b.print_into(out, false);
                out.push(')');
            }
            _ => {
                out.push('(');
                for (i, c) in self.children().iter().enumerate() {
                    if i > 0 {
                        out.push(',');
                    }
                    c.print_into(out, false);
                }
                out.push(')');
            }
        }
    }
}

// ---------------- structural walker ----------------

pub fn walk<Pk: MiniscriptKey, Ctx: ScriptContext>(ms: &Miniscript<Pk, Ctx>) -> T {
    walk_term(&ms.node)
}

pub fn walk_term<Pk: MiniscriptKey, Ctx: ScriptContext>(t: &Terminal<Pk, Ctx>) -> T {
    let b = |m: &Arc<Miniscript<Pk, Ctx>>| Box::new(walk_term(&m.node));
    match t {
        Terminal::True => T::True,
        Terminal::False => T::False,
        Terminal::PkK(k) => T::PkK(k.to_string()),
        Terminal::PkH(k) => T::PkH(k.to_string()),
        Terminal::RawPkH(h) => T::RawPkH(h.to_string()),
        Terminal::After(n) => T::After(n.to_consensus_u32()),
        Terminal::Older(n) => T::Older(n.to_consensus_u32()),
        Terminal::Sha256(h) => T::Sha256(h.to_string()),
        Terminal::Hash256(h) => T::Hash256(h.to_string()),
        Terminal::Ripemd160(h) => T::Ripemd160(h.to_string()),
        Terminal::Hash160(h) => T::Hash160(h.to_string()),
        Terminal::Alt(x) => T::Alt(b(x)),
        Terminal::Swap(x) => T::Swap(b(x)),
        Terminal::Check(x) => T::Check(b(x)),
        Terminal::DupIf(x) => T::DupIf(b(x)),
        Terminal::Verify(x) => T::Verify(b(x)),
        Terminal::NonZero(x) => T::NonZero(b(x)),
        Terminal::ZeroNotEqual(x) => T::ZeroNotEqual(b(x)),
        Terminal::AndV(x, y) => T::AndV(b(x), b(y)),
        Terminal::AndB(x, y) => T::AndB(b(x), b(y)),
        Terminal::AndOr(x, y, z) => T::AndOr(b(x), b(y), b(z)),
        Terminal::OrB(x, y) => T::OrB(b(x), b(y)),
        Terminal::OrD(x, y) => T::OrD(b(x), b(y)),
        Terminal::OrC(x, y) => T::OrC(b(x), b(y)),
        Terminal::OrI(x, y) => T::OrI(b(x), b(y)),
        Terminal::Thresh(th) => T::Thresh(th.k(), th.data().iter().map(|c| walk_term(&c.node)).collect()),
        Terminal::Multi(th) => T::Multi(th.k(), th.data().iter().map(|k| k.to_string()).collect()),
        Terminal::SortedMulti(th) => {
            T::SortedMulti(th.k(), th.data().iter().map(|k| k.to_string()).collect())
        }
        Terminal::MultiA(th) => T::MultiA(th.k(), th.data().iter().map(|k| k.to_string()).collect()),
        Terminal::SortedMultiA(th) => {
            T::SortedMultiA(th.k(), th.data().iter().map(|k| k.to_string()).collect())
        }
    }
}

// ---------------- builder ----------------

/// Maps labels of the model to concrete key / hash values.
pub trait Env<Pk: MiniscriptKey> {
    fn pk(&self, label: &str) -> Pk;
    fn sha256(&self, label: &str) -> Pk::Sha256;
    fn hash256(&self, label: &str) -> Pk::Hash256;
    fn ripemd160(&self, label: &str) -> Pk::Ripemd160;
    fn hash160(&self, label: &str) -> Pk::Hash160;
    fn raw_pkh(&self, label: &str) -> bitcoin::hashes::hash160::Hash {
        label.parse().expect("raw pkh label must be 40 hex chars")
    }
}

/// String keys: labels are the keys.
pub struct StrEnv;
impl Env<String> for StrEnv {
    fn pk(&self, l: &str) -> String { l.to_string() }
    fn sha256(&self, l: &str) -> String { l.to_string() }
    fn hash256(&self, l: &str) -> String { l.to_string() }
    fn ripemd160(&self, l: &str) -> String { l.to_string() }
    fn hash160(&self, l: &str) -> String { l.to_string() }
}

/// Build a real miniscript bottom-up, every node through `Miniscript::from_ast`.
pub fn build<Pk: MiniscriptKey, Ctx: ScriptContext>(
    t: &T,
    env: &dyn Env<Pk>,
) -> Result<Miniscript<Pk, Ctx>, String> {
    let term = build_term::<Pk, Ctx>(t, env)?;
    Miniscript::from_ast(term).map_err(|e| e.to_string())
}

pub fn build_arc<Pk: MiniscriptKey, Ctx: ScriptContext>(
    t: &T,
    env: &dyn Env<Pk>,
) -> Result<Arc<Miniscript<Pk, Ctx>>, String> {
    build::<Pk, Ctx>(t, env).map(Arc::new)
}

pub fn build_term<Pk: MiniscriptKey, Ctx: ScriptContext>(
    t: &T,
    env: &dyn Env<Pk>,
) -> Result<Terminal<Pk, Ctx>, String> {
    let b = |x: &T| build_arc::<Pk, Ctx>(x, env);
    let keys = |ks: &Vec<String>| ks.iter().map(|k| env.pk(k)).collect::<Vec<Pk>>();
    Ok(match t {
        T::True => Terminal::True,
        T::False => Terminal::False,
        T::PkK(k) => Terminal::PkK(env.pk(k)),
        T::PkH(k) => Terminal::PkH(env.pk(k)),
        T::RawPkH(h) => Terminal::RawPkH(env.raw_pkh(h)),
        T::After(n) => {
            Terminal::After(AbsLockTime::from_consensus(*n).map_err(|e| e.to_string())?)
        }
        T::Older(n) => {
            Terminal::Older(RelLockTime::from_consensus(*n).map_err(|e| e.to_string())?)
        }
        T::Sha256(h) => Terminal::Sha256(env.sha256(h)),
        T::Hash256(h) => Terminal::Hash256(env.hash256(h)),
        T::Ripemd160(h) => Terminal::Ripemd160(env.ripemd160(h)),
        T::Hash160(h) => Terminal::Hash160(env.hash160(h)),
        T::Alt(x) => Terminal::Alt(b(x)?),
        T::Swap(x) => Terminal::Swap(b(x)?),
        T::Check(x) => Terminal::Check(b(x)?),
        T::DupIf(x) => Terminal::DupIf(b(x)?),
        T::Verify(x) => Terminal::Verify(b(x)?),
        T::NonZero(x) => Terminal::NonZero(b(x)?),
        T::ZeroNotEqual(x) => Terminal::ZeroNotEqual(b(x)?),
        T::AndV(x, y) => Terminal::AndV(b(x)?, b(y)?),
        T::AndB(x, y) => Terminal::AndB(b(x)?, b(y)?),
        T::AndOr(x, y, z) => Terminal::AndOr(b(x)?, b(y)?, b(z)?),
        T::OrB(x, y) => Terminal::OrB(b(x)?, b(y)?),
        T::OrD(x, y) => Terminal::OrD(b(x)?, b(y)?),
        T::OrC(x, y) => Terminal::OrC(b(x)?, b(y)?),
        T::OrI(x, y) => Terminal::OrI(b(x)?, b(y)?),
        T::Thresh(k, v) => {
            let subs = v.iter().map(b).collect::<Result<Vec<_>, _>>()?;
            Terminal::Thresh(Threshold::new(*k, subs).map_err(|e| e.to_string())?)
        }
        T::Multi(k, ks) => Terminal::Multi(
            Threshold::<Pk, MAX_PUBKEYS_PER_MULTISIG>::new(*k, keys(ks)).map_err(|e| e.to_string())?,
        ),
        T::SortedMulti(k, ks) => Terminal::SortedMulti(
            Threshold::<Pk, MAX_PUBKEYS_PER_MULTISIG>::new(*k, keys(ks)).map_err(|e| e.to_string())?,
        ),
        T::MultiA(k, ks) => Terminal::MultiA(
            Threshold::<Pk, MAX_PUBKEYS_IN_CHECKSIGADD>::new(*k, keys(ks))
                .map_err(|e| e.to_string())?,
        ),
        T::SortedMultiA(k, ks) => Terminal::SortedMultiA(
            Threshold::<Pk, MAX_PUBKEYS_IN_CHECKSIGADD>::new(*k, keys(ks))
                .map_err(|e| e.to_string())?,
        ),
    })
}

// ---------------- reference script encoder ----------------

#[derive(Clone, Debug, PartialEq, Eq)]
pub enum Tok {
    Op(u8),
    Push(Vec<u8>),
    Num(i64),
}

pub mod op {
    pub const OP_0: u8 = 0x00;
    pub const PUSHDATA1: u8 = 0x4c;
    pub const PUSHDATA2: u8 = 0x4d;
    pub const PUSHDATA4: u8 = 0x4e;
    pub const OP_1NEGATE: u8 = 0x4f;
    pub const OP_1: u8 = 0x51;
    pub const OP_16: u8 = 0x60;
    pub const NOP: u8 = 0x61;
    pub const IF: u8 = 0x63;
    pub const NOTIF: u8 = 0x64;
    pub const ELSE: u8 = 0x67;
    pub const ENDIF: u8 = 0x68;
    pub const VERIFY: u8 = 0x69;
    pub const RETURN: u8 = 0x6a;
    pub const TOALTSTACK: u8 = 0x6b;
    pub const FROMALTSTACK: u8 = 0x6c;
    pub const IFDUP: u8 = 0x73;
    pub const DROP: u8 = 0x75;
    pub const DUP: u8 = 0x76;
    pub const SWAP: u8 = 0x7c;
    pub const SIZE: u8 = 0x82;
    pub const EQUAL: u8 = 0x87;
    pub const EQUALVERIFY: u8 = 0x88;
    pub const ZERO_NOT_EQUAL: u8 = 0x92;
    pub const ADD: u8 = 0x93;
    pub const BOOLAND: u8 = 0x9a;
    pub const BOOLOR: u8 = 0x9b;
    pub const NUMEQUAL: u8 = 0x9c;
    pub const NUMEQUALVERIFY: u8 = 0x9d;
    pub const RIPEMD160: u8 = 0xa6;
    pub const SHA256: u8 = 0xa8;
    pub const HASH160: u8 = 0xa9;
    pub const HASH256: u8 = 0xaa;
    pub const CHECKSIG: u8 = 0xac;
    pub const CHECKSIGVERIFY: u8 = 0xad;
    pub const CHECKMULTISIG: u8 = 0xae;
    pub const CHECKMULTISIGVERIFY: u8 = 0xaf;
    pub const CLTV: u8 = 0xb1;
    pub const CSV: u8 = 0xb2;
    pub const CHECKSIGADD: u8 = 0xba;
}

/// What the encoder needs to know about labels.
pub trait EncEnv {
    /// serialized key as pushed in script (33/65 bytes ECDSA contexts, 32 bytes Tap)
    fn key_bytes(&self, label: &str) -> Vec<u8>;
    /// hash160 of key_bytes
    fn key_hash(&self, label: &str) -> Vec<u8>;
    fn hash_bytes(&self, kind: char, label: &str) -> Vec<u8>;
    /// BIP-67 sort key of sortedmulti: the *compressed* serialization (BIP-67 is defined on
    /// compressed keys only; the library documents "as defined by BIP-67" and applies the
    /// compressed form also to keys that are pushed uncompressed).
    fn sort_key(&self, label: &str) -> Vec<u8> { self.key_bytes(label) }
}

pub fn encode_toks(t: &T, env: &dyn EncEnv, out: &mut Vec<Tok>) {
    use op::*;
    use T::*;
    match t {
        False => out.push(Tok::Num(0)),
        True => out.push(Tok::Num(1)),
        PkK(k) => out.push(Tok::Push(env.key_bytes(k))),
        PkH(k) => {
            out.push(Tok::Op(DUP));
            out.push(Tok::Op(HASH160));
            out.push(Tok::Push(env.key_hash(k)));
            out.push(Tok::Op(EQUALVERIFY));
        }
        RawPkH(h) => {
            out.push(Tok::Op(DUP));
            out.push(Tok::Op(HASH160));
            out.push(Tok::Push(crate::common::unhex(h)));
            out.push(Tok::Op(EQUALVERIFY));
        }
        After(n) => {
            out.push(Tok::Num(*n as i64));
            out.push(Tok::Op(CLTV));
        }
        Older(n) => {
            out.push(Tok::Num(*n as i64));
            out.push(Tok::Op(CSV));
        }
        Sha256(h) | Hash256(h) | Ripemd160(h) | Hash160(h) => {
            let (kind, opc) = match t {
                Sha256(_) => ('s', SHA256),
                Hash256(_) => ('d', HASH256),
                Ripemd160(_) => ('r', RIPEMD160),
                _ => ('h', HASH160),
            };
            out.push(Tok::Op(SIZE));
            out.push(Tok::Num(32));
            out.push(Tok::Op(EQUALVERIFY));
            out.push(Tok::Op(opc));
            out.push(Tok::Push(env.hash_bytes(kind, h)));
            out.push(Tok::Op(EQUAL));
        }
        Alt(x) => {
            out.push(Tok::Op(TOALTSTACK));
            encode_toks(x, env, out);
            out.push(Tok::Op(FROMALTSTACK));
        }
        Swap(x) => {
            out.push(Tok::Op(SWAP));
            encode_toks(x, env, out);
        }
        Check(x) => {
            encode_toks(x, env, out);
            out.push(Tok::Op(CHECKSIG));
        }
        DupIf(x) => {
            out.push(Tok::Op(DUP));
            out.push(Tok::Op(IF));
            encode_toks(x, env, out);
            out.push(Tok::Op(ENDIF));
        }
        Verify(x) => {
            encode_toks(x, env, out);
            match out.last() {
                Some(Tok::Op(EQUAL)) => *out.last_mut().unwrap() = Tok::Op(EQUALVERIFY),
                Some(Tok::Op(NUMEQUAL)) => *out.last_mut().unwrap() = Tok::Op(NUMEQUALVERIFY),
                Some(Tok::Op(CHECKSIG)) => *out.last_mut().unwrap() = Tok::Op(CHECKSIGVERIFY),
                Some(Tok::Op(CHECKMULTISIG)) => {
                    *out.last_mut().unwrap() = Tok::Op(CHECKMULTISIGVERIFY)
                }
                _ => out.push(Tok::Op(VERIFY)),
            }
        }
        NonZero(x) => {
            out.push(Tok::Op(SIZE));
            out.push(Tok::Op(ZERO_NOT_EQUAL));
            out.push(Tok::Op(IF));
            encode_toks(x, env, out);
            out.push(Tok::Op(ENDIF));
        }
        ZeroNotEqual(x) => {
            encode_toks(x, env, out);
            out.push(Tok::Op(ZERO_NOT_EQUAL));
        }
        AndV(x, y) => {
            encode_toks(x, env, out);
            encode_toks(y, env, out);
        }
        AndB(x, y) => {
            encode_toks(x, env, out);
            encode_toks(y, env, out);
            out.push(Tok::Op(BOOLAND));
        }
        AndOr(x, y, z) => {
            encode_toks(x, env, out);
            out.push(Tok::Op(NOTIF));
            encode_toks(z, env, out);
            out.push(Tok::Op(ELSE));
            encode_toks(y, env, out);
            out.push(Tok::Op(ENDIF));
        }
        OrB(x, z) => {
            encode_toks(x, env, out);
            encode_toks(z, env, out);
            out.push(Tok::Op(BOOLOR));
        }
        OrC(x, z) => {
            encode_toks(x, env, out);
            out.push(Tok::Op(NOTIF));
            encode_toks(z, env, out);
            out.push(Tok::Op(ENDIF));
        }
        OrD(x, z) => {
            encode_toks(x, env, out);
            out.push(Tok::Op(IFDUP));
            out.push(Tok::Op(NOTIF));
            encode_toks(z, env, out);
            out.push(Tok::Op(ENDIF));
        }
        OrI(x, z) => {
            out.push(Tok::Op(IF));
            encode_toks(x, env, out);
            out.push(Tok::Op(ELSE));
            encode_toks(z, env, out);
            out.push(Tok::Op(ENDIF));
        }
        Thresh(k, v) => {
            for (i, c) in v.iter().enumerate() {
                encode_toks(c, env, out);
                if i > 0 {
                    out.push(Tok::Op(ADD));
                }
            }
            out.push(Tok::Num(*k as i64));
            out.push(Tok::Op(EQUAL));
        }
        Multi(k, ks) | SortedMulti(k, ks) => {
            let mut kk: Vec<(Vec<u8>, Vec<u8>)> = ks.iter().map(|l| (env.sort_key(l), env.key_bytes(l))).collect();
            if matches!(t, SortedMulti(..)) {
                kk.sort();
            }
            let kb: Vec<Vec<u8>> = kk.into_iter().map(|x| x.1).collect();
            out.push(Tok::Num(*k as i64));
            for b in kb {
                out.push(Tok::Push(b));
            }
            out.push(Tok::Num(ks.len() as i64));
            out.push(Tok::Op(CHECKMULTISIG));
        }
        MultiA(k, ks) | SortedMultiA(k, ks) => {
            let mut kb: Vec<Vec<u8>> = ks.iter().map(|l| env.key_bytes(l)).collect();
            if matches!(t, SortedMultiA(..)) {
                kb.sort();
            }
            for (i, b) in kb.into_iter().enumerate() {
                out.push(Tok::Push(b));
                out.push(Tok::Op(if i == 0 { CHECKSIG } else { CHECKSIGADD }));
            }
            out.push(Tok::Num(*k as i64));
            out.push(Tok::Op(NUMEQUAL));
        }
    }
}

pub fn scriptnum_bytes(n: i64) -> Vec<u8> {
    if n == 0 {
        return vec![];
    }
    let neg = n < 0;
    let mut abs = n.unsigned_abs();
    let mut v = vec![];
    while abs > 0 {
        v.push((abs & 0xff) as u8);
        abs >>= 8;
    }
    if v.last().unwrap() & 0x80 != 0 {
        v.push(if neg { 0x80 } else { 0 });
    } else if neg {
        *v.last_mut().unwrap() |= 0x80;
    }
    v
}

pub fn push_data_minimal(d: &[u8], out: &mut Vec<u8>) {
    // direct length-prefixed push (no OP_n conversion): used for data
    let n = d.len();
    if n < 0x4c {
        out.push(n as u8);
    } else if n <= 0xff {
        out.push(op::PUSHDATA1);
        out.push(n as u8);
    } else if n <= 0xffff {
        out.push(op::PUSHDATA2);
        out.extend_from_slice(&(n as u16).to_le_bytes());
    } else {
        out.push(op::PUSHDATA4);
        out.extend_from_slice(&(n as u32).to_le_bytes());
    }
    out.extend_from_slice(d);
}

pub fn serialize_toks(toks: &[Tok]) -> Vec<u8> {
    let mut out = vec![];
    for t in toks {
        match t {
            Tok::Op(o) => out.push(*o),
            Tok::Push(d) => push_data_minimal(d, &mut out),
            Tok::Num(n) => {
                if *n == 0 {
                    out.push(op::OP_0);
                } else if *n == -1 {
                    out.push(op::OP_1NEGATE);
                } else if (1..=16).contains(n) {
                    out.push(op::OP_1 + (*n as u8) - 1);
                } else {
                    push_data_minimal(&scriptnum_bytes(*n), &mut out);
                }
            }
        }
    }
    out
}

pub fn encode_ref(t: &T, env: &dyn EncEnv) -> Vec<u8> {
    let mut toks = vec![];
    encode_toks(t, env, &mut toks);
    serialize_toks(&toks)
}

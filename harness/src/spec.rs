//! The Miniscript specification's type tables (DESIGN.md Appendix B), written as plain
//! tables from the specification — not from the crate under test.

use miniscript::miniscript::types::{Base, Correctness, Dissat, Input, Malleability, Type};

#[derive(Clone, Copy, PartialEq, Eq, Hash, Debug, PartialOrd, Ord)]
pub struct ST {
    pub base: Base,
    pub z: bool,
    pub o: bool,
    pub n: bool,
    pub d: bool,
    pub u: bool,
    pub s: bool,
    pub f: bool,
    pub e: bool,
    pub m: bool,
}

impl ST {
    pub fn from_lib(t: &Type) -> ST {
        let (z, o, n) = match t.corr.input {
            Input::Zero => (true, false, false),
            Input::One => (false, true, false),
            Input::OneNonZero => (false, true, true),
            Input::Any => (false, false, false),
            Input::AnyNonZero => (false, false, true),
        };
        ST {
            base: t.corr.base,
            z,
            o,
            n,
            d: t.corr.dissatisfiable,
            u: t.corr.unit,
            s: t.mall.signed,
            f: t.mall.dissat == Dissat::None,
            e: t.mall.dissat == Dissat::Unique,
            m: t.mall.non_malleable,
        }
    }

    /// Properties of `self` (library) that `spec` does not grant.
    pub fn stronger_than(&self, spec: &ST) -> Vec<&'static str> {
        let mut v = vec![];
        macro_rules! chk {
            ($f:ident, $n:expr) => {
                if self.$f && !spec.$f {
                    v.push($n);
                }
            };
        }
        chk!(z, "z");
        chk!(o, "o");
        chk!(n, "n");
        chk!(d, "d");
        chk!(u, "u");
        chk!(s, "s");
        chk!(f, "f");
        chk!(e, "e");
        chk!(m, "m");
        v
    }

    pub fn weaker_than(&self, spec: &ST) -> Vec<&'static str> { spec.stronger_than(self) }

    pub fn letters(&self) -> String {
        let mut s = format!("{:?}", self.base);
        for (b, c) in [
            (self.z, 'z'),
            (self.o, 'o'),
            (self.n, 'n'),
            (self.d, 'd'),
            (self.u, 'u'),
            (self.s, 's'),
            (self.f, 'f'),
            (self.e, 'e'),
            (self.m, 'm'),
        ] {
            if b {
                s.push(c);
            }
        }
        s
    }

    /// The specification's sanity relations between properties.
    pub fn is_sane(&self) -> bool {
        let t = self;
        !(t.z && t.o)
            && !(t.n && t.z)
            && !(t.n && t.base == Base::W)
            && !(t.base == Base::V && t.d)
            && (t.base != Base::K || t.u)
            && !(t.base == Base::V && t.u)
            && !(t.e && t.f)
            && (!t.e || t.d)
            && !(t.base == Base::V && t.e)
            && !(t.d && t.f)
            && (t.base != Base::V || t.f)
            && (t.base != Base::K || t.s)
            && (!t.z || t.m)
            && !(t.base == Base::K && t.z)
    }
}

fn leaf(base: Base, props: &str) -> ST {
    let h = |c: char| props.contains(c);
    ST { base, z: h('z'), o: h('o'), n: h('n'), d: h('d'), u: h('u'), s: h('s'), f: h('f'), e: h('e'), m: h('m') }
}

#[derive(Clone, Copy, PartialEq, Eq, Debug, Hash, PartialOrd, Ord)]
pub enum Frag {
    False,
    True,
    PkK,
    PkH,
    Time,
    Hash,
    Multi,
    MultiA,
    Alt,
    Swap,
    Check,
    DupIf,
    Verify,
    NonZero,
    ZeroNotEqual,
    AndV,
    AndB,
    OrB,
    OrC,
    OrD,
    OrI,
    AndOr,
    Thresh,
}

/// The specification's typing rule. `None` = the combination is rejected.
pub fn spec_rule(frag: Frag, c: &[ST], k: usize, tapscript: bool) -> Option<ST> {
    use Base::*;
    let b = |cond: bool| cond;
    Some(match frag {
        Frag::False => leaf(B, "zudesm"),
        Frag::True => leaf(B, "zufm"),
        Frag::PkK => leaf(K, "onudesm"),
        Frag::PkH => leaf(K, "nudesm"),
        Frag::Time => leaf(B, "zfm"),
        Frag::Hash => leaf(B, "onudm"),
        Frag::Multi => leaf(B, "nudesm"),
        Frag::MultiA => leaf(B, "udesm"),
        Frag::Alt => {
            let x = c[0];
            if x.base != B {
                return None;
            }
            ST { base: W, z: false, o: false, n: false, d: x.d, u: x.u, s: x.s, f: x.f, e: x.e, m: x.m }
        }
        Frag::Swap => {
            let x = c[0];
            if !(x.base == B && x.o) {
                return None;
            }
            ST { base: W, z: false, o: false, n: false, d: x.d, u: x.u, s: x.s, f: x.f, e: x.e, m: x.m }
        }
        Frag::Check => {
            let x = c[0];
            if x.base != K {
                return None;
            }
            ST { base: B, z: false, o: x.o, n: x.n, d: x.d, u: true, s: true, f: x.f, e: x.e, m: x.m }
        }
        Frag::DupIf => {
            let x = c[0];
            if !(x.base == V && x.z) {
                return None;
            }
            ST { base: B, z: false, o: true, n: true, d: true, u: tapscript, s: x.s, f: false, e: x.f, m: x.m }
        }
        Frag::Verify => {
            let x = c[0];
            if x.base != B {
                return None;
            }
            ST { base: V, z: x.z, o: x.o, n: x.n, d: false, u: false, s: x.s, f: true, e: false, m: x.m }
        }
        Frag::NonZero => {
            let x = c[0];
            if !(x.base == B && x.n) {
                return None;
            }
            ST { base: B, z: false, o: x.o, n: true, d: true, u: x.u, s: x.s, f: false, e: x.f, m: x.m }
        }
        Frag::ZeroNotEqual => {
            let x = c[0];
            if x.base != B {
                return None;
            }
            ST { base: B, z: x.z, o: x.o, n: x.n, d: x.d, u: true, s: x.s, f: x.f, e: x.e, m: x.m }
        }
        Frag::AndV => {
            let (x, y) = (c[0], c[1]);
            if !(x.base == V && matches!(y.base, B | K | V)) {
                return None;
            }
            ST {
                base: y.base,
                z: x.z && y.z,
                o: (x.z && y.o) || (x.o && y.z),
                n: x.n || (x.z && y.n),
                d: false,
                u: y.u,
                s: x.s || y.s,
                f: x.s || y.f,
                e: false,
                m: x.m && y.m,
            }
        }
        Frag::AndB => {
            let (x, y) = (c[0], c[1]);
            if !(x.base == B && y.base == W) {
                return None;
            }
            ST {
                base: B,
                z: x.z && y.z,
                o: (x.z && y.o) || (x.o && y.z),
                n: x.n || (x.z && y.n),
                d: x.d && y.d,
                u: true,
                s: x.s || y.s,
                f: (x.f && y.f) || (x.s && x.f) || (y.s && y.f),
                e: x.e && y.e && x.s && y.s,
                m: x.m && y.m,
            }
        }
        Frag::OrB => {
            let (x, z) = (c[0], c[1]);
            if !(x.base == B && x.d && z.base == W && z.d) {
                return None;
            }
            ST {
                base: B,
                z: x.z && z.z,
                o: (x.z && z.o) || (x.o && z.z),
                n: false,
                d: true,
                u: true,
                s: x.s && z.s,
                f: false,
                e: x.e && z.e,
                m: x.m && z.m && x.e && z.e && (x.s || z.s),
            }
        }
        Frag::OrC => {
            let (x, z) = (c[0], c[1]);
            if !(x.base == B && x.d && x.u && z.base == V) {
                return None;
            }
            ST {
                base: V,
                z: x.z && z.z,
                o: x.o && z.z,
                n: false,
                d: false,
                u: false,
                s: x.s && z.s,
                f: true,
                e: false,
                m: x.m && z.m && x.e && (x.s || z.s),
            }
        }
        Frag::OrD => {
            let (x, z) = (c[0], c[1]);
            if !(x.base == B && x.d && x.u && z.base == B) {
                return None;
            }
            ST {
                base: B,
                z: x.z && z.z,
                o: x.o && z.z,
                n: false,
                d: z.d,
                u: z.u,
                s: x.s && z.s,
                f: z.f,
                e: z.e,
                m: x.m && z.m && x.e && (x.s || z.s),
            }
        }
        Frag::OrI => {
            let (x, z) = (c[0], c[1]);
            if !(x.base == z.base && matches!(x.base, B | K | V)) {
                return None;
            }
            ST {
                base: x.base,
                z: false,
                o: x.z && z.z,
                n: false,
                d: x.d || z.d,
                u: x.u && z.u,
                s: x.s && z.s,
                f: x.f && z.f,
                e: (x.e && z.f) || (x.f && z.e),
                m: x.m && z.m && (x.s || z.s),
            }
        }
        Frag::AndOr => {
            let (x, y, z) = (c[0], c[1], c[2]);
            if !(x.base == B && x.d && x.u && y.base == z.base && matches!(y.base, B | K | V)) {
                return None;
            }
            ST {
                base: y.base,
                z: x.z && y.z && z.z,
                o: (x.z && y.o && z.o) || (x.o && y.z && z.z),
                n: false,
                d: z.d,
                u: y.u && z.u,
                s: z.s && (x.s || y.s),
                f: z.f && (x.s || y.f),
                e: z.e && (x.s || y.f),
                m: x.m && y.m && z.m && x.e && (x.s || y.s || z.s),
            }
        }
        Frag::Thresh => {
            let n = c.len();
            if k < 1 || k > n {
                return None;
            }
            let mut args = 0;
            let mut all_e = true;
            let mut all_m = true;
            let mut num_s = 0;
            for (i, t) in c.iter().enumerate() {
                let want = if i == 0 { B } else { W };
                if !(t.base == want && t.d && t.u) {
                    return None;
                }
                all_e &= t.e;
                all_m &= t.m;
                num_s += t.s as usize;
                args += if t.z {
                    0
                } else if t.o {
                    1
                } else {
                    2
                };
            }
            ST {
                base: B,
                z: b(args == 0),
                o: b(args == 1),
                n: false,
                d: true,
                u: true,
                s: num_s + k >= n + 1,
                f: false,
                e: all_e && num_s == n,
                m: all_e && all_m && num_s + k >= n,
            }
        }
    })
}

pub fn all_lib_types() -> Vec<Type> {
    let mut v = vec![];
    for base in [Base::B, Base::K, Base::V, Base::W] {
        for input in [Input::Zero, Input::One, Input::Any, Input::OneNonZero, Input::AnyNonZero] {
            for d in [false, true] {
                for u in [false, true] {
                    for dissat in [Dissat::None, Dissat::Unique, Dissat::Unknown] {
                        for signed in [false, true] {
                            for nm in [false, true] {
                                v.push(Type {
                                    corr: Correctness { base, input, dissatisfiable: d, unit: u },
                                    mall: Malleability { dissat, signed, non_malleable: nm },
                                });
                            }
                        }
                    }
                }
            }
        }
    }
    v
}

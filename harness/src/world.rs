//! Worlds (what the caller holds), real transactions, signing, and the
//! `Satisfier` the library is given.

use std::cell::RefCell;
use std::collections::{BTreeSet, HashMap};

use bitcoin::absolute::LockTime;
use bitcoin::hashes::Hash;
use bitcoin::taproot::TapLeafHash;
use bitcoin::{
    absolute, relative, Amount, OutPoint, ScriptBuf, Sequence, Transaction, TxIn, TxOut, Txid, Witness,
};
use miniscript::{MiniscriptKey, Satisfier, ToPublicKey};
use secp256k1::{Message, SECP256K1};

use crate::keys::{hash_bytes, key_by_bytes, key_by_hash160, preimage, KeyInfo};
use crate::rsm::{ecdsa_digest, taproot_digest, taproot_tweak, Checker, SigVer, Spend, TxChecker};

#[derive(Clone, Debug, PartialEq, Eq, PartialOrd, Ord, Hash)]
pub struct World {
    /// labels of keys whose signatures are available
    pub sigs: BTreeSet<String>,
    /// hash labels whose preimage is available
    pub pre: BTreeSet<String>,
    pub locktime: u32,
    pub sequence: u32,
}

impl World {
    pub fn json(&self) -> serde_json::Value {
        serde_json::json!({"sigs": self.sigs, "preimages": self.pre, "nLockTime": self.locktime, "nSequence": self.sequence})
    }
    pub fn short(&self) -> String {
        format!(
            "S={{{}}} P={{{}}} lt={} seq={:#x}",
            self.sigs.iter().cloned().collect::<Vec<_>>().join(","),
            self.pre.iter().cloned().collect::<Vec<_>>().join(","),
            self.locktime,
            self.sequence
        )
    }
}

pub const TYPE_FLAG: u32 = 1 << 22;
pub const DISABLE_FLAG: u32 = 1 << 31;

/// (nLockTime values, nSequence values) around the given locks.
pub fn lock_grid(afters: &[u32], olders: &[u32], thorough: bool) -> (Vec<u32>, Vec<u32>) {
    let mut lts: BTreeSet<u32> = BTreeSet::new();
    lts.insert(0);
    for a in afters {
        lts.insert(a - 1);
        lts.insert(*a);
        if thorough {
            lts.insert(a + 1);
        }
    }
    if afters.iter().any(|a| *a < 500_000_000) {
        lts.insert(500_000_100);
    }
    if afters.iter().any(|a| *a >= 500_000_000) {
        lts.insert(100);
    }
    let mut seqs: BTreeSet<u32> = BTreeSet::new();
    seqs.insert(0xffff_fffe);
    if !afters.is_empty() {
        seqs.insert(0xffff_ffff);
    }
    for r in olders {
        seqs.insert(r - 1);
        seqs.insert(*r);
        seqs.insert(r ^ TYPE_FLAG);
        // the effective value (16 bits + type flag) below / at the lock, with a bit set that BIP 68
        // ignores: raw comparison and effective comparison disagree
        let eff = r & (0xffff | TYPE_FLAG);
        if eff & 0xffff > 0 {
            seqs.insert((eff - 1) | 0x0001_0000);
            seqs.insert(eff | 0x0001_0000);
            seqs.insert(eff - 1);
            seqs.insert(eff);
        }
        if thorough {
            seqs.insert(r + 1);
            seqs.insert(r | DISABLE_FLAG);
        }
    }
    if !olders.is_empty() {
        seqs.insert(0xffff_ffff);
    }
    (lts.into_iter().collect(), seqs.into_iter().collect())
}

pub fn subsets(items: &[String], max_all: usize) -> Vec<BTreeSet<String>> {
    let n = items.len();
    let mut out = vec![];
    if n <= max_all {
        for m in 0..(1u32 << n) {
            out.push((0..n).filter(|i| m & (1 << i) != 0).map(|i| items[i].clone()).collect());
        }
    } else {
        // sizes 0,1,n-1,n completely
        out.push(BTreeSet::new());
        for i in 0..n {
            out.push([items[i].clone()].into_iter().collect());
            out.push(items.iter().enumerate().filter(|(j, _)| *j != i).map(|(_, x)| x.clone()).collect());
        }
        out.push(items.iter().cloned().collect());
        // every contiguous window (in label order) of every size: the first k, the last k, ...
        for size in 2..n - 1 {
            for start in 0..=(n - size) {
                out.push(items[start..start + size].iter().cloned().collect());
            }
        }
        // every pair (2-of-n spends, two leaves of a wide tree)
        for i in 0..n {
            for j in i + 1..n {
                out.push([items[i].clone(), items[j].clone()].into_iter().collect());
            }
        }
        out.sort();
        out.dedup();
    }
    out
}

/// All worlds for given distinct key labels, hash labels and locks.
pub fn worlds(keys: &[String], hashes: &[String], afters: &[u32], olders: &[u32], thorough: bool) -> Vec<World> {
    let mut ks: Vec<String> = keys.to_vec();
    ks.sort();
    ks.dedup();
    let mut hs: Vec<String> = hashes.to_vec();
    hs.sort();
    hs.dedup();
    let (lts, seqs) = lock_grid(afters, olders, thorough);
    let ksub = subsets(&ks, 6);
    let hsub = subsets(&hs, 3);
    let mut out = vec![];
    for s in &ksub {
        for p in &hsub {
            for lt in &lts {
                for sq in &seqs {
                    out.push(World { sigs: s.clone(), pre: p.clone(), locktime: *lt, sequence: *sq });
                }
            }
        }
    }
    out
}

pub const PREV_VALUE: u64 = 100_000;

pub fn make_spend(spk: ScriptBuf, locktime: u32, sequence: u32) -> Spend {
    let prev_txid = Txid::from_byte_array([0x11; 32]);
    let tx = Transaction {
        version: bitcoin::transaction::Version(2),
        lock_time: LockTime::from_consensus(locktime),
        input: vec![TxIn {
            previous_output: OutPoint { txid: prev_txid, vout: 1 },
            script_sig: ScriptBuf::new(),
            sequence: Sequence(sequence),
            witness: Witness::new(),
        }],
        output: vec![TxOut {
            value: Amount::from_sat(90_000),
            script_pubkey: ScriptBuf::from_bytes(vec![0x51]),
        }],
    };
    Spend { tx, idx: 0, prevouts: vec![TxOut { value: Amount::from_sat(PREV_VALUE), script_pubkey: spk }] }
}

#[derive(Clone, Debug)]
pub enum SignCtx {
    Ecdsa { script_code: Vec<u8>, sigver: SigVer },
    Taproot { merkle_root: Option<[u8; 32]>, internal_x: [u8; 32] },
}

thread_local! {
    static SIGCACHE: RefCell<HashMap<(Vec<u8>, [u8; 32], u8), Vec<u8>>> = RefCell::new(HashMap::new());
}

pub fn sign_ecdsa(k: &KeyInfo, digest: [u8; 32], hashtype: u8) -> Vec<u8> {
    let ck = (k.sk.secret_bytes().to_vec(), digest, hashtype);
    if let Some(v) = SIGCACHE.with(|c| c.borrow().get(&ck).cloned()) {
        return v;
    }
    // the largest standard signature: 33-byte R and 32-byte low S (71 bytes DER + sighash byte), found
    // by a deterministic nonce-data counter, so that measured sizes are as close to the static
    // worst case (73) as a standard signature gets
    let msg = Message::from_digest(digest);
    let mut sig = SECP256K1.sign_ecdsa(&msg, &k.sk);
    let mut ctr = 0u32;
    let grind = std::env::var("MSVERIF_NO_GRIND").is_err();
    while grind && sig.serialize_der().len() != 71 && ctr < 64 {
        let mut nd = [0u8; 32];
        nd[..4].copy_from_slice(&ctr.to_le_bytes());
        sig = SECP256K1.sign_ecdsa_with_noncedata(&msg, &k.sk, &nd);
        ctr += 1;
    }
    let mut v = sig.serialize_der().to_vec();
    v.push(hashtype);
    SIGCACHE.with(|c| {
        let mut c = c.borrow_mut();
        if c.len() > 200_000 {
            c.clear();
        }
        c.insert(ck, v.clone())
    });
    v
}

pub fn sign_schnorr_kp(kp: &secp256k1::Keypair, digest: [u8; 32], hashtype: u8) -> Vec<u8> {
    let ck = (kp.secret_bytes().to_vec(), digest, 0x80 | hashtype);
    if let Some(v) = SIGCACHE.with(|c| c.borrow().get(&ck).cloned()) {
        return v;
    }
    let sig = SECP256K1.sign_schnorr_no_aux_rand(&Message::from_digest(digest), kp);
    let mut v = sig.as_ref().to_vec();
    if hashtype != 0 {
        v.push(hashtype);
    }
    SIGCACHE.with(|c| {
        let mut c = c.borrow_mut();
        if c.len() > 200_000 {
            c.clear();
        }
        c.insert(ck, v.clone())
    });
    v
}

/// ECDSA signature (DER + SIGHASH_ALL) of key `k` for this spend.
pub fn ecdsa_sig_for(k: &KeyInfo, spend: &Spend, script_code: &[u8], sigver: SigVer) -> Vec<u8> {
    let d = ecdsa_digest(spend, script_code, sigver, 1);
    sign_ecdsa(k, d, 1)
}

/// Schnorr script-path signature.
pub fn schnorr_leaf_sig_for(k: &KeyInfo, spend: &Spend, leaf: TapLeafHash, hashtype: u8) -> Vec<u8> {
    let d = taproot_digest(spend, Some(leaf), hashtype).expect("digest");
    sign_schnorr_kp(&k.keypair, d, hashtype)
}

/// Schnorr key-path signature with the BIP341 tweak.
pub fn schnorr_key_sig_for(k: &KeyInfo, spend: &Spend, merkle_root: Option<[u8; 32]>, hashtype: u8) -> Vec<u8> {
    let d = taproot_digest(spend, None, hashtype).expect("digest");
    // tweak = H_TapTweak(P || root)
    let mut data = k.x32();
    if let Some(r) = merkle_root {
        data.extend_from_slice(&r);
    }
    let t = crate::rsm::tagged_hash("TapTweak", &data);
    let scalar = secp256k1::Scalar::from_be_bytes(t).expect("tweak in range");
    let tweaked = k.keypair.add_xonly_tweak(SECP256K1, &scalar).expect("tweak");
    sign_schnorr_kp(&tweaked, d, hashtype)
}

#[derive(Clone, Copy, PartialEq, Eq, Debug)]
pub enum SignCap {
    All,
    /// taproot: script-path signatures only
    NoKeySpend,
    /// taproot: only for this leaf (and no key spend)
    OnlyLeaf(TapLeafHash),
    EcdsaOnly,
}

/// The satisfier the library sees: answers only from the world.
pub struct WorldSat<'a> {
    pub world: &'a World,
    pub spend: &'a Spend,
    pub sign: &'a SignCtx,
    /// produce 65-byte schnorr signatures with explicit SIGHASH_ALL
    pub schnorr_all: bool,
    /// claim every time lock is met (used only to fabricate adversarial interpreter inputs)
    pub lie_locks: bool,
    /// signing capability restriction (mirrors plan::CanSign)
    pub cap: SignCap,
}

impl<'a> WorldSat<'a> {
    fn have(&self, k: &KeyInfo) -> bool { self.world.sigs.contains(&k.label) }

    fn ecdsa(&self, k: &KeyInfo) -> Option<bitcoin::ecdsa::Signature> {
        if !self.have(k) {
            return None;
        }
        match self.sign {
            SignCtx::Ecdsa { script_code, sigver } => {
                let raw = ecdsa_sig_for(k, self.spend, script_code, *sigver);
                bitcoin::ecdsa::Signature::from_slice(&raw).ok()
            }
            _ => None,
        }
    }

    fn find_pre(&self, kind: char, h: &[u8]) -> Option<[u8; 32]> {
        for l in &self.world.pre {
            if hash_bytes(kind, l) == h {
                return Some(preimage(l));
            }
        }
        None
    }

    fn chk(&self) -> TxChecker<'a> { TxChecker::new(self.spend, vec![], None) }
}

impl<'a, Pk: MiniscriptKey + ToPublicKey> Satisfier<Pk> for WorldSat<'a> {
    fn lookup_ecdsa_sig(&self, pk: &Pk) -> Option<bitcoin::ecdsa::Signature> {
        let b = pk.to_public_key().to_bytes();
        let k = key_by_bytes(&b)?;
        self.ecdsa(k)
    }

    fn lookup_tap_key_spend_sig(&self, pk: &Pk) -> Option<bitcoin::taproot::Signature> {
        let x = pk.to_x_only_pubkey().serialize();
        let k = key_by_bytes(&x)?;
        if !self.have(k) || self.cap != SignCap::All {
            return None;
        }
        match self.sign {
            SignCtx::Taproot { merkle_root, internal_x } if *internal_x == x => {
                let ht = if self.schnorr_all { 1 } else { 0 };
                let raw = schnorr_key_sig_for(k, self.spend, *merkle_root, ht);
                bitcoin::taproot::Signature::from_slice(&raw).ok()
            }
            _ => None,
        }
    }

    fn lookup_tap_leaf_script_sig(&self, pk: &Pk, leaf: &TapLeafHash) -> Option<bitcoin::taproot::Signature> {
        let x = pk.to_x_only_pubkey().serialize();
        let k = key_by_bytes(&x)?;
        if !self.have(k) {
            return None;
        }
        match self.cap {
            SignCap::EcdsaOnly => return None,
            SignCap::OnlyLeaf(l) if l != *leaf => return None,
            _ => {}
        }
        match self.sign {
            SignCtx::Taproot { .. } => {
                let ht = if self.schnorr_all { 1 } else { 0 };
                let raw = schnorr_leaf_sig_for(k, self.spend, *leaf, ht);
                bitcoin::taproot::Signature::from_slice(&raw).ok()
            }
            _ => None,
        }
    }

    fn lookup_raw_pkh_pk(&self, h: &bitcoin::hashes::hash160::Hash) -> Option<bitcoin::PublicKey> {
        let (_, ser) = key_by_hash160(&h.to_byte_array())?;
        bitcoin::PublicKey::from_slice(&ser).ok()
    }

    fn lookup_raw_pkh_x_only_pk(
        &self,
        h: &bitcoin::hashes::hash160::Hash,
    ) -> Option<bitcoin::secp256k1::XOnlyPublicKey> {
        let (_, ser) = key_by_hash160(&h.to_byte_array())?;
        bitcoin::secp256k1::XOnlyPublicKey::from_slice(&ser).ok()
    }

    fn lookup_raw_pkh_ecdsa_sig(
        &self,
        h: &bitcoin::hashes::hash160::Hash,
    ) -> Option<(bitcoin::PublicKey, bitcoin::ecdsa::Signature)> {
        let (k, ser) = key_by_hash160(&h.to_byte_array())?;
        let pk = bitcoin::PublicKey::from_slice(&ser).ok()?;
        Some((pk, self.ecdsa(k)?))
    }

    fn lookup_raw_pkh_tap_leaf_script_sig(
        &self,
        hl: &(bitcoin::hashes::hash160::Hash, TapLeafHash),
    ) -> Option<(bitcoin::secp256k1::XOnlyPublicKey, bitcoin::taproot::Signature)> {
        let (k, ser) = key_by_hash160(&hl.0.to_byte_array())?;
        let x = bitcoin::secp256k1::XOnlyPublicKey::from_slice(&ser).ok()?;
        if !self.have(k) {
            return None;
        }
        let ht = if self.schnorr_all { 1 } else { 0 };
        let raw = schnorr_leaf_sig_for(k, self.spend, hl.1, ht);
        Some((x, bitcoin::taproot::Signature::from_slice(&raw).ok()?))
    }

    fn lookup_sha256(&self, h: &Pk::Sha256) -> Option<[u8; 32]> {
        self.find_pre('s', &Pk::to_sha256(h).to_byte_array())
    }
    fn lookup_hash256(&self, h: &Pk::Hash256) -> Option<[u8; 32]> {
        self.find_pre('d', &Pk::to_hash256(h).to_byte_array())
    }
    fn lookup_ripemd160(&self, h: &Pk::Ripemd160) -> Option<[u8; 32]> {
        self.find_pre('r', &Pk::to_ripemd160(h).to_byte_array())
    }
    fn lookup_hash160(&self, h: &Pk::Hash160) -> Option<[u8; 32]> {
        self.find_pre('h', &Pk::to_hash160(h).to_byte_array())
    }

    fn check_older(&self, lt: relative::LockTime) -> bool {
        self.lie_locks || self.chk().check_sequence(lt.to_consensus_u32() as i64)
    }

    fn check_after(&self, lt: absolute::LockTime) -> bool {
        self.lie_locks || self.chk().check_locktime(lt.to_consensus_u32() as i64)
    }
}

/// Reference output key for a taproot descriptor: (x-only output key, parity).
pub fn ref_taproot_output(internal_x: &[u8; 32], merkle_root: Option<[u8; 32]>) -> ([u8; 32], u8) {
    taproot_tweak(internal_x, merkle_root.as_ref()).expect("valid tweak")
}

/// Reference merkle root of a DFS (depth, script) leaf list (leaf version 0xc0).
pub fn ref_merkle_root(leaves: &[(u8, Vec<u8>)]) -> Option<[u8; 32]> {
    if leaves.is_empty() {
        return None;
    }
    fn rec(leaves: &[(u8, Vec<u8>)], i: &mut usize, d: u8) -> [u8; 32] {
        if leaves[*i].0 == d {
            let h = crate::rsm::tapleaf_hash(0xc0, &leaves[*i].1);
            *i += 1;
            return h;
        }
        let l = rec(leaves, i, d + 1);
        let r = rec(leaves, i, d + 1);
        crate::rsm::tapbranch_hash(&l, &r)
    }
    let mut i = 0;
    Some(rec(leaves, &mut i, 0))
}

//! Boring model of concrete / semantic policies: `P`, walkers, builders, printers,
//! reference evaluator.

use std::collections::BTreeSet;
use std::sync::Arc;

use miniscript::policy::{Concrete, Semantic};
use miniscript::{AbsLockTime, RelLockTime, Threshold};

#[derive(Clone, PartialEq, Eq, Hash, PartialOrd, Ord, Debug)]
pub enum P {
    Unsat,
    Trivial,
    Key(String),
    After(u32),
    Older(u32),
    Sha256(String),
    Hash256(String),
    Ripemd160(String),
    Hash160(String),
    And(Vec<P>),
    Or(Vec<(usize, P)>),
    Thresh(usize, Vec<P>),
}

impl P {
    pub fn children(&self) -> Vec<&P> {
        match self {
            P::And(v) | P::Thresh(_, v) => v.iter().collect(),
            P::Or(v) => v.iter().map(|(_, p)| p).collect(),
            _ => vec![],
        }
    }
    pub fn size(&self) -> usize { 1 + self.children().iter().map(|c| c.size()).sum::<usize>() }
    /// The same policy with every key label mapped by `f`.
    pub fn map_keys(&self, f: &dyn Fn(&str) -> String) -> P {
        match self {
            P::Key(k) => P::Key(f(k)),
            P::And(v) => P::And(v.iter().map(|c| c.map_keys(f)).collect()),
            P::Or(v) => P::Or(v.iter().map(|(w, c)| (*w, c.map_keys(f))).collect()),
            P::Thresh(k, v) => P::Thresh(*k, v.iter().map(|c| c.map_keys(f)).collect()),
            o => o.clone(),
        }
    }
    pub fn n_leaves(&self) -> usize {
        let c = self.children();
        if c.is_empty() {
            1
        } else {
            c.iter().map(|c| c.n_leaves()).sum()
        }
    }

    pub fn sexpr(&self) -> String {
        match self {
            P::Unsat => "UNSATISFIABLE".into(),
            P::Trivial => "TRIVIAL".into(),
            P::Key(k) => format!("pk({})", k),
            P::After(n) => format!("after({})", n),
            P::Older(n) => format!("older({})", n),
            P::Sha256(h) => format!("sha256({})", h),
            P::Hash256(h) => format!("hash256({})", h),
            P::Ripemd160(h) => format!("ripemd160({})", h),
            P::Hash160(h) => format!("hash160({})", h),
            P::And(v) => format!("and({})", v.iter().map(|c| c.sexpr()).collect::<Vec<_>>().join(",")),
            P::Or(v) => format!(
                "or({})",
                v.iter().map(|(w, c)| format!("{}@{}", w, c.sexpr())).collect::<Vec<_>>().join(",")
            ),
            P::Thresh(k, v) => format!(
                "thresh({},{})",
                k,
                v.iter().map(|c| c.sexpr()).collect::<Vec<_>>().join(",")
            ),
        }
    }

    /// Reference text of a *semantic* policy as the docs describe it
    /// (k == n printed as and, k == 1 as or).
    pub fn print_semantic(&self) -> String {
        match self {
            P::Thresh(k, v) => {
                let inner = v.iter().map(|c| c.print_semantic()).collect::<Vec<_>>().join(",");
                if *k == v.len() {
                    format!("and({})", inner)
                } else if *k == 1 {
                    format!("or({})", inner)
                } else {
                    format!("thresh({},{})", k, inner)
                }
            }
            P::And(_) | P::Or(_) => panic!("not a semantic policy"),
            _ => self.sexpr(),
        }
    }

    pub fn atoms(&self) -> Vec<P> {
        let mut s = BTreeSet::new();
        fn rec(p: &P, s: &mut BTreeSet<P>) {
            let c = p.children();
            if c.is_empty() {
                if !matches!(p, P::Unsat | P::Trivial) {
                    s.insert(p.clone());
                }
            } else {
                for x in c {
                    rec(x, s);
                }
            }
        }
        rec(self, &mut s);
        s.into_iter().collect()
    }

    /// Truth value with each atom's truth given by `f`.
    pub fn eval(&self, f: &dyn Fn(&P) -> bool) -> bool {
        match self {
            P::Unsat => false,
            P::Trivial => true,
            P::And(v) => v.iter().all(|c| c.eval(f)),
            P::Or(v) => v.iter().any(|(_, c)| c.eval(f)),
            P::Thresh(k, v) => v.iter().filter(|c| c.eval(f)).count() >= *k,
            _ => f(self),
        }
    }

    pub fn keys(&self) -> Vec<String> {
        let mut out = vec![];
        fn rec(p: &P, out: &mut Vec<String>) {
            if let P::Key(k) = p {
                out.push(k.clone());
            }
            for c in p.children() {
                rec(c, out);
            }
        }
        rec(self, &mut out);
        out
    }

    // ---- real objects ----

    pub fn to_concrete(&self) -> Concrete<String> {
        match self {
            P::Unsat => Concrete::Unsatisfiable,
            P::Trivial => Concrete::Trivial,
            P::Key(k) => Concrete::Key(k.clone()),
            P::After(n) => Concrete::After(AbsLockTime::from_consensus(*n).unwrap()),
            P::Older(n) => Concrete::Older(RelLockTime::from_consensus(*n).unwrap()),
            P::Sha256(h) => Concrete::Sha256(h.clone()),
            P::Hash256(h) => Concrete::Hash256(h.clone()),
            P::Ripemd160(h) => Concrete::Ripemd160(h.clone()),
            P::Hash160(h) => Concrete::Hash160(h.clone()),
            P::And(v) => Concrete::And(v.iter().map(|c| Arc::new(c.to_concrete())).collect()),
            P::Or(v) => Concrete::Or(v.iter().map(|(w, c)| (*w, Arc::new(c.to_concrete()))).collect()),
            P::Thresh(k, v) => Concrete::Thresh(
                Threshold::new(*k, v.iter().map(|c| Arc::new(c.to_concrete())).collect()).unwrap(),
            ),
        }
    }

    pub fn to_semantic(&self) -> Semantic<String> {
        match self {
            P::Unsat => Semantic::Unsatisfiable,
            P::Trivial => Semantic::Trivial,
            P::Key(k) => Semantic::Key(k.clone()),
            P::After(n) => Semantic::After(AbsLockTime::from_consensus(*n).unwrap()),
            P::Older(n) => Semantic::Older(RelLockTime::from_consensus(*n).unwrap()),
            P::Sha256(h) => Semantic::Sha256(h.clone()),
            P::Hash256(h) => Semantic::Hash256(h.clone()),
            P::Ripemd160(h) => Semantic::Ripemd160(h.clone()),
            P::Hash160(h) => Semantic::Hash160(h.clone()),
            P::Thresh(k, v) => Semantic::Thresh(
                Threshold::new(*k, v.iter().map(|c| Arc::new(c.to_semantic())).collect()).unwrap(),
            ),
            P::And(_) | P::Or(_) => panic!("not a semantic policy"),
        }
    }
}

pub fn walk_concrete<Pk: miniscript::MiniscriptKey>(p: &Concrete<Pk>) -> P {
    match p {
        Concrete::Unsatisfiable => P::Unsat,
        Concrete::Trivial => P::Trivial,
        Concrete::Key(k) => P::Key(k.to_string()),
        Concrete::After(n) => P::After(n.to_consensus_u32()),
        Concrete::Older(n) => P::Older(n.to_consensus_u32()),
        Concrete::Sha256(h) => P::Sha256(h.to_string()),
        Concrete::Hash256(h) => P::Hash256(h.to_string()),
        Concrete::Ripemd160(h) => P::Ripemd160(h.to_string()),
        Concrete::Hash160(h) => P::Hash160(h.to_string()),
        Concrete::And(v) => P::And(v.iter().map(|c| walk_concrete(c)).collect()),
        Concrete::Or(v) => P::Or(v.iter().map(|(w, c)| (*w, walk_concrete(c))).collect()),
        Concrete::Thresh(t) => P::Thresh(t.k(), t.data().iter().map(|c| walk_concrete(c)).collect()),
    }
}

pub fn walk_semantic<Pk: miniscript::MiniscriptKey>(p: &Semantic<Pk>) -> P {
    match p {
        Semantic::Unsatisfiable => P::Unsat,
        Semantic::Trivial => P::Trivial,
        Semantic::Key(k) => P::Key(k.to_string()),
        Semantic::After(n) => P::After(n.to_consensus_u32()),
        Semantic::Older(n) => P::Older(n.to_consensus_u32()),
        Semantic::Sha256(h) => P::Sha256(h.to_string()),
        Semantic::Hash256(h) => P::Hash256(h.to_string()),
        Semantic::Ripemd160(h) => P::Ripemd160(h.to_string()),
        Semantic::Hash160(h) => P::Hash160(h.to_string()),
        Semantic::Thresh(t) => P::Thresh(t.k(), t.data().iter().map(|c| walk_semantic(c)).collect()),
    }
}

/// All semantic policies with exactly `n` nodes over `atoms`, thresh arity <= max_arity.
pub fn enum_semantic(max_nodes: usize, atoms: &[P], max_arity: usize) -> Vec<Vec<P>> {
    let mut levels: Vec<Vec<P>> = vec![vec![], atoms.to_vec()];
    for n in 2..=max_nodes {
        let mut cur = vec![];
        // thresh with children sizes summing to n-1
        for arity in 1..=max_arity.min(n - 1) {
            let mut parts = vec![];
            compositions(n - 1, arity, &mut vec![], &mut parts);
            for comp in parts {
                let mut combos: Vec<Vec<P>> = vec![vec![]];
                for sz in &comp {
                    let mut next = vec![];
                    for c in &combos {
                        for p in &levels[*sz] {
                            let mut c2 = c.clone();
                            c2.push(p.clone());
                            next.push(c2);
                        }
                    }
                    combos = next;
                }
                for ch in combos {
                    for k in 1..=arity {
                        cur.push(P::Thresh(k, ch.clone()));
                    }
                }
            }
        }
        levels.push(cur);
    }
    levels
}

pub fn compositions(total: usize, parts: usize, cur: &mut Vec<usize>, out: &mut Vec<Vec<usize>>) {
    if parts == 0 {
        if total == 0 {
            out.push(cur.clone());
        }
        return;
    }
    for first in 1..=total {
        if total - first < parts - 1 {
            break;
        }
        cur.push(first);
        compositions(total - first, parts - 1, cur, out);
        cur.pop();
    }
}

/// All concrete policies with exactly n leaves (and/or binary, weights from `weights`,
/// thresh arity 2..=max_thresh), leaves drawn by position from `leaf_gen(i)` afterwards.
/// Leaves are placeholders `Key("?")` replaced by caller.
pub fn enum_concrete_shapes(n_leaves: usize, weights: &[(usize, usize)], max_thresh: usize) -> Vec<Vec<P>> {
    let hole = P::Key("?".into());
    let mut levels: Vec<Vec<P>> = vec![vec![], vec![hole]];
    for n in 2..=n_leaves {
        let mut cur = vec![];
        for a in 1..n {
            let b = n - a;
            for x in &levels[a] {
                for y in &levels[b] {
                    cur.push(P::And(vec![x.clone(), y.clone()]));
                    for (w1, w2) in weights {
                        cur.push(P::Or(vec![(*w1, x.clone()), (*w2, y.clone())]));
                    }
                }
            }
        }
        for arity in 2..=max_thresh.min(n) {
            let mut parts = vec![];
            compositions(n, arity, &mut vec![], &mut parts);
            for comp in parts {
                let mut combos: Vec<Vec<P>> = vec![vec![]];
                for sz in &comp {
                    let mut next = vec![];
                    for c in &combos {
                        for p in &levels[*sz] {
                            let mut c2 = c.clone();
                            c2.push(p.clone());
                            next.push(c2);
                        }
                    }
                    combos = next;
                }
                for ch in combos {
                    for k in 1..=arity {
                        cur.push(P::Thresh(k, ch.clone()));
                    }
                }
            }
        }
        levels.push(cur);
    }
    levels
}

/// Replace the i-th hole (left to right) by leaves[i].
pub fn fill_holes(shape: &P, leaves: &[P]) -> P {
    fn rec(p: &P, leaves: &[P], i: &mut usize) -> P {
        match p {
            P::Key(k) if k == "?" => {
                let l = leaves[*i].clone();
                *i += 1;
                l
            }
            P::And(v) => P::And(v.iter().map(|c| rec(c, leaves, i)).collect()),
            P::Or(v) => P::Or(v.iter().map(|(w, c)| (*w, rec(c, leaves, i))).collect()),
            P::Thresh(k, v) => P::Thresh(*k, v.iter().map(|c| rec(c, leaves, i)).collect()),
            other => other.clone(),
        }
    }
    let mut i = 0;
    rec(shape, leaves, &mut i)
}

//! Fixed key / hash material derived deterministically from labels, and the
//! `Env` implementations mapping model labels to concrete keys.

use std::collections::HashMap;
use std::sync::{OnceLock, RwLock};

use bitcoin::bip32::{DerivationPath, Fingerprint};
use bitcoin::hashes::{hash160, ripemd160, sha256, sha256d, Hash};
use bitcoin::secp256k1::XOnlyPublicKey;
use miniscript::descriptor::{DescriptorPublicKey, SinglePub, SinglePubKey};
use miniscript::DefiniteDescriptorKey;
use secp256k1::{Keypair, SecretKey, SECP256K1};

use crate::ast::{EncEnv, Env};

#[derive(Clone)]
pub struct KeyInfo {
    pub label: String,
    pub sk: SecretKey,
    pub keypair: Keypair,
    pub pk: secp256k1::PublicKey,
    pub xonly: XOnlyPublicKey,
    pub fingerprint: Fingerprint,
}

impl KeyInfo {
    pub fn compressed(&self) -> Vec<u8> { self.pk.serialize().to_vec() }
    pub fn uncompressed(&self) -> Vec<u8> { self.pk.serialize_uncompressed().to_vec() }
    pub fn x32(&self) -> Vec<u8> { self.xonly.serialize().to_vec() }
}

struct Registry {
    by_label: HashMap<String, &'static KeyInfo>,
    /// any serialisation (33 / 65 / 32 bytes) -> label
    by_bytes: HashMap<Vec<u8>, &'static KeyInfo>,
    /// hash160 of any serialisation -> (label, serialisation)
    by_hash: HashMap<Vec<u8>, (&'static KeyInfo, Vec<u8>)>,
}

fn registry() -> &'static RwLock<Registry> {
    static R: OnceLock<RwLock<Registry>> = OnceLock::new();
    R.get_or_init(|| {
        RwLock::new(Registry { by_label: HashMap::new(), by_bytes: HashMap::new(), by_hash: HashMap::new() })
    })
}

pub fn key(label: &str) -> &'static KeyInfo {
    if let Some(k) = registry().read().unwrap().by_label.get(label) {
        return k;
    }
    let mut r = registry().write().unwrap();
    if let Some(k) = r.by_label.get(label) {
        return k;
    }
    let mut ctr = 0u32;
    let sk = loop {
        let h = sha256::Hash::hash(format!("msverif-key-{}-{}", label, ctr).as_bytes());
        if let Ok(sk) = SecretKey::from_slice(&h.to_byte_array()) {
            break sk;
        }
        ctr += 1;
    };
    let keypair = Keypair::from_secret_key(SECP256K1, &sk);
    let pk = secp256k1::PublicKey::from_secret_key(SECP256K1, &sk);
    let (xonly, _) = keypair.x_only_public_key();
    let fp = sha256::Hash::hash(format!("fp-{}", label).as_bytes()).to_byte_array();
    let info: &'static KeyInfo = Box::leak(Box::new(KeyInfo {
        label: label.to_string(),
        sk,
        keypair,
        pk,
        xonly,
        fingerprint: Fingerprint::from([fp[0], fp[1], fp[2], fp[3]]),
    }));
    r.by_label.insert(label.to_string(), info);
    for ser in [info.compressed(), info.uncompressed(), info.x32()] {
        r.by_hash.insert(hash160::Hash::hash(&ser).to_byte_array().to_vec(), (info, ser.clone()));
        r.by_bytes.insert(ser, info);
    }
    info
}

pub fn key_by_bytes(b: &[u8]) -> Option<&'static KeyInfo> {
    registry().read().unwrap().by_bytes.get(b).copied()
}

pub fn key_by_hash160(h: &[u8]) -> Option<(&'static KeyInfo, Vec<u8>)> {
    registry().read().unwrap().by_hash.get(h).cloned()
}

/// 32-byte preimage for a hash label.
pub fn preimage(label: &str) -> [u8; 32] {
    sha256::Hash::hash(format!("msverif-pre-{}", label).as_bytes()).to_byte_array()
}

/// Preimage bytes of a hash label; labels `RAW<hex>` commit to exactly those bytes (any length).
pub fn preimage_bytes(label: &str) -> Vec<u8> {
    match label.strip_prefix("RAW") {
        Some(h) => crate::common::unhex(h),
        None => preimage(label).to_vec(),
    }
}

pub fn hash_bytes(kind: char, label: &str) -> Vec<u8> {
    let p = preimage_bytes(label);
    match kind {
        's' => sha256::Hash::hash(&p).to_byte_array().to_vec(),
        'd' => sha256d::Hash::hash(&p).to_byte_array().to_vec(),
        'r' => ripemd160::Hash::hash(&p).to_byte_array().to_vec(),
        'h' => hash160::Hash::hash(&p).to_byte_array().to_vec(),
        _ => panic!("hash kind"),
    }
}

#[derive(Clone, Copy, PartialEq, Eq, Debug)]
pub enum KeyForm {
    Compressed,
    Uncompressed,
    XOnly,
    /// per key: labels ending in an odd digit are uncompressed, the others compressed
    Mixed,
    /// the opposite assignment
    MixedAlt,
}

/// The serialisation form of one key under a (possibly mixed) case form.
pub fn form_of(label: &str, form: KeyForm) -> KeyForm {
    match form {
        KeyForm::Mixed | KeyForm::MixedAlt => {
            let odd = label.bytes().last().map(|b| b.is_ascii_digit() && (b - b'0') % 2 == 1).unwrap_or(false);
            if odd == (form == KeyForm::Mixed) {
                KeyForm::Uncompressed
            } else {
                KeyForm::Compressed
            }
        }
        f => f,
    }
}

/// `bitcoin::PublicKey` keys.
pub struct PkEnv {
    pub form: KeyForm,
}

macro_rules! hash_env_impl {
    () => {
        fn sha256(&self, l: &str) -> sha256::Hash { sha256::Hash::from_slice(&hash_bytes('s', l)).unwrap() }
        fn hash256(&self, l: &str) -> miniscript::hash256::Hash {
            miniscript::hash256::Hash::from_slice(&hash_bytes('d', l)).unwrap()
        }
        fn ripemd160(&self, l: &str) -> ripemd160::Hash {
            ripemd160::Hash::from_slice(&hash_bytes('r', l)).unwrap()
        }
        fn hash160(&self, l: &str) -> hash160::Hash { hash160::Hash::from_slice(&hash_bytes('h', l)).unwrap() }
    };
}

impl Env<bitcoin::PublicKey> for PkEnv {
    fn pk(&self, l: &str) -> bitcoin::PublicKey {
        let k = key(l);
        match form_of(l, self.form) {
            KeyForm::Uncompressed => bitcoin::PublicKey::new_uncompressed(k.pk),
            _ => bitcoin::PublicKey::new(k.pk),
        }
    }
    hash_env_impl!();
}

pub struct XEnv;
impl Env<XOnlyPublicKey> for XEnv {
    fn pk(&self, l: &str) -> XOnlyPublicKey { key(l).xonly }
    hash_env_impl!();
}

/// `DefiniteDescriptorKey` single keys with origin `[fingerprint/7]`.
pub struct DefEnv {
    pub form: KeyForm,
    pub with_origin: bool,
}

impl Env<DefiniteDescriptorKey> for DefEnv {
    fn pk(&self, l: &str) -> DefiniteDescriptorKey {
        let k = key(l);
        let single = match form_of(l, self.form) {
            KeyForm::Uncompressed => SinglePubKey::FullKey(bitcoin::PublicKey::new_uncompressed(k.pk)),
            KeyForm::XOnly => SinglePubKey::XOnly(k.xonly),
            _ => SinglePubKey::FullKey(bitcoin::PublicKey::new(k.pk)),
        };
        let origin = if self.with_origin {
            Some((k.fingerprint, "m/7".parse::<DerivationPath>().unwrap()))
        } else {
            None
        };
        DefiniteDescriptorKey::new(DescriptorPublicKey::Single(SinglePub { origin, key: single })).unwrap()
    }
    hash_env_impl!();
}

/// Encoder environment (reference script encoder).
pub struct RefEnc {
    pub form: KeyForm,
}

impl EncEnv for RefEnc {
    fn key_bytes(&self, l: &str) -> Vec<u8> {
        let k = key(l);
        match form_of(l, self.form) {
            KeyForm::Uncompressed => k.uncompressed(),
            KeyForm::XOnly => k.x32(),
            _ => k.compressed(),
        }
    }
    fn key_hash(&self, l: &str) -> Vec<u8> {
        hash160::Hash::hash(&self.key_bytes(l)).to_byte_array().to_vec()
    }
    fn hash_bytes(&self, kind: char, l: &str) -> Vec<u8> { hash_bytes(kind, l) }
    fn sort_key(&self, l: &str) -> Vec<u8> {
        match self.form {
            KeyForm::XOnly => key(l).x32(),
            _ => key(l).compressed(),
        }
    }
}

//! C08 — compiled policies keep their meaning and are sane in the target context.

use std::collections::BTreeMap;
use std::str::FromStr;

use miniscript::policy::concrete::DescriptorCtx;
use miniscript::policy::Concrete;
use miniscript::{BareCtx, Descriptor, Legacy, Miniscript, ScriptContext, Segwitv0, Tap};
use rayon::prelude::*;
use serde_json::json;

use crate::ast::{build, walk, StrEnv, T};
use crate::c04::{own_lift, same_truth_table};
use crate::common::*;
use crate::desc::{walk_desc, D};
use crate::keys::KeyForm;
use crate::policy::{enum_concrete_shapes, fill_holes, P};
use crate::rsm::{Checker, TxChecker};
use crate::sat::{prepare, witness_exists};
use crate::terms::Cx;
use crate::world::{make_spend, worlds};

type Census = BTreeMap<&'static str, u64>;
fn bump(c: &mut Census, k: &'static str) { *c.entry(k).or_insert(0) += 1; }
fn merge(a: &mut Census, b: Census) {
    for (k, v) in b {
        *a.entry(k).or_insert(0) += v;
    }
}

/// the harness's lift of a term over LABELS (keys identified by label)
fn lift_labels(t: &T) -> P {
    // own_lift identifies keys by hash160(bytes); with the identity "bytes" it identifies by label
    let p = own_lift(t, &|s: &str| s.as_bytes().to_vec());
    p
}
fn policy_keyed(p: &P) -> P {
    // same key identification for the input policy
    use bitcoin::hashes::{hash160, Hash};
    match p {
        P::Key(k) => P::Key(hex(&hash160::Hash::hash(k.as_bytes()).to_byte_array())),
        P::And(v) => P::And(v.iter().map(policy_keyed).collect()),
        P::Or(v) => P::Or(v.iter().map(|(w, c)| (*w, policy_keyed(c))).collect()),
        P::Thresh(k, v) => P::Thresh(*k, v.iter().map(policy_keyed).collect()),
        o => o.clone(),
    }
}

fn forbidden_fragments(t: &T, ctx: &str) -> Option<&'static str> {
    for n in t.nodes() {
        match n {
            T::Multi(..) | T::SortedMulti(..) if ctx == "tap" => return Some("multi in tapscript"),
            T::MultiA(..) | T::SortedMultiA(..) if ctx != "tap" => return Some("multi_a outside tapscript"),
            T::DupIf(_) if ctx == "legacy" || ctx == "bare" => return Some("d: in pre-segwit context"),
            T::OrI(..) if ctx == "legacy" || ctx == "bare" => return Some("or_i in pre-segwit context"),
            _ => {}
        }
    }
    None
}

fn check_ms<Ctx: Cx>(rep: &Report, cen: &mut Census, pol: &P, ctx: &'static str, entry: &str, ms: &Miniscript<String, Ctx>, extra_false_key: Option<&str>) {
    let psx = pol.sexpr();
    let t = walk(ms);
    let mut viol = |class: &str, what: String| {
        rep.violation(Violation {
            key: format!("C08|{}|{}|{}|{}", class, entry, ctx, psx),
            class: format!("{}-{}", class, ctx),
            what,
            case: json!({"policy": psx, "entry": entry, "ctx": ctx, "compiled": ms.to_string()}),
        });
    };
    bump(cen, "compiled_miniscripts");
    // (1) meaning
    let mut lifted = lift_labels(&t);
    if let Some(k) = extra_false_key {
        let _ = k;
        lifted = lifted.clone();
    }
    if !same_truth_table(&policy_keyed(pol), &lifted) {
        viol("meaning-changed", format!("compiled {} has a different truth table than the policy", t.sexpr()));
    } else {
        bump(cen, "meaning_preserved");
    }
    // (2) sane in the target context
    if let Err(e) = ms.validate(&Ctx::SANE) {
        viol("not-sane", format!("compiler output fails validate(SANE): {}", e));
    }
    if !ms.requires_sig() || !ms.is_non_malleable() || !ms.within_resource_limits() || ms.has_mixed_timelocks() || ms.has_repeated_keys() {
        viol(
            "analysis-flags",
            format!(
                "requires_sig={} non_malleable={} within_limits={} mixed_timelocks={} repeated_keys={}",
                ms.requires_sig(),
                ms.is_non_malleable(),
                ms.within_resource_limits(),
                ms.has_mixed_timelocks(),
                ms.has_repeated_keys()
            ),
        );
    }
    if let Some(why) = forbidden_fragments(&t, ctx) {
        viol("forbidden-fragment", why.to_string());
    }
    // (3) stored type / ext of every node equals what from_ast computes
    match build::<String, Ctx>(&t, &StrEnv) {
        Ok(rebuilt) => {
            let a: Vec<_> = ms.iter().map(|n| (n.ty, n.ext)).collect();
            let b: Vec<_> = rebuilt.iter().map(|n| (n.ty, n.ext)).collect();
            if a != b {
                let i = a.iter().zip(b.iter()).position(|(x, y)| x != y).unwrap_or(0);
                viol("stored-type-differs", format!("node {} of the output carries ty/ext different from from_ast: {:?} vs {:?}", i, a.get(i), b.get(i)));
            } else {
                bump(cen, "types_rebuilt_equal");
            }
        }
        Err(e) => viol("output-ill-typed", format!("from_ast rejects the compiler output: {}", e)),
    }
    // (4) text round trip through the default (sane) parser
    match guard(|| Miniscript::<String, Ctx>::from_str(&ms.to_string())) {
        Ok(Ok(p2)) => {
            if walk(&p2) != t {
                viol("reparse-differs", format!("'{}' parses to {}", ms, walk(&p2).sexpr()));
            } else {
                bump(cen, "reparsed_equal");
            }
        }
        Ok(Err(e)) => viol("reparse-fails", format!("'{}' does not parse with the default parser: {}", ms, e)),
        Err(e) => viol("reparse-panics", e),
    }
}

fn eval_policy_in_world(p: &P, w: &crate::world::World, spend: &crate::rsm::Spend) -> bool {
    let chk = TxChecker::new(spend, vec![], None);
    p.eval(&|a: &P| match a {
        P::Key(k) => w.sigs.contains(k),
        P::After(n) => chk.check_locktime(*n as i64),
        P::Older(n) => chk.check_sequence(*n as i64),
        P::Sha256(h) | P::Hash256(h) | P::Ripemd160(h) | P::Hash160(h) => w.pre.contains(h),
        _ => false,
    })
}

fn check_desc(rep: &Report, cen: &mut Census, pol: &P, entry: &str, d: &Descriptor<String>, unspendable: Option<&str>, execute: bool, native: bool) {
    let psx = pol.sexpr();
    let model = walk_desc(d);
    let mut viol = |class: &str, what: String| {
        rep.violation(Violation {
            key: format!("C08|{}|{}|{}", class, entry, psx),
            class: format!("desc-{}-{}", class, entry),
            what,
            case: json!({"policy": psx, "entry": entry, "compiled": d.to_string()}),
        });
    };
    bump(cen, "compiled_descriptors");
    // meaning over labels: tr = or(internal key, leaves...), an unspendable internal key is false
    let lifted = match &model {
        D::Tr(ik, leaves) => {
            let mut alts: Vec<(usize, P)> = leaves.iter().map(|(_, t)| (1, lift_labels(t))).collect();
            if Some(ik.as_str()) != unspendable {
                alts.push((1, lift_labels(&T::PkK(ik.clone()))));
            }
            if alts.len() == 1 {
                alts.pop().unwrap().1
            } else if alts.is_empty() {
                P::Unsat
            } else {
                P::Or(alts)
            }
        }
        D::Bare(t) | D::Sh(t) | D::Wsh(t) | D::ShWsh(t) => lift_labels(t),
        D::Pkh(k) | D::Wpkh(k) | D::ShWpkh(k) => lift_labels(&T::PkK(k.clone())),
    };
    if !same_truth_table(&policy_keyed(pol), &lifted) {
        viol("meaning-changed", format!("compiled descriptor {} has a different truth table", model.sexpr()));
    } else {
        bump(cen, "meaning_preserved");
    }
    // every script sane; native leaves without IF
    for t in model.scripts() {
        let ok = match &model {
            D::Tr(..) => build::<String, Tap>(t, &StrEnv).map(|m| m.validate(&Tap::SANE).is_ok()).unwrap_or(false),
            D::Wsh(_) | D::ShWsh(_) => build::<String, Segwitv0>(t, &StrEnv).map(|m| m.validate(&Segwitv0::SANE).is_ok()).unwrap_or(false),
            D::Sh(_) => build::<String, Legacy>(t, &StrEnv).map(|m| m.validate(&Legacy::SANE).is_ok()).unwrap_or(false),
            D::Bare(_) => build::<String, BareCtx>(t, &StrEnv).map(|m| m.validate(&BareCtx::SANE).is_ok()).unwrap_or(false),
            _ => true,
        };
        if !ok {
            viol("script-not-sane", format!("script {} of the output is not sane in its context", t.sexpr()));
        }
        if native && t.nodes().iter().any(|n| matches!(n, T::OrI(..) | T::OrD(..) | T::OrC(..) | T::AndOr(..) | T::DupIf(_) | T::NonZero(_))) {
            viol("native-leaf-has-branch", format!("compile_tr_native leaf {} contains an IF/NOTIF fragment", t.sexpr()));
        }
    }
    // text round trip
    match guard(|| Descriptor::<String>::from_str(&d.to_string())) {
        Ok(Ok(d2)) => {
            if walk_desc(&d2) != model {
                viol("reparse-differs", "descriptor string parses to a different structure".into());
            } else {
                bump(cen, "reparsed_equal");
            }
        }
        Ok(Err(e)) => viol("reparse-fails", e.to_string()),
        Err(e) => viol("reparse-panics", e),
    }
    // execution: policy truth in every world == existence of a witness
    if execute {
        if let Ok(Ok(c)) = guard(|| prepare(&model, KeyForm::Compressed)) {
            let hl = c.hash_labels();
            for w in worlds(&c.keys, &hl, &c.afters, &c.olders, false) {
                if unspendable.map(|u| w.sigs.contains(u)).unwrap_or(false) {
                    continue;
                }
                let spend = make_spend(c.spk.clone(), w.locktime, w.sequence);
                let pol_true = eval_policy_in_world(pol, &w, &spend);
                let s = witness_exists(&c, &w, &spend, 300_000);
                if s.capped {
                    continue;
                }
                bump(cen, "worlds_executed");
                if pol_true != s.found.is_some() {
                    viol(
                        "execution-disagrees",
                        format!("world {}: policy is {} but witness existence is {}", w.short(), pol_true, s.found.is_some()),
                    );
                    break;
                }
            }
        }
    }
}

pub fn policies(n_leaves: usize) -> Vec<P> {
    let shapes = enum_concrete_shapes(n_leaves, &[(1, 1), (9, 1), (1, 9)], 4);
    let kinds = 6usize; // key, sha256, after(height), older(blocks), after(time), older(512 s units, same low bits as the block one)
    let mut out = vec![];
    for (nl, lv) in shapes.iter().enumerate() {
        for sh in lv {
            for code in 0..kinds.pow(nl as u32) {
                let mut c = code;
                let mut nk = 0;
                let mut nh = 0;
                let ls: Vec<P> = (0..nl)
                    .map(|_| {
                        let k = c % kinds;
                        c /= kinds;
                        match k {
                            0 => {
                                nk += 1;
                                P::Key(format!("K{}", nk))
                            }
                            1 => {
                                nh += 1;
                                P::Sha256(format!("H{}", nh))
                            }
                            2 => P::After(10),
                            3 => P::Older(5),
                            4 => P::After(500_000_010),
                            _ => P::Older(4_194_309),
                        }
                    })
                    .collect();
                out.push(fill_holes(sh, &ls));
            }
        }
    }
    out.sort();
    out.dedup();
    out
}

/// Larger policies of fixed shapes (beyond the exhaustive leaf bound): a small compound branch next
/// to a k-of-n key threshold (every k, n = 3..5) under every combinator and odds, and or-chains of
/// five and six keys. They exercise leaf enumeration / leaf caps and threshold handling of the
/// taproot compilers and the k-of-n special cases of the miniscript compiler.
pub fn large_policies() -> Vec<P> {
    let key = |i: usize| P::Key(format!("K{}", i));
    let xs: Vec<P> = vec![
        key(1),
        P::And(vec![key(1), key(2)]),
        P::And(vec![key(1), P::Older(5)]),
        P::Or(vec![(1, key(1)), (1, P::Sha256("H1".into()))]),
        P::And(vec![key(1), P::Sha256("H1".into())]),
    ];
    let mut out = vec![];
    // root-level thresholds of six and seven keys (leaf enumeration re-generates flushed sub-policies)
    for n in [6usize, 7] {
        for k in 1..=n {
            out.push(P::Thresh(k, (0..n).map(|i| key(10 + i)).collect()));
        }
        out.push(P::Or(vec![(1, key(1)), (1, P::Thresh(2, (0..n).map(|i| key(10 + i)).collect()))]));
    }
    for n in 3..=5usize {
        for k in 1..=n {
            let t = P::Thresh(k, (0..n).map(|i| key(10 + i)).collect());
            out.push(t.clone());
            for x in &xs {
                for (a, b) in [(1usize, 1usize), (9, 1), (1, 9)] {
                    out.push(P::Or(vec![(a, x.clone()), (b, t.clone())]));
                    out.push(P::Or(vec![(a, t.clone()), (b, x.clone())]));
                }
                out.push(P::And(vec![x.clone(), t.clone()]));
                if n == 3 {
                    out.push(P::Thresh(2, vec![x.clone(), t.clone(), key(20)]));
                    out.push(P::Thresh(1, vec![x.clone(), t.clone(), key(20)]));
                }
            }
        }
    }
    // two (and three) key branches each guarded by its own lock, every ordered pair of lock leaves of
    // both kinds and both units (the compiler caches sub-policies: equal-looking locks must stay distinct)
    let locks = [P::After(10), P::After(500_000_010), P::Older(5), P::Older(4_194_309), P::After(11), P::Older(6)];
    for l1 in &locks {
        for l2 in &locks {
            if l1 == l2 {
                continue;
            }
            let b1 = P::And(vec![key(1), l1.clone()]);
            let b2 = P::And(vec![key(2), l2.clone()]);
            for (a, b) in [(1usize, 1usize), (9, 1), (1, 9)] {
                out.push(P::Or(vec![(a, b1.clone()), (b, b2.clone())]));
            }
            out.push(P::Or(vec![(1, key(3)), (1, P::Or(vec![(1, b1.clone()), (1, b2.clone())]))]));
            out.push(P::Thresh(1, vec![b1.clone(), b2.clone(), key(3)]));
            out.push(P::Or(vec![(1, P::And(vec![key(1), P::Or(vec![(1, l1.clone()), (1, key(4))])])), (1, b2.clone())]));
        }
    }
    // a branch carrying TWO locks of one unit next to a branch locked in the other unit (same kind),
    // under even and strongly skewed odds: the compiler nests andor / and_v differently per odds and
    // per context, and each nesting has its own time-lock bookkeeping
    for (la, lb, lo) in [
        (P::Older(1), P::Older(2), P::Older(4_194_305)),
        (P::Older(4_194_305), P::Older(4_194_306), P::Older(1)),
        (P::After(10), P::After(11), P::After(500_000_010)),
        (P::After(500_000_010), P::After(500_000_011), P::After(10)),
    ] {
        let two = P::And(vec![P::And(vec![key(1), la.clone()]), lb.clone()]);
        let two_r = P::And(vec![la.clone(), P::And(vec![key(1), lb.clone()])]);
        let other = P::And(vec![key(2), lo.clone()]);
        for (a, b) in [(1usize, 1usize), (10, 1), (1, 10), (100, 1), (1, 100)] {
            out.push(P::Or(vec![(a, two.clone()), (b, other.clone())]));
            out.push(P::Or(vec![(a, other.clone()), (b, two_r.clone())]));
        }
    }
    // or-chains / and-chains of five and six keys, left- and right-leaning, with skewed odds
    for n in [5usize, 6] {
        for (a, b) in [(1usize, 1usize), (9, 1), (1, 9)] {
            let mut r = key(n);
            let mut l = key(1);
            for i in (1..n).rev() {
                r = P::Or(vec![(a, key(i)), (b, r)]);
            }
            for i in 2..=n {
                l = P::Or(vec![(a, l), (b, key(i))]);
            }
            out.push(r);
            out.push(l);
        }
        let mut r = key(n);
        for i in (1..n).rev() {
            r = P::And(vec![key(i), r]);
        }
        out.push(r);
    }
    out.sort();
    out.dedup();
    out
}

pub fn run(tier: Tier) -> i32 {
    let rep = Report::new("C08", tier);
    if let Err(e) = crate::kat::run_kats() {
        println!("MACHINERY: reference Script machine failed its known-answer tests: {}", e);
        return 2;
    }
    let n_leaves = tier.pick(3, 4);
    let exec_leaves = tier.pick(3, 3);
    let mut pols = policies(n_leaves);
    let n_exhaustive = pols.len();
    pols.extend(large_policies());
    rep.extra("bounds", json!({"policy_leaves": n_leaves, "executed_up_to_leaves": exec_leaves, "policies": n_exhaustive, "large_structured_policies": pols.len() - n_exhaustive, "weights": ["1@1", "9@1", "1@9"], "thresh_arity": 4}));
    // hook H2: record every candidate the compiler considers (once per distinct context + text)
    let cen = pols
        .par_iter()
        .fold(Census::new, |mut cen, pol| {
            miniscript::policy::compiler::verif::enable();
            bump(&mut cen, "policies");
            let real: Concrete<String> = pol.to_concrete();
            let exec = pol.n_leaves() <= exec_leaves;
            macro_rules! ms_ctx {
                ($ctx:ty, $name:expr) => {{
                    bump(&mut cen, "compile_calls");
                    match guard(|| real.compile::<$ctx>()) {
                        Ok(Ok(ms)) => check_ms::<$ctx>(&rep, &mut cen, pol, $name, "compile", &ms, None),
                        Ok(Err(_)) => bump(&mut cen, "compile_refused"),
                        Err(e) => rep.violation(Violation {
                            key: format!("C08|panic|{}|{}", $name, pol.sexpr()),
                            class: format!("compiler-panic@{}", panic_site(&e)),
                            what: e,
                            case: json!({"policy": pol.sexpr(), "ctx": $name}),
                        }),
                    }
                }};
            }
            ms_ctx!(Segwitv0, "segwitv0");
            ms_ctx!(Tap, "tap");
            ms_ctx!(Legacy, "legacy");
            ms_ctx!(BareCtx, "bare");
            let unspendable = "UNSPENDABLE".to_string();
            let mut desc_try = |entry: &str, r: Result<Result<Descriptor<String>, String>, String>, unsp: Option<&str>, execute: bool, native: bool, cen: &mut Census| {
                bump(cen, "compile_calls");
                match r {
                    Ok(Ok(d)) => check_desc(&rep, cen, pol, entry, &d, unsp, execute, native),
                    Ok(Err(_)) => bump(cen, "compile_refused"),
                    Err(e) => rep.violation(Violation {
                        key: format!("C08|panic|{}|{}", entry, pol.sexpr()),
                        class: format!("compiler-panic@{}", panic_site(&e)),
                        what: e,
                        case: json!({"policy": pol.sexpr(), "entry": entry}),
                    }),
                }
            };
            let e = |x: miniscript::Error| x.to_string();
            desc_try("to_descriptor-bare", guard(|| real.compile_to_descriptor::<BareCtx>(DescriptorCtx::Bare).map_err(e)), None, false, false, &mut cen);
            desc_try("to_descriptor-sh", guard(|| real.compile_to_descriptor::<Legacy>(DescriptorCtx::Sh).map_err(e)), None, exec, false, &mut cen);
            desc_try("to_descriptor-wsh", guard(|| real.compile_to_descriptor::<Segwitv0>(DescriptorCtx::Wsh).map_err(e)), None, exec, false, &mut cen);
            desc_try("to_descriptor-shwsh", guard(|| real.compile_to_descriptor::<Segwitv0>(DescriptorCtx::ShWsh).map_err(e)), None, false, false, &mut cen);
            desc_try("to_descriptor-tr", guard(|| real.compile_to_descriptor::<Tap>(DescriptorCtx::Tr(Some(unspendable.clone()))).map_err(e)), Some("UNSPENDABLE"), false, false, &mut cen);
            for (unsp, tag) in [(None, "nokey"), (Some(unspendable.clone()), "unspendable")] {
                let u = unsp.as_deref();
                desc_try(&format!("compile_tr-{}", tag), guard(|| real.compile_tr(unsp.clone()).map_err(|x| x.to_string())), u, exec, false, &mut cen);
                let caps: &[usize] = if pol.n_leaves() > 4 { &[1, 2, 3, 4, 5, 6, 7, 8, 1024] } else { &[1, 2, 1024] };
                for &cap in caps {
                    desc_try(&format!("compile_tr_native-{}-{}", cap, tag), guard(|| real.compile_tr_native(unsp.clone(), cap).map_err(|x| x.to_string())), u, exec && cap == 1024, true, &mut cen);
                }
                desc_try(&format!("compile_tr_private-{}", tag), guard(|| real.compile_tr_private_experimental(unsp.clone()).map_err(|x| x.to_string())), u, false, false, &mut cen);
            }
            cen
        })
        .reduce(Census::new, |mut a, b| {
            merge(&mut a, b);
            a
        });
    rep.merge_counts(&cen);
    // every candidate's cached type / extra data (Cast tables, AstElemExt::{binary,ternary}) must
    // equal what the type checker computes for the same fragment
    let mut cands: Vec<miniscript::policy::compiler::verif::Candidate> = rayon::broadcast(|_| miniscript::policy::compiler::verif::take()).into_iter().flatten().collect();
    cands.extend(miniscript::policy::compiler::verif::take());
    cands.sort_by(|a, b| (a.0, &a.1).cmp(&(b.0, &b.1)));
    cands.dedup_by(|a, b| a.0 == b.0 && a.1 == b.1);
    rep.count("compiler_candidates_distinct", cands.len() as u64);
    let ok_c = std::sync::atomic::AtomicU64::new(0);
    cands.par_iter().for_each(|(ctx, text, ty, ext)| {
        fn recompute<C: ScriptContext>(text: &str) -> Result<(miniscript::miniscript::types::Type, miniscript::miniscript::types::ExtData), String> {
            Miniscript::<String, C>::from_str_with_validation_params(text, &miniscript::ValidationParams::MAX).map(|m| (m.ty, m.ext)).map_err(|e| e.to_string())
        }
        let r = match *ctx {
            "Segwitv0" => recompute::<Segwitv0>(text),
            "Legacy/p2sh" => recompute::<Legacy>(text),
            "BareCtx" => recompute::<BareCtx>(text),
            "TapscriptCtx" => recompute::<Tap>(text),
            other => Err(format!("unknown context {}", other)),
        };
        match r {
            Ok((t2, e2)) => {
                if t2 != *ty || e2 != *ext {
                    rep.violation(Violation {
                        key: format!("C08|candidate-cached-data|{}|{}", ctx, text),
                        class: "compiler-candidate-type-or-ext-differs".into(),
                        what: format!("a compiler candidate carries type/extra data different from the type checker's: {}", if t2 != *ty { "type" } else { "ext data" }),
                        case: json!({"ctx": ctx, "candidate": text, "cached": format!("{:?} {:?}", ty, ext), "recomputed": format!("{:?} {:?}", t2, e2)}),
                    });
                } else {
                    ok_c.fetch_add(1, std::sync::atomic::Ordering::Relaxed);
                }
            }
            Err(e) => {
                rep.violation(Violation {
                    key: format!("C08|candidate-unparseable|{}|{}", ctx, text),
                    class: "compiler-candidate-rejected-by-type-checker".into(),
                    what: format!("a compiler candidate is refused by the parser / type checker: {}", e),
                    case: json!({"ctx": ctx, "candidate": text}),
                });
            }
        }
    });
    rep.count("compiler_candidates_confirmed", ok_c.load(std::sync::atomic::Ordering::Relaxed));
    // compiler outputs at the limits of their context: conjunctions of n keys around the sizes where a
    // standardness limit starts to bite; whatever the compiler returns must be within the limits
    // (literal Bitcoin numbers) by its own static figures
    {
        use miniscript::policy::Concrete as C;
        let mk_keys = |n: usize, uncompressed: bool| -> Vec<bitcoin::PublicKey> {
            (1..=n).map(|i| { let k = crate::keys::key(&format!("K{}", i)); if uncompressed { bitcoin::PublicKey::new_uncompressed(k.pk) } else { bitcoin::PublicKey::new(k.pk) } }).collect()
        };
        let and_n = |ks: &[bitcoin::PublicKey]| -> C<bitcoin::PublicKey> {
            let mut it = ks.iter().rev();
            let mut acc = C::Key(*it.next().unwrap());
            for k in it {
                acc = C::And(vec![std::sync::Arc::new(C::Key(*k)), std::sync::Arc::new(acc)]);
            }
            acc
        };
        let mut n_limit = 0u64;
        for unc in [false, true] {
            for n in 8..=16usize {
                let pol = and_n(&mk_keys(n, unc));
                n_limit += 1;
                if let Ok(Ok(ms)) = guard(|| pol.compile::<Legacy>()) {
                    let size = ms.encode().len();
                    let ss = ms.ext.sat_data.map(|d| d.max_script_sig_size).unwrap_or(usize::MAX);
                    let ops = ms.ext.sat_data.map(|d| d.max_exec_op_count + ms.ext.static_ops).unwrap_or(usize::MAX);
                    if size > 520 || ss > 1650 || ops > 201 {
                        rep.violation(Violation {
                            key: format!("C08|limits|legacy|and-{}-{}", n, unc),
                            class: "compiler-output-exceeds-legacy-limits".into(),
                            what: format!("compile::<Legacy>(and of {} {} keys) returns a script of {} bytes, scriptSig up to {} bytes, {} opcodes (limits 520 / 1650 / 201)", n, if unc { "uncompressed" } else { "compressed" }, size, ss, ops),
                            case: json!({"keys": n, "uncompressed": unc, "output": ms.to_string()}),
                        });
                    } else {
                        rep.count("limit_outputs_within_limits", 1);
                    }
                } else {
                    rep.count("limit_compilations_refused", 1);
                }
            }
        }
        for n in [97usize, 99, 100, 101, 103, 104] {
            let pol = and_n(&mk_keys(n, false));
            n_limit += 1;
            if let Ok(Ok(ms)) = guard(|| pol.compile::<Segwitv0>()) {
                let size = ms.encode().len();
                let items = ms.max_satisfaction_witness_elements().unwrap_or(usize::MAX);
                let ops = ms.ext.sat_data.map(|d| d.max_exec_op_count + ms.ext.static_ops).unwrap_or(usize::MAX);
                if size > 3600 || items > 100 || ops > 201 {
                    rep.violation(Violation {
                        key: format!("C08|limits|segwitv0|and-{}", n),
                        class: "compiler-output-exceeds-segwit-limits".into(),
                        what: format!("compile::<Segwitv0>(and of {} keys) returns a script of {} bytes, {} witness items, {} opcodes (limits 3600 / 100 / 201)", n, size, items, ops),
                        case: json!({"keys": n, "output": ms.to_string()}),
                    });
                } else {
                    rep.count("limit_outputs_within_limits", 1);
                }
            } else {
                rep.count("limit_compilations_refused", 1);
            }
        }
        rep.count("limit_compilations", n_limit);
    }
    rep.sample(json!({"policy": pols.last().map(|p| p.sexpr())}));
    rep.sample(json!({"entry_points": ["compile::<Segwitv0|Tap|Legacy|BareCtx>", "compile_to_descriptor (Bare, Sh, Wsh, ShWsh, Tr)", "compile_tr", "compile_tr_native (caps 1, 2, 1024)", "compile_tr_private_experimental", "each with and without an unspendable key"]}));
    rep.assume("compiler Err is not a violation; the Ok ratio is reported");
    rep.assume("meaning = truth table over independent atoms of the harness's own lift of the output (not the crate's lift), plus execution on the RSM for small policies");
    let ok = rep.get("compiled_miniscripts") + rep.get("compiled_descriptors");
    rep.finish(
        pols.len() as u64 + ok,
        rep.get("compile_calls") + rep.get("worlds_executed"),
        rep.get("meaning_preserved") + rep.get("worlds_executed") + rep.get("types_rebuilt_equal"),
        rep.get("compile_calls"),
        ok.min(rep.get("worlds_executed").max(2)),
        "ALL concrete policies up to the leaf bound (+ fixed-shape larger policies: compound branch x k-of-n key threshold n = 3..5 under or / and / thresh and every odds, 5- and 6-key chains; taproot leaf caps 1..8 and 1024 for them) (and / or with odds 1:1, 9:1, 1:9 / thresh arity <= 4, all k; leaves from key, sha256, after(height), older(blocks), after(time), older(time); distinct keys) x every compiler entry point: output truth table == policy truth table (own lift, all assignments), small policies additionally executed on the RSM in every world, output sane / signed / non-malleable / within limits / no forbidden fragment, stored ty/ext of every node equal from_ast, every candidate the compiler considered on the way (hook H2; Cast tables, binary / ternary constructors) carries the type and extra data the type checker computes, string re-parses with the default parser to the same structure. non-trivial = min(successful compilations, worlds executed)",
        true,
    )
}

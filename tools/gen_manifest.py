#!/usr/bin/env python3
"""Regenerates /verif/MANIFEST.json from the table below (keeps it schema-valid)."""
import json, subprocess
props=[json.loads(l) for l in open('/verif/properties.jsonl')]
ids=[p['id'] for p in props]

ASSUME="rustc/std, secp256k1, bitcoin (hashes, tx/witness serialisation, SighashCache) are trusted; the harness's own reference models (AST walker/printer/encoder, reference Script machine, policy evaluator, spec type tables) are trusted to the extent their self-checks bind them (see DESIGN.md sections 2 and 7)."

# id -> (technique, level text, design_ref)
BUILT={
 "C01":("bounded-exhaustive term/world enumeration; every library satisfaction replayed on an independent reference Script machine",
        "Every B term up to the node bound in every descriptor wrapping x every subset of signatures/preimages x lock grid x {non-malleable, malleable} x {get_satisfaction, into_plan+Plan::satisfy}: the returned scriptSig/witness is executed by the reference Script machine under standardness flags against the real transaction digest. Through hook H1 every node-level satisfaction and dissatisfaction of every term is executed on its fragment script. Exhaustive within the bounds stated in the evidence. Beyond the node bound the enumeration is extended by fixed families (DESIGN.md 8.5): one-hole contexts around every fragment one node below the bound, macro fragments (utv:, ln:, heavy signature-free legs), thresholds / multisigs with 3, 4, 7, 15, 16, 17 and 20 children for every k, tap trees with an unliftable leaf.",
        "3 C01"),
 "C02":("bounded-exhaustive enumeration; refusals decided by exhaustive nondeterministic witness search of the reference Script machine",
        "Same enumeration as C01. Every refusal (malleable mode: all; non-malleable: sane descriptors with all preimages) is decided by depth-first exploration of ALL witnesses over the caller's alphabet on the reference Script machine (states/transitions reported); a found witness is re-validated concretely before the library is accused. H1: every node typed dissatisfiable must offer a dissatisfaction from public data. Beyond the node bound the enumeration is extended by fixed families (DESIGN.md 8.5): one-hole contexts around every fragment one node below the bound, macro fragments (utv:, ln:, heavy signature-free legs), thresholds / multisigs with 3, 4, 7, 15, 16, 17 and 20 children for every k, tap trees with an unliftable leaf. A satisfier panic counts as a refusal. The PSBT finalizer is covered as a satisfier over the PSBT's own data: on every history of the C14 explorer a failing finalize variant is decided by the same witness search (malleable variants always; non-malleable ones for sane descriptors with every preimage present).",
        "3 C02"),
 "C03":("bounded-exhaustive enumeration; all adversarial witnesses explored on the reference Script machine",
        "For every sane descriptor up to the node bound and every world in which the non-malleable satisfier succeeds, ALL witnesses over the third-party alphabet are explored depth-first on every script of the output (every tap leaf) under standardness flags; the solution set must be exactly the original. A positive control on non-sane scripts shows the search does find alternative witnesses. Beyond the node bound the enumeration is extended by fixed families (DESIGN.md 8.5): one-hole contexts around every fragment one node below the bound, macro fragments (utv:, ln:, heavy signature-free legs), thresholds / multisigs with 3, 4, 7, 15, 16, 17 and 20 children for every k, tap trees with an unliftable leaf. Node level (hook H1): every (dis)satisfaction marked has_sig contains a signature, for every fragment x world x root_has_sig. PSBT path: every non-malleable finalization of a sane descriptor on the histories of the PSBT explorer (including updates that record scripts but no key origins) is followed by the same all-witness search.",
        "3 C03"),
 "C04":("bounded-exhaustive term enumeration plus exhaustive token-sequence / single-edit / raw-byte enumeration of decoder inputs",
        "(a) every well-typed term up to the node bound in four contexts: encoding equals an independent reference encoder, script_size equals length, decode(encode) re-encodes byte-identically with identical type and equal truth table; (b) every script token sequence up to length L, every single edit and alternative push encoding of every valid script of <= 5 nodes, every raw byte string up to the length bound: whatever any decode entry point accepts must re-encode to exactly the input and be well typed. Value boundaries (every (k, n) of multi / multi_a / thresh, lock values around every number-length change) and up to three nested context levels around small fragments extend part (a) to terms of up to ~20 nodes.",
        "3 C04"),
 "C05":("complete enumeration of the finite type domain against transcribed specification tables",
        "Every unary typing rule on all 960 child types, every binary rule and thresh(k,2) on all 960^2 pairs, and_or on the cube of reachable types plus correctness/malleability cubes (thorough: all 960^3), wider thresholds over reachable child types: accept/reject equality, never-stronger on inhabitable types, exact equality on reachable types minus a printed deviation list; Type::type_check dispatch of every Terminal variant. Wiring: every constructor application over real terms (full leaf alphabet, 4 contexts): from_ast accepts iff the rule function does and stores exactly its type; every leaf constructor of Miniscript stores what type_check / ExtData::type_check compute.",
        "3 C05"),
 "C06":("bounded-exhaustive fragment enumeration; all input stacks explored on the reference Script machine",
        "Every well-typed term of every base type up to the node bound (Segwitv0, Legacy, Tap) is executed alone on the reference Script machine over ALL input stacks from a finite alphabet (lazily materialised, consensus and standard flags); z/o/n/u/d/f/s and the B/V/W stack-shape contracts of the library type (and of the specification-table type) are checked on every complete path. Full leaf alphabet one node below the bound, lock-value boundary terms with a transaction meeting the term's own locks, and the context's MINIMALIF predicate (check_terminal_non_malleable) on every term of 4 contexts.",
        "3 C06"),
 "C07":("bounded-exhaustive enumeration; policy truth vs witness existence by exhaustive witness search",
        "For every liftable descriptor up to the node bound (all wrappings, duplicate keys, 2/3-leaf tap trees) and every world, the reference evaluator's truth value of lift(d) is compared in both directions with the existence of a witness found by exhaustive exploration of the reference Script machine over the caller's alphabet. Beyond the node bound the enumeration is extended by fixed families (DESIGN.md 8.5): one-hole contexts around every fragment one node below the bound, macro fragments (utv:, ln:, heavy signature-free legs), thresholds / multisigs with 3, 4, 7, 15, 16, 17 and 20 children for every k, tap trees with an unliftable leaf. Structural pass without execution: every term up to the bound, two nested context levels around small fragments, 4- and 5-child thresholds with constant children, in 4 contexts: lift() succeeds iff lift_check() does and has the truth table of the harness's own fold.",
        "3 C07"),
 "C10":("bounded-exhaustive round-trip enumeration; exhaustive substitution enumeration and explicit-state syndrome search of the checksum code model",
        "Every well-typed term up to the node bound (display equals a reference printer, sugared and unsugared spellings parse to the same structure, re-display is a fixed point), descriptor wrappings with every tap tree shape up to 5 leaves, enumerated policies and the descriptor-key grammar round-trip. Checksum: library equals an independent BIP-380 model on every enumerated string and every (position, character); ALL 1- and 2-character substitutions of short checksummed descriptors are rejected by Descriptor::from_str / verify_checksum; the code model's error patterns of weight <= 2 are enumerated completely and have pairwise distinct syndromes (=> every <= 4-symbol error detected) up to the stated length. Secret key expressions (xprv / tprv / WIF x origins x steps x wildcards; parse_descriptor / to_string_with_secret) and tap trees with several sibling pairs at depth 127 / 128 round-trip too.",
        "3 C10"),
 "C13":("bounded-exhaustive enumeration of spends and all single (thorough: pair) mutations; interpreter vs reference Script machine",
        "Every library satisfaction of every sane descriptor up to the node bound in every world, every single-element mutation of its witness / scriptSig (thorough: all pairs), and satisfactions fabricated with ignored time locks are given to Interpreter::iter and to the reference Script machine (consensus flags): interpreter-accept implies machine-accept, reported constraints equal the machine's trace and satisfy the lifted policy, and the library's own satisfactions are accepted. Beyond the node bound the enumeration is extended by fixed families (DESIGN.md 8.5): one-hole contexts around every fragment one node below the bound, macro fragments (utv:, ln:, heavy signature-free legs), thresholds / multisigs with 3, 4, 7, 15, 16, 17 and 20 children for every k, tap trees with an unliftable leaf. Mutations include an extra <> / <1> at every position and, for nested segwit, the scriptSig mutated under the unchanged witness.",
        "3 C13"),
 "C09":("bounded-exhaustive enumeration; measured execution traces vs static figures",
        "Same enumeration as C01; every satisfaction the library returns (all asset subsets, both modes, both production paths) is measured on the real data and on the reference machine's trace and compared with script_size, pk_cost, max_satisfaction_*, sat_data, max_weight_to_satisfy and the plan's announced sizes. Beyond the node bound the enumeration is extended by fixed families (DESIGN.md 8.5): one-hole contexts around every fragment one node below the bound, macro fragments (utv:, ln:, heavy signature-free legs), thresholds / multisigs with 3, 4, 7, 15, 16, 17 and 20 children for every k, tap trees with an unliftable leaf. Node level (hook H1): every node's satisfier output (also of every sub-term of the families) is measured against the node's own SatData.",
        "3 C09"),
 "C17":("bounded-exhaustive enumeration; plan vs satisfier differential plus lock-necessity transactions on the reference Script machine",
        "Every descriptor of the C01 enumeration x all worlds x CanSign variants x both plan modes: into_plan succeeds iff the satisfier holding exactly those assets succeeds, Plan::satisfy equals get_satisfaction, the spend validates with exactly the reported locks and is rejected by the reference Script machine for every weaker lock (value-1, removed, other unit, final sequence). Beyond the node bound the enumeration is extended by fixed families (DESIGN.md 8.5): one-hole contexts around every fragment one node below the bound, macro fragments (utv:, ln:, heavy signature-free legs), thresholds / multisigs with 3, 4, 7, 15, 16, 17 and 20 children for every k, tap trees with an unliftable leaf. Key-source family: 7 key forms x 8 output shapes x every related source path x 2 fingerprints against the documented direct-child rule; 11 sets of several asset entries for one key with different tap-leaf permissions; uncompressed key forms for sh / bare / pkh.",
        "3 C17"),
 "C19":("bounded-exhaustive all-pairs/all-triples exploration over the BFS term universe",
        "Every ordered pair (and every triple of a slice) of all well-typed terms up to the node bound plus their k/arity/leaf neighbours is compared through ==, cmp and hash against the harness's structural identity; descriptors, tap trees and policies likewise over an enumerated family. Exhaustive within the bound, nothing sampled. Lock-value neighbours differ by +1, the BIP-68 unit flag, bits above the 16-bit mask and the height/time threshold.",
        "3 C19"),
}
BUILT["C20"]=("bounded-exhaustive term enumeration x translator family, structural walker as oracle",
        "Every well-typed term up to the node bound in four contexts, a descriptor family covering every wrapping and tap trees, and policies are translated with identity / renaming / composed / failing-on-each-label / String->concrete / context-illegal translators; structure, types, scripts (against the reference encoder) and error kinds are compared with the harness model; iter_pk / for_each_key / for_any_key / Concrete::keys are compared with the key tokens of the string form. Clone and substitute_raw_pkh (empty, full and single-key maps) are compared with the expected structure on every term and on two nested context levels; the descriptor family contains key-less tap leaves.",
        "3 C20")
BUILT["C12"]=("bounded-exhaustive term enumeration x complete switch lattice; structural reference predicates",
        "Every well-typed term of every base type up to the node bound (key partitions, key forms): each validation switch alone fails iff the structurally computed defect is present, all 2^14 switch combinations on small terms, every numeric limit at figure-1 / figure / figure+1; every term pushed through every constructor and parser of its context against a structural legality predicate; descriptor-parser acceptance implies consensus-miniscript-parser acceptance; entails/intersect lattice laws on a parameter family and monotonicity of validate over all entailing pairs. Also: multisig arities around every limit (3, 20, 999), a lock-interplay family (every ordered pair of lock leaves, wrapped locks in every child position of every container), node-level ExtData::timelock_info against the documented bookkeeping, and each switch against the library's own predicate (has_mixed_timelocks, has_repeated_keys).",
        "3 C12")
BUILT["C15"]=("exhaustive enumeration of binary tree shapes and chains against a recursive BIP341 reference",
        "ALL binary tree shapes up to the leaf bound (two internal keys, repeated leaves) and left/right/zig-zag chains of every depth 1..128, each built by leaf/combine, by parsing and by key translation: merkle root, output key and parity, every control block (also verified independently against the scriptPubKey), leaf order and depths, address, bitcoin::TapTree conversion and Display->FromStr are compared with a reference written from BIP341; depth 129 must be refused. Every shape of up to 5 (7) leaves below a spine reaching depth 126..128 (several sibling pairs at the maximum depth); leaf item accessors agree with each other.",
        "3 C15")
BUILT["C16"]=("bounded-exhaustive enumeration of output types / key forms / networks / indices against byte-level references",
        "Every output type x key form x network and every B term up to the node bound inside sh/wsh/sh-wsh/tr: scriptPubKey, address, explicit_script, script_code and unsigned_script_sig equal byte-level references and a spend signed over script_code() verifies on the reference Script machine; xpub key expressions x indices equal independent BIP32 derivation with the documented errors; all key permutations of sortedmulti give one scriptPubKey; multipath split equals textual selection. Also: desc_type, the wrapper types' own accessors, alternative constructors, key-expression accessors, find_derivation_index_for_spk over every range within 0..5, two multipath keys on one xpub, and secret key expressions (to_public commutes with private BIP32 derivation for 384 expressions).",
        "3 C16")
BUILT["C14"]=("explicit-state breadth-first search over PSBT operation histories (states = real Psbt values deduplicated by BIP174 serialisation)",
        "For each descriptor pair of a 25-member family, ALL histories of update / add-signature / add-preimage / finalize / finalize_mall / finalize_inp / finalize_inp_mall up to the depth bound (most pairs reach closure) are executed on real two-input PSBTs; on every transition: finalized inputs validate on the reference Script machine, final inputs are never altered by finalization, a failing finalize leaves the input byte-identical, idempotence, result consistency, order independence of data actions (one state per action set), extract succeeds iff all inputs are final and the extracted transaction validates, update records scripts / origins / taproot data that verify, sighash_msg equals the independent digest. Time-locked pairs are explored under nine transaction parameter sets (versions 0-3, sequence 4 / final / disable flag, lock time 9, time units).",
        "3 C14")
BUILT["C18"]=("exhaustive enumeration of policies up to a node bound with truth-table (all assignments) oracles",
        "ALL semantic policies up to the node bound over 12 atoms (repeated atoms, TRIVIAL/UNSATISFIABLE children, thresholds with every k): normalized/sorted keep the truth table over all assignments, at_age/at_lock_time equal the restriction for every value around every lock in both units, n_keys, minimum_n_keys vs exhaustive assignment search; entails vs truth-table implication on ALL ordered pairs up to the pair bound; concrete policies: lift keeps the truth table, check_timelocks fires iff some satisfying path mixes units. Also: thresholds of 4 and 5 children over keys / constants / lock / nested conjunction (every k), lock accessors, is_trivial / is_unsatisfiable; miniscript side: node-level timelock_info and has_mixed_timelocks on a lock-interplay family and on every full-alphabet term.",
        "3 C18")
BUILT["C08"]=("exhaustive enumeration of concrete policies up to a leaf bound x every compiler entry point; truth-table and execution oracles",
        "ALL concrete policies up to the leaf bound (and / weighted or / thresh, leaves over keys, hash, height/time locks) through compile::<4 contexts>, compile_to_descriptor (5 contexts), compile_tr, compile_tr_native (3 caps), compile_tr_private_experimental, with and without an unspendable key: every Ok output has the policy's truth table under the harness's own lift (all assignments), small policies are additionally executed on the reference Script machine in every world, outputs are sane/signed/non-malleable/within limits/free of context-forbidden fragments, every node's stored type equals from_ast, and the string re-parses with the default parser. Also: fixed-shape larger policies (compound branch x k-of-n key threshold n = 3..5, lock-guarded branches for every ordered pair of lock leaves, 5/6-key chains) with tap leaf caps 1..8; through hook H2 every candidate the compiler considers carries the type and extra data the type checker computes.",
        "3 C08")
BUILT["C11"]=("bounded-exhaustive input enumeration executed in fault-contained worker subprocesses",
        "Strings (22 parser entry points each): all strings up to the length bound over a 22-character alphabet, all grammar-token sequences up to the token bound, every single edit of every valid string of the term enumeration, scaling probes (nesting to 200000, width to 100000, 100 kB names, 40-digit numbers); script decoder: token sequences, raw bytes, truncations/substitutions of valid scripts, deep/wide scripts; interpreter: standard scriptPubKey templates and truncations x scriptSigs x witness sequences; PSBT: reachable fully-populated states with every field dropped/emptied/set to a boundary value through finalize*/extract/update*/sighash_msg; planner: key forms x asset fingerprints x derivation paths x capability flags. Each case runs in a worker process (address-space limit, wall budget); panics, aborts, stack overflows and hangs are attributed to the single offending input. Also: malformed bodies carrying a valid checksum of themselves, every leaf token given a bracketed argument list, interpreter over every B term (full alphabet) x every witness stack up to length 3 (4), hash commitments to non-32-byte preimages.",
        "3 C11")
R6={
 "C01":"Lock values: ordered pairs incl. values with bits above the BIP-68 mask and the 500000000 boundary in every conjunction context; a tap leaf re-using the internal key; guarded macro contexts.",
 "C02":"PSBT completeness also after an update that records no key origins (witness search restricted to the keys whose signatures are present) and in a transaction with one final and one non-final input.",
 "C04":"Key pushes with every other prefix byte (hybrid encodings) must be refused or re-encode identically.",
 "C08":"Root thresholds of 6 and 7 keys (every k) through every entry point; a compiler panic is a violation.",
 "C10":"Wallet policies: descriptor -> policy -> text -> policy -> descriptor over a boundary list of multipath steps (870 templates).",
 "C12":"Lock family with boundary lock values (2^16, 2^22, 2^23, 2^31-1 neighbourhoods) in both orders.",
 "C13":"Sequences with bits outside the BIP-68 mask around every effective lock value.",
 "C14":"A tenth parameter set has one final and one non-final input (mixed finality).",
 "C15":"A fourth build over full 33-byte keys must commit to the same output as the x-only build, on key sets whose x-only and 33-byte orders differ.",
 "C16":"Tap trees: balanced 4..512 (thorough 1024) leaves, a late / early 256-leaf subtree, depth-128 caterpillars in both directions.",
 "C20":"The translated object's static figures equal those of the same term built directly and parsed from text over the target keys.",
}
for _k,_add in R6.items():
    _a,_b,_c=BUILT[_k]
    BUILT[_k]=(_a,_b+" "+_add,_c)
R7={
 "C01":"Descriptor::satisfy writes what get_satisfaction returns. Scripts exactly on push / compact-size boundaries (75/76, 252/253, 255/256 bytes); every hash kind.",
 "C02":"PSBT completeness under every transaction parameter set of C14.",
 "C03":"Guarded fragments over the legacy universe.",
 "C05":"A panic of a rule function, of from_ast or of Debug on well-formed children is a violation.",
 "C08":"A branch with two locks of one unit next to a branch locked in the other unit under five odds.",
 "C09":"Scripts exactly on push / compact-size boundaries (75/76, 252/253, 255/256 bytes) in sh, wsh, sh-wsh and tr.",
 "C10":"Key-expression mixes (7 kinds x key positions of 10 templates) through Descriptor::from_str, parse_descriptor and the miniscript parsers; wrapper types' own text forms.",
 "C11":"Planner over the shared descriptor families x asset subsets (builder API) in the contained workers; hang verdicts from CPU time with positive controls of the containment.",
 "C14":"By-value and free finalize functions agree with the in-place ones; an outpoint index the funding transaction lacks; preimages of every hash kind.",
 "C15":"A fifth build through from_str and parse_descriptor of the printed concrete descriptor; leaves of every hash kind.",
 "C16":"sortedmulti constructors, taproot accessors, multipath key predicates and per-key splits.",
 "C17":"The announced sizes are not smaller than the real ones (also on the size-boundary family); assets assembled through the builder API equal the same assets written as fields.",
 "C19":"partial_cmp equals cmp; one structure reached by five construction routes over concrete keys is one value.",
 "C20":"decode + substitute_raw_pkh over concrete keys equals the direct build (structure, type, figures); translation to definite keys gives the figures of the same raw keys; branches / contains_raw_pkh / iter.",
}
for _k,_add in R7.items():
    _a,_b,_c=BUILT[_k]
    BUILT[_k]=(_a,_b+" "+_add,_c)
R8={
 "C01":"sh(wsh(X)) is satisfied exactly like wsh(X) (both modes). or_c macro fragments in every hole.",
 "C03":"sh(wsh(X)) twin lemma: the non-malleable satisfaction of sh(wsh(X)) is the one of wsh(X), and it refuses where wsh(X) refuses.",
 "C06":"The type the script decoder assigns to the same bytes is judged against the same executions.",
 "C07":"Lift ladder: from_ast conjunction chains of 98..203 keys must be refused by lift() exactly beyond the literal limits; opcode-budget ladder (independent count, 197..206 opcodes, multisigs in every child position): lift() refuses exactly above 201.",
 "C10":"A script mixing multipath expressions of different lengths must be refused by both descriptor parsers (rule computed from the assignment).",
 "C11":"Arity edits: every argument list of every source string with one argument removed / repeated / all removed.",
 "C12":"The multisig kinds of the other script family in every context; parsers judged also where the constructor refuses. Opcode-budget ladder: 110 terms with a worst-path opcode count made from first principles, refused by check_local_consensus_validity / from_str_insane / within_resource_limits / lift exactly above 201.",
 "C13":"or_c macro fragments in every hole of the shared families.",
 "C14":"Stale-signatures configuration: signatures made for another transaction, nothing that needs a signature may be finalized. Output updates: recorded scripts / origins / tap tree of every family member's output, foreign outputs refused and untouched, the _unchecked trait methods equal the checked entry points.",
 "C20":"Translation into multipath keys: 81 path-tuple length assignments x 7 descriptors, accepted iff every single script agrees.",
}
for _k,_add in R8.items():
    _a,_b,_c=BUILT[_k]
    BUILT[_k]=(_a,_b+" "+_add,_c)
NA_REASON={}

def hooks_commits():
    out=subprocess.run(["git","-C","/repo","log","--format=%h %s"],capture_output=True,text=True).stdout.splitlines()
    return [l.split()[0] for l in out if "cfg(miniscript_verif)" in l]

m={
 "version":1,
 "setup_cmd":"cd /verif/harness && CARGO_NET_OFFLINE=true cargo build --release --offline",
 "hooks":{"guard":"--cfg miniscript_verif",
          "enable":"rustflags = [\"--cfg\",\"miniscript_verif\"] in /verif/harness/.cargo/config.toml; miniscript is a path dependency on /repo so every check rebuilds the current working tree with the hook on",
          "baseline_off_cmd":"cd /repo && cargo test --workspace --no-fail-fast --offline",
          "source_commits":hooks_commits(),"add_only":True},
 "engines":[
   {"name":"msverif","path":"/verif/harness","serves_properties":sorted(BUILT.keys()),
    "kind_free_text":"own explicit-state explorers in Rust running the real crate in-process: term BFS (states = well-typed terms accepted by Miniscript::from_ast), reference Script machine with nondeterministic witness exploration, PSBT operation-history BFS"}],
 "checks":[],
 "not_applicable":[],
 "notes":"Driver: ./check <Cxx> --tier quick|thorough [--replay file]. exit 0 held / 1 violation / 2 machinery failure. Known findings: /verif/known_findings.jsonl."
}
for i in ids:
    if i in BUILT:
        tech,text,ref=BUILT[i]
        m["checks"].append({
          "property_id":i,
          "quick_cmd":f"./check {i} --tier quick",
          "thorough_cmd":f"./check {i} --tier thorough",
          "evidence_file":f"/verif/evidence/{i}.json",
          "replay_cmd_template":f"./check {i} --replay {{path}}",
          "engine":"msverif",
          "level_claimed":{"category":"model_checking","text":text,"design_ref":ref},
          "level_note":ASSUME,
          "technique":tech})
    else:
        m["not_applicable"].append({"property_id":i,"reason":NA_REASON.get(i,"check not built yet (work in progress; design in DESIGN.md section 3)")})
json.dump(m,open('/verif/MANIFEST.json','w'),indent=1)
print("checks:",[c["property_id"] for c in m["checks"]])

//! Reference Script machine (RSM): an independent interpreter of Bitcoin Script
//! written from the consensus / standardness rules (DESIGN.md Appendix A).
//! Shares no code with the crate under test.
//!
//! Two modes: concrete run, and nondeterministic run where the initial stack is
//! materialised lazily by branching over a finite element alphabet.

use std::cell::RefCell;
use std::collections::{HashMap, HashSet};

use bitcoin::hashes::{hash160, ripemd160, sha256, sha256d, Hash};
use bitcoin::sighash::{Prevouts, SighashCache};
use bitcoin::taproot::TapLeafHash;
use bitcoin::{ScriptBuf, Transaction, TxOut};
use secp256k1::{Message, SECP256K1};

use crate::ast::op::*;

#[derive(Clone, Copy, PartialEq, Eq, Debug, Hash)]
pub enum SigVer {
    Base,
    WitnessV0,
    Tapscript,
}

#[derive(Clone, Debug)]
pub enum Op {
    Push { data: Vec<u8>, minimal: bool },
    Code(u8),
    Bad,
}

pub fn parse_script(s: &[u8]) -> Vec<Op> {
    let mut out = vec![];
    let mut i = 0;
    while i < s.len() {
        let o = s[i];
        i += 1;
        if o <= PUSHDATA4 {
            let (len, hdr) = if o < PUSHDATA1 {
                (o as usize, 0)
            } else if o == PUSHDATA1 {
                if i + 1 > s.len() {
                    out.push(Op::Bad);
                    return out;
                }
                (s[i] as usize, 1)
            } else if o == PUSHDATA2 {
                if i + 2 > s.len() {
                    out.push(Op::Bad);
                    return out;
                }
                (u16::from_le_bytes([s[i], s[i + 1]]) as usize, 2)
            } else {
                if i + 4 > s.len() {
                    out.push(Op::Bad);
                    return out;
                }
                (u32::from_le_bytes([s[i], s[i + 1], s[i + 2], s[i + 3]]) as usize, 4)
            };
            i += hdr;
            if i + len > s.len() {
                out.push(Op::Bad);
                return out;
            }
            let data = s[i..i + len].to_vec();
            i += len;
            // minimal push rule (CheckMinimalPush)
            let minimal = if data.is_empty() {
                o == OP_0
            } else if data.len() == 1 && (1..=16).contains(&data[0]) {
                false
            } else if data.len() == 1 && data[0] == 0x81 {
                false
            } else if data.len() <= 75 {
                o as usize == data.len()
            } else if data.len() <= 255 {
                o == PUSHDATA1
            } else if data.len() <= 65535 {
                o == PUSHDATA2
            } else {
                true
            };
            out.push(Op::Push { data, minimal });
        } else {
            out.push(Op::Code(o));
        }
    }
    out
}

pub fn is_push_only(s: &[u8]) -> bool {
    parse_script(s).iter().all(|o| match o {
        Op::Push { .. } => true,
        Op::Code(c) => *c <= OP_16,
        Op::Bad => false,
    })
}

#[derive(Clone, Debug, Default, PartialEq, Eq, Hash)]
pub struct Trace {
    pub op_count: u32,
    pub max_stack: usize,
    /// (pubkey bytes, signature bytes) that verified
    pub sigs: Vec<(Vec<u8>, Vec<u8>)>,
    /// (hash opcode, preimage, digest) whose digest later passed an EQUAL(VERIFY)
    pub hashes: Vec<(u8, Vec<u8>, Vec<u8>)>,
    /// executed CLTV operands
    pub cltv: Vec<i64>,
    /// executed CSV operands (disable-flag ones excluded)
    pub csv: Vec<i64>,
    /// hash ops executed: (op, preimage, digest)
    pub hash_ops: Vec<(u8, Vec<u8>, Vec<u8>)>,
    /// number of signature checks with non-empty signature (tapscript budget)
    pub sigops_nonempty: u32,
}

/// Everything signature / locktime related.
pub trait Checker {
    fn check_ecdsa(&self, sig: &[u8], pk: &[u8], sigver: SigVer) -> bool;
    fn check_schnorr(&self, sig: &[u8], pk32: &[u8]) -> bool;
    fn check_locktime(&self, n: i64) -> bool;
    fn check_sequence(&self, n: i64) -> bool;
}

/// A spend being verified.
#[derive(Clone)]
pub struct Spend {
    pub tx: Transaction,
    pub idx: usize,
    pub prevouts: Vec<TxOut>,
}

pub struct TxChecker<'a> {
    pub spend: &'a Spend,
    /// scriptCode for ECDSA digests
    pub script_code: Vec<u8>,
    pub leaf_hash: Option<TapLeafHash>,
    cache: RefCell<HashMap<(Vec<u8>, Vec<u8>, u8), bool>>,
}

impl<'a> TxChecker<'a> {
    pub fn new(spend: &'a Spend, script_code: Vec<u8>, leaf_hash: Option<TapLeafHash>) -> Self {
        TxChecker { spend, script_code, leaf_hash, cache: RefCell::new(HashMap::new()) }
    }
}

pub fn ecdsa_digest(spend: &Spend, script_code: &[u8], sigver: SigVer, hashtype: u32) -> [u8; 32] {
    let sc = ScriptBuf::from_bytes(script_code.to_vec());
    let cache = SighashCache::new(&spend.tx);
    match sigver {
        SigVer::Base => cache
            .legacy_signature_hash(spend.idx, &sc, hashtype)
            .expect("legacy sighash")
            .to_byte_array(),
        SigVer::WitnessV0 => {
            let mut cache = cache;
            // p2wsh_signature_hash with an arbitrary script code is exactly BIP143
            let ty = bitcoin::EcdsaSighashType::from_consensus(hashtype);
            cache
                .p2wsh_signature_hash(spend.idx, &sc, spend.prevouts[spend.idx].value, ty)
                .expect("bip143 sighash")
                .to_byte_array()
        }
        SigVer::Tapscript => unreachable!(),
    }
}

pub fn taproot_digest(spend: &Spend, leaf: Option<TapLeafHash>, hashtype: u8) -> Option<[u8; 32]> {
    let ty = bitcoin::TapSighashType::from_consensus_u8(hashtype).ok()?;
    let mut cache = SighashCache::new(&spend.tx);
    let prev = Prevouts::All(&spend.prevouts);
    let h = cache
        .taproot_signature_hash(spend.idx, &prev, None, leaf.map(|l| (l, 0xffff_ffffu32)), ty)
        .ok()?;
    Some(h.to_byte_array())
}

impl<'a> Checker for TxChecker<'a> {
    fn check_ecdsa(&self, sig: &[u8], pk: &[u8], sigver: SigVer) -> bool {
        if sig.is_empty() {
            return false;
        }
        let key = (sig.to_vec(), pk.to_vec(), sigver as u8);
        if let Some(r) = self.cache.borrow().get(&key) {
            return *r;
        }
        let r = (|| {
            let hashtype = *sig.last().unwrap() as u32;
            let der = &sig[..sig.len() - 1];
            let pk = secp256k1::PublicKey::from_slice(pk).ok()?;
            let mut s = secp256k1::ecdsa::Signature::from_der(der).ok()?;
            s.normalize_s();
            let d = ecdsa_digest(self.spend, &self.script_code, sigver, hashtype);
            let msg = Message::from_digest(d);
            SECP256K1.verify_ecdsa(&msg, &s, &pk).ok()
        })()
        .is_some();
        self.cache.borrow_mut().insert(key, r);
        r
    }

    fn check_schnorr(&self, sig: &[u8], pk32: &[u8]) -> bool {
        let key = (sig.to_vec(), pk32.to_vec(), 9u8);
        if let Some(r) = self.cache.borrow().get(&key) {
            return *r;
        }
        let r = (|| {
            let (raw, ht) = match sig.len() {
                64 => (sig, 0u8),
                65 => {
                    if sig[64] == 0 {
                        return None;
                    }
                    (&sig[..64], sig[64])
                }
                _ => return None,
            };
            let d = taproot_digest(self.spend, self.leaf_hash, ht)?;
            let s = secp256k1::schnorr::Signature::from_slice(raw).ok()?;
            let pk = secp256k1::XOnlyPublicKey::from_slice(pk32).ok()?;
            SECP256K1.verify_schnorr(&s, &Message::from_digest(d), &pk).ok()
        })()
        .is_some();
        self.cache.borrow_mut().insert(key, r);
        r
    }

    fn check_locktime(&self, n: i64) -> bool {
        let tx_lt = self.spend.tx.lock_time.to_consensus_u32() as i64;
        const T: i64 = 500_000_000;
        if !((tx_lt < T && n < T) || (tx_lt >= T && n >= T)) {
            return false;
        }
        if n > tx_lt {
            return false;
        }
        if self.spend.tx.input[self.spend.idx].sequence.0 == 0xffff_ffff {
            return false;
        }
        true
    }

    fn check_sequence(&self, n: i64) -> bool {
        let seq = self.spend.tx.input[self.spend.idx].sequence.0 as i64;
        if (self.spend.tx.version.0 as u32) < 2 {
            return false;
        }
        if seq & (1 << 31) != 0 {
            return false;
        }
        const TYPE: i64 = 1 << 22;
        const MASK: i64 = TYPE | 0xffff;
        let sm = seq & MASK;
        let nm = n & MASK;
        if !((sm < TYPE && nm < TYPE) || (sm >= TYPE && nm >= TYPE)) {
            return false;
        }
        nm <= sm
    }
}

/// A checker for raw fragment exploration: signatures are judged by a table.
pub struct TableChecker {
    /// (sig, pk) pairs that verify
    pub good: HashSet<(Vec<u8>, Vec<u8>)>,
    pub locktime_ok: Box<dyn Fn(i64) -> bool + Sync + Send>,
    pub sequence_ok: Box<dyn Fn(i64) -> bool + Sync + Send>,
}

impl Checker for TableChecker {
    fn check_ecdsa(&self, sig: &[u8], pk: &[u8], _: SigVer) -> bool {
        self.good.contains(&(sig.to_vec(), pk.to_vec()))
    }
    fn check_schnorr(&self, sig: &[u8], pk: &[u8]) -> bool {
        self.good.contains(&(sig.to_vec(), pk.to_vec()))
    }
    fn check_locktime(&self, n: i64) -> bool { (self.locktime_ok)(n) }
    fn check_sequence(&self, n: i64) -> bool { (self.sequence_ok)(n) }
}

// ---------- number helpers ----------

pub fn cast_bool(v: &[u8]) -> bool {
    for (i, b) in v.iter().enumerate() {
        if *b != 0 {
            if i == v.len() - 1 && *b == 0x80 {
                return false;
            }
            return true;
        }
    }
    false
}

pub fn num_decode(v: &[u8], max_len: usize, minimal: bool) -> Result<i64, &'static str> {
    if v.len() > max_len {
        return Err("scriptnum overflow");
    }
    if minimal && !v.is_empty() {
        let last = v[v.len() - 1];
        if last & 0x7f == 0 {
            if v.len() <= 1 || (v[v.len() - 2] & 0x80) == 0 {
                return Err("non-minimal scriptnum");
            }
        }
    }
    if v.is_empty() {
        return Ok(0);
    }
    let mut r: i64 = 0;
    for (i, b) in v.iter().enumerate() {
        r |= (*b as i64) << (8 * i);
    }
    let last = v[v.len() - 1];
    if last & 0x80 != 0 {
        r &= !(0x80i64 << (8 * (v.len() - 1)));
        r = -r;
    }
    Ok(r)
}

pub fn num_encode(n: i64) -> Vec<u8> { crate::ast::scriptnum_bytes(n) }

// ---------- the machine ----------

#[derive(Clone)]
pub struct St {
    pub pc: usize,
    pub stack: Vec<Vec<u8>>,
    pub alt: Vec<Vec<u8>>,
    pub cond: Vec<bool>,
    pub opcount: u32,
    /// elements materialised from the unknown part of the initial stack, in the order needed
    pub mat: Vec<Vec<u8>>,
    pub trace: Trace,
    /// digests produced by hash opcodes on this path (for the passed-hash trace)
    produced: Vec<(u8, Vec<u8>, Vec<u8>)>,
}

impl St {
    pub fn new(initial: Vec<Vec<u8>>) -> St {
        St {
            pc: 0,
            stack: initial,
            alt: vec![],
            cond: vec![],
            opcount: 0,
            mat: vec![],
            trace: Trace::default(),
            produced: vec![],
        }
    }
    fn top(&self, i: usize) -> &Vec<u8> { &self.stack[self.stack.len() - 1 - i] }
    fn pop(&mut self) -> Vec<u8> { self.stack.pop().unwrap() }
    fn key(&self) -> (usize, Vec<Vec<u8>>, Vec<Vec<u8>>, Vec<bool>, u32) {
        (self.pc, self.stack.clone(), self.alt.clone(), self.cond.clone(), self.opcount)
    }
}

pub enum Step {
    Continue,
    Done,
    Fail(&'static str),
    Need(usize),
}

pub struct Exec<'a> {
    pub ops: Vec<Op>,
    pub sigver: SigVer,
    pub standard: bool,
    pub checker: &'a dyn Checker,
    pub script_len: usize,
}

impl<'a> Exec<'a> {
    pub fn new(script: &[u8], sigver: SigVer, standard: bool, checker: &'a dyn Checker) -> Self {
        Exec { ops: parse_script(script), sigver, standard, checker, script_len: script.len() }
    }

    fn minimaldata(&self) -> bool { self.standard }
    fn minimalif(&self) -> bool {
        match self.sigver {
            SigVer::Tapscript => true,
            SigVer::WitnessV0 => self.standard,
            SigVer::Base => false,
        }
    }
    fn nullfail(&self) -> bool { self.standard || self.sigver == SigVer::Tapscript }

    fn check_sig_encoding(&self, sig: &[u8]) -> Result<(), &'static str> {
        if sig.is_empty() {
            return Ok(());
        }
        // DERSIG is consensus (BIP66)
        if !is_valid_der_sig(sig) {
            return Err("sig not DER");
        }
        if self.standard {
            // LOW_S
            let der = &sig[..sig.len() - 1];
            let s = secp256k1::ecdsa::Signature::from_der(der).map_err(|_| "sig not DER")?;
            let mut n = s;
            n.normalize_s();
            if n != s {
                return Err("sig high S");
            }
            // STRICTENC: defined hashtype
            let ht = sig[sig.len() - 1] & !0x80;
            if !(1..=3).contains(&ht) {
                return Err("sig hashtype");
            }
        }
        Ok(())
    }

    fn check_pubkey_encoding(&self, pk: &[u8]) -> Result<(), &'static str> {
        if self.standard {
            let ok = (pk.len() == 33 && (pk[0] == 2 || pk[0] == 3)) || (pk.len() == 65 && pk[0] == 4);
            if !ok {
                return Err("pubkey type");
            }
        }
        if self.standard && self.sigver == SigVer::WitnessV0 {
            if !(pk.len() == 33 && (pk[0] == 2 || pk[0] == 3)) {
                return Err("witness pubkey type");
            }
        }
        Ok(())
    }

    /// signature check for CHECKSIG / CHECKSIGADD; Ok(success)
    fn eval_checksig(&self, st: &mut St, sig: &[u8], pk: &[u8]) -> Result<bool, &'static str> {
        match self.sigver {
            SigVer::Base | SigVer::WitnessV0 => {
                self.check_sig_encoding(sig)?;
                self.check_pubkey_encoding(pk)?;
                let ok = self.checker.check_ecdsa(sig, pk, self.sigver);
                if !ok && self.nullfail() && !sig.is_empty() {
                    return Err("nullfail");
                }
                if ok {
                    st.trace.sigs.push((pk.to_vec(), sig.to_vec()));
                }
                Ok(ok)
            }
            SigVer::Tapscript => {
                let success = !sig.is_empty();
                if success {
                    st.trace.sigops_nonempty += 1;
                }
                if pk.is_empty() {
                    return Err("empty pubkey");
                }
                if pk.len() == 32 {
                    if success {
                        if !self.checker.check_schnorr(sig, pk) {
                            return Err("schnorr sig");
                        }
                        st.trace.sigs.push((pk.to_vec(), sig.to_vec()));
                    }
                } else if self.standard {
                    return Err("discourage upgradable pubkey type");
                }
                Ok(success)
            }
        }
    }

    pub fn step(&self, st: &mut St) -> Step {
        if st.pc >= self.ops.len() {
            if !st.cond.is_empty() {
                return Step::Fail("unbalanced conditional");
            }
            return Step::Done;
        }
        let exec = st.cond.iter().all(|b| *b);
        let minimal = self.minimaldata();
        macro_rules! need {
            ($n:expr) => {
                if st.stack.len() < $n {
                    return Step::Need($n);
                }
            };
        }
        macro_rules! tri {
            ($e:expr) => {
                match $e {
                    Ok(v) => v,
                    Err(e) => return Step::Fail(e),
                }
            };
        }
        let op = self.ops[st.pc].clone();
        match op {
            Op::Bad => return Step::Fail("bad opcode / truncated push"),
            Op::Push { data, minimal: is_min } => {
                if data.len() > 520 {
                    return Step::Fail("push size");
                }
                if exec {
                    if minimal && !is_min {
                        return Step::Fail("minimaldata");
                    }
                    st.stack.push(data);
                }
            }
            Op::Code(c) => {
                if self.sigver != SigVer::Tapscript && c > OP_16 {
                    st.opcount += 1;
                    if st.opcount > 201 {
                        return Step::Fail("op count");
                    }
                }
                // disabled opcodes fail even when not executed
                if matches!(c, 0x7e..=0x81 | 0x83..=0x86 | 0x8d | 0x8e | 0x95..=0x99) {
                    return Step::Fail("disabled opcode");
                }
                if c == 0xab && self.sigver == SigVer::Base && self.standard {
                    return Step::Fail("codeseparator");
                }
                let is_cond = (IF..=ENDIF).contains(&c);
                if exec || is_cond {
                    match c {
                        OP_1NEGATE => st.stack.push(num_encode(-1)),
                        0x51..=0x60 => st.stack.push(num_encode((c - 0x50) as i64)),
                        NOP => {}
                        CLTV => {
                            need!(1);
                            let n = tri!(num_decode(st.top(0), 5, minimal));
                            if n < 0 {
                                return Step::Fail("negative locktime");
                            }
                            if !self.checker.check_locktime(n) {
                                return Step::Fail("unsatisfied locktime");
                            }
                            st.trace.cltv.push(n);
                        }
                        CSV => {
                            need!(1);
                            let n = tri!(num_decode(st.top(0), 5, minimal));
                            if n < 0 {
                                return Step::Fail("negative sequence");
                            }
                            if n & (1 << 31) == 0 {
                                if !self.checker.check_sequence(n) {
                                    return Step::Fail("unsatisfied sequence");
                                }
                                st.trace.csv.push(n);
                            }
                        }
                        0xb0 | 0xb3..=0xb9 => {
                            if self.standard {
                                return Step::Fail("discourage upgradable nops");
                            }
                        }
                        IF | NOTIF => {
                            let mut v = false;
                            if exec {
                                need!(1);
                                let t = st.top(0).clone();
                                if self.minimalif() {
                                    if t.len() > 1 || (t.len() == 1 && t[0] != 1) {
                                        return Step::Fail("minimalif");
                                    }
                                }
                                v = cast_bool(&t);
                                if c == NOTIF {
                                    v = !v;
                                }
                                st.pop();
                            }
                            st.cond.push(v);
                        }
                        ELSE => {
                            if st.cond.is_empty() {
                                return Step::Fail("unbalanced conditional");
                            }
                            let l = st.cond.len();
                            st.cond[l - 1] = !st.cond[l - 1];
                        }
                        ENDIF => {
                            if st.cond.is_empty() {
                                return Step::Fail("unbalanced conditional");
                            }
                            st.cond.pop();
                        }
                        0x65 | 0x66 => return Step::Fail("VERIF"),
                        VERIFY => {
                            need!(1);
                            if !cast_bool(st.top(0)) {
                                return Step::Fail("verify");
                            }
                            st.pop();
                        }
                        RETURN => return Step::Fail("op_return"),
                        TOALTSTACK => {
                            need!(1);
                            let v = st.pop();
                            st.alt.push(v);
                        }
                        FROMALTSTACK => {
                            if st.alt.is_empty() {
                                return Step::Fail("altstack empty");
                            }
                            let v = st.alt.pop().unwrap();
                            st.stack.push(v);
                        }
                        IFDUP => {
                            need!(1);
                            if cast_bool(st.top(0)) {
                                let v = st.top(0).clone();
                                st.stack.push(v);
                            }
                        }
                        DROP => {
                            need!(1);
                            st.pop();
                        }
                        DUP => {
                            need!(1);
                            let v = st.top(0).clone();
                            st.stack.push(v);
                        }
                        0x6d => {
                            // 2DROP
                            need!(2);
                            st.pop();
                            st.pop();
                        }
                        0x6e => {
                            // 2DUP
                            need!(2);
                            let a = st.top(1).clone();
                            let b = st.top(0).clone();
                            st.stack.push(a);
                            st.stack.push(b);
                        }
                        0x77 => {
                            // NIP
                            need!(2);
                            let l = st.stack.len();
                            st.stack.remove(l - 2);
                        }
                        0x78 => {
                            // OVER
                            need!(2);
                            let v = st.top(1).clone();
                            st.stack.push(v);
                        }
                        0x7b => {
                            // ROT
                            need!(3);
                            let l = st.stack.len();
                            let v = st.stack.remove(l - 3);
                            st.stack.push(v);
                        }
                        SWAP => {
                            need!(2);
                            let l = st.stack.len();
                            st.stack.swap(l - 1, l - 2);
                        }
                        0x7d => {
                            // TUCK
                            need!(2);
                            let v = st.top(0).clone();
                            let l = st.stack.len();
                            st.stack.insert(l - 2, v);
                        }
                        SIZE => {
                            need!(1);
                            let n = st.top(0).len() as i64;
                            st.stack.push(num_encode(n));
                        }
                        EQUAL | EQUALVERIFY => {
                            need!(2);
                            let a = st.pop();
                            let b = st.pop();
                            let eq = a == b;
                            if eq {
                                if let Some(p) = st.produced.iter().find(|p| p.2 == a).cloned() {
                                    st.trace.hashes.push(p);
                                }
                            }
                            if c == EQUALVERIFY {
                                if !eq {
                                    return Step::Fail("equalverify");
                                }
                            } else {
                                st.stack.push(if eq { vec![1] } else { vec![] });
                            }
                        }
                        0x8b | 0x8c | 0x8f | 0x90 | 0x91 | ZERO_NOT_EQUAL => {
                            need!(1);
                            let n = tri!(num_decode(st.top(0), 4, minimal));
                            st.pop();
                            let r = match c {
                                0x8b => n + 1,
                                0x8c => n - 1,
                                0x8f => -n,
                                0x90 => n.abs(),
                                0x91 => (n == 0) as i64,
                                _ => (n != 0) as i64,
                            };
                            st.stack.push(num_encode(r));
                        }
                        ADD | 0x94 | BOOLAND | BOOLOR | NUMEQUAL | NUMEQUALVERIFY | 0x9e..=0xa4 => {
                            need!(2);
                            let b = tri!(num_decode(st.top(0), 4, minimal));
                            let a = tri!(num_decode(st.top(1), 4, minimal));
                            st.pop();
                            st.pop();
                            let r = match c {
                                ADD => a + b,
                                0x94 => a - b,
                                BOOLAND => (a != 0 && b != 0) as i64,
                                BOOLOR => (a != 0 || b != 0) as i64,
                                NUMEQUAL | NUMEQUALVERIFY => (a == b) as i64,
                                0x9e => (a != b) as i64,
                                0x9f => (a < b) as i64,
                                0xa0 => (a > b) as i64,
                                0xa1 => (a <= b) as i64,
                                0xa2 => (a >= b) as i64,
                                0xa3 => a.min(b),
                                _ => a.max(b),
                            };
                            if c == NUMEQUALVERIFY {
                                if r == 0 {
                                    return Step::Fail("numequalverify");
                                }
                            } else {
                                st.stack.push(num_encode(r));
                            }
                        }
                        RIPEMD160 | SHA256 | HASH160 | HASH256 | 0xa7 => {
                            need!(1);
                            let v = st.pop();
                            let d: Vec<u8> = match c {
                                RIPEMD160 => ripemd160::Hash::hash(&v).to_byte_array().to_vec(),
                                SHA256 => sha256::Hash::hash(&v).to_byte_array().to_vec(),
                                HASH160 => hash160::Hash::hash(&v).to_byte_array().to_vec(),
                                HASH256 => sha256d::Hash::hash(&v).to_byte_array().to_vec(),
                                _ => return Step::Fail("unsupported opcode sha1"),
                            };
                            st.produced.push((c, v.clone(), d.clone()));
                            st.trace.hash_ops.push((c, v, d.clone()));
                            st.stack.push(d);
                        }
                        CHECKSIG | CHECKSIGVERIFY => {
                            need!(2);
                            let pk = st.top(0).clone();
                            let sig = st.top(1).clone();
                            let ok = tri!(self.eval_checksig(st, &sig, &pk));
                            st.pop();
                            st.pop();
                            if c == CHECKSIGVERIFY {
                                if !ok {
                                    return Step::Fail("checksigverify");
                                }
                            } else {
                                st.stack.push(if ok { vec![1] } else { vec![] });
                            }
                        }
                        CHECKSIGADD => {
                            if self.sigver != SigVer::Tapscript {
                                return Step::Fail("bad opcode checksigadd");
                            }
                            need!(3);
                            let pk = st.top(0).clone();
                            let n = tri!(num_decode(st.top(1), 4, minimal));
                            let sig = st.top(2).clone();
                            let ok = tri!(self.eval_checksig(st, &sig, &pk));
                            st.pop();
                            st.pop();
                            st.pop();
                            st.stack.push(num_encode(n + ok as i64));
                        }
                        CHECKMULTISIG | CHECKMULTISIGVERIFY => {
                            if self.sigver == SigVer::Tapscript {
                                return Step::Fail("tapscript checkmultisig");
                            }
                            need!(1);
                            let nk = tri!(num_decode(st.top(0), 4, minimal));
                            if !(0..=20).contains(&nk) {
                                return Step::Fail("pubkey count");
                            }
                            let nk = nk as usize;
                            if st.opcount + nk as u32 > 201 {
                                return Step::Fail("op count");
                            }
                            need!(nk + 2);
                            let ns = tri!(num_decode(st.top(nk + 1), 4, minimal));
                            if ns < 0 || ns as usize > nk {
                                return Step::Fail("sig count");
                            }
                            let ns = ns as usize;
                            need!(nk + ns + 3);
                            st.opcount += nk as u32;
                            // keys: top(1)..top(nk) ; top(1) is the LAST key
                            let keys: Vec<Vec<u8>> = (0..nk).map(|i| st.top(1 + i).clone()).collect();
                            let sigs: Vec<Vec<u8>> = (0..ns).map(|i| st.top(nk + 2 + i).clone()).collect();
                            let dummy = st.top(nk + ns + 2).clone();
                            // matching: both lists are in reverse script order
                            let mut ik = 0usize;
                            let mut is = 0usize;
                            let mut success = true;
                            let mut nsl = ns;
                            let mut nkl = nk;
                            let mut verified = vec![];
                            while success && nsl > 0 {
                                let sig = &sigs[is];
                                let pk = &keys[ik];
                                tri!(self.check_sig_encoding(sig));
                                tri!(self.check_pubkey_encoding(pk));
                                let ok = self.checker.check_ecdsa(sig, pk, self.sigver);
                                if ok {
                                    verified.push((pk.clone(), sig.clone()));
                                    is += 1;
                                    nsl -= 1;
                                }
                                ik += 1;
                                nkl -= 1;
                                if nsl > nkl {
                                    success = false;
                                }
                            }
                            if !success && self.nullfail() && sigs.iter().any(|s| !s.is_empty()) {
                                return Step::Fail("nullfail");
                            }
                            // NULLDUMMY (consensus since segwit activation)
                            if !dummy.is_empty() {
                                return Step::Fail("nulldummy");
                            }
                            for _ in 0..(nk + ns + 3) {
                                st.pop();
                            }
                            if success {
                                st.trace.sigs.extend(verified);
                            }
                            if c == CHECKMULTISIGVERIFY {
                                if !success {
                                    return Step::Fail("checkmultisigverify");
                                }
                            } else {
                                st.stack.push(if success { vec![1] } else { vec![] });
                            }
                        }
                        _ => return Step::Fail("unsupported opcode"),
                    }
                }
            }
        }
        let depth = st.stack.len() + st.alt.len();
        if depth > 1000 {
            return Step::Fail("stack size");
        }
        if depth > st.trace.max_stack {
            st.trace.max_stack = depth;
        }
        st.trace.op_count = st.opcount;
        st.pc += 1;
        Step::Continue
    }

    /// Concrete run to completion.
    pub fn run(&self, st: &mut St) -> Result<(), &'static str> {
        if self.sigver != SigVer::Tapscript && self.script_len > 10_000 {
            return Err("script size");
        }
        loop {
            match self.step(st) {
                Step::Continue => {}
                Step::Done => return Ok(()),
                Step::Fail(e) => return Err(e),
                Step::Need(_) => return Err("stack underflow"),
            }
        }
    }
}

pub fn is_valid_der_sig(sig: &[u8]) -> bool {
    // BIP66 IsValidSignatureEncoding (sig includes the hashtype byte)
    let l = sig.len();
    if l < 9 || l > 73 {
        return false;
    }
    if sig[0] != 0x30 {
        return false;
    }
    if sig[1] as usize != l - 3 {
        return false;
    }
    let len_r = sig[3] as usize;
    if 5 + len_r >= l {
        return false;
    }
    let len_s = sig[5 + len_r] as usize;
    if len_r + len_s + 7 != l {
        return false;
    }
    if sig[2] != 0x02 {
        return false;
    }
    if len_r == 0 {
        return false;
    }
    if sig[4] & 0x80 != 0 {
        return false;
    }
    if len_r > 1 && sig[4] == 0 && sig[5] & 0x80 == 0 {
        return false;
    }
    if sig[len_r + 4] != 0x02 {
        return false;
    }
    if len_s == 0 {
        return false;
    }
    if sig[len_r + 6] & 0x80 != 0 {
        return false;
    }
    if len_s > 1 && sig[len_r + 6] == 0 && sig[len_r + 7] & 0x80 == 0 {
        return false;
    }
    true
}

// ---------- nondeterministic exploration ----------

#[derive(Clone, Copy, PartialEq, Eq, Debug)]
pub enum Finish {
    /// final stack must be exactly one true element (witness / CLEANSTACK)
    Clean,
    /// record whatever is left (fragment exploration)
    Raw,
}

#[derive(Clone, Debug)]
pub struct Solution {
    /// materialised elements bottom-up (a complete witness in Clean mode)
    pub witness: Vec<Vec<u8>>,
    pub final_stack: Vec<Vec<u8>>,
    pub final_alt: Vec<Vec<u8>>,
    pub trace: Trace,
}

pub struct Exploration {
    pub solutions: Vec<Solution>,
    /// paths that ended in a script failure, when recorded (Raw mode)
    pub failures: u64,
    pub states: u64,
    pub transitions: u64,
    pub capped: bool,
}

pub struct ExploreOpts<'s> {
    pub sigma: &'s [Vec<u8>],
    pub finish: Finish,
    /// stop at first solution and merge confluent states
    pub existence_only: bool,
    pub max_states: u64,
    /// elements already known on the stack (bottom-up) above the unknown region
    pub initial: Vec<Vec<u8>>,
    /// maximum number of elements to materialise
    pub max_materialise: usize,
}

pub fn explore(ex: &Exec, opts: &ExploreOpts) -> Exploration {
    let mut out = Exploration { solutions: vec![], failures: 0, states: 0, transitions: 0, capped: false };
    let mut seen: HashSet<(usize, Vec<Vec<u8>>, Vec<Vec<u8>>, Vec<bool>, u32)> = HashSet::new();
    let mut work: Vec<St> = vec![St::new(opts.initial.clone())];
    if ex.sigver != SigVer::Tapscript && ex.script_len > 10_000 {
        return out;
    }
    while let Some(mut st) = work.pop() {
        out.states += 1;
        if out.states > opts.max_states {
            out.capped = true;
            return out;
        }
        loop {
            match ex.step(&mut st) {
                Step::Continue => {
                    out.transitions += 1;
                }
                Step::Fail(_) => {
                    out.failures += 1;
                    break;
                }
                Step::Done => {
                    // Clean: exactly one true element on the main stack (a non-empty altstack is
                    // not a consensus failure). Raw: whatever is left is reported.
                    let ok = match opts.finish {
                        Finish::Clean => st.stack.len() == 1 && cast_bool(&st.stack[0]),
                        Finish::Raw => true,
                    };
                    if ok {
                        let mut w = st.mat.clone();
                        w.reverse();
                        out.solutions.push(Solution {
                            witness: w,
                            final_stack: st.stack.clone(),
                            final_alt: st.alt.clone(),
                            trace: st.trace.clone(),
                        });
                        if opts.existence_only {
                            return out;
                        }
                    } else {
                        out.failures += 1;
                    }
                    break;
                }
                Step::Need(_) => {
                    if st.mat.len() >= opts.max_materialise {
                        out.failures += 1;
                        break;
                    }
                    // branch: materialise one more element at the bottom
                    for e in opts.sigma.iter().rev() {
                        if e.len() > 520 {
                            continue;
                        }
                        let mut s2 = st.clone();
                        s2.stack.insert(0, e.clone());
                        s2.mat.push(e.clone());
                        if opts.existence_only {
                            if !seen.insert(s2.key()) {
                                continue;
                            }
                        }
                        work.push(s2);
                    }
                    break;
                }
            }
        }
    }
    out
}

// ---------- spend verification ----------

#[derive(Clone, Debug, Default)]
pub struct SpendTrace {
    pub trace: Trace,
    pub kind: &'static str,
    /// the executed script (witness script / redeem script / tap leaf / spk)
    pub script: Vec<u8>,
    /// initial stack handed to that script
    pub initial_stack: Vec<Vec<u8>>,
    pub key_path: bool,
}

fn witness_program(spk: &[u8]) -> Option<(u8, Vec<u8>)> {
    if spk.len() < 4 || spk.len() > 42 {
        return None;
    }
    let v = spk[0];
    if v != 0 && !(0x51..=0x60).contains(&v) {
        return None;
    }
    if spk[1] as usize + 2 != spk.len() {
        return None;
    }
    let ver = if v == 0 { 0 } else { v - 0x50 };
    Some((ver, spk[2..].to_vec()))
}

pub fn tagged_hash(tag: &str, data: &[u8]) -> [u8; 32] {
    let t = sha256::Hash::hash(tag.as_bytes()).to_byte_array();
    let mut v = Vec::with_capacity(64 + data.len());
    v.extend_from_slice(&t);
    v.extend_from_slice(&t);
    v.extend_from_slice(data);
    sha256::Hash::hash(&v).to_byte_array()
}

pub fn compact_size(n: usize) -> Vec<u8> {
    if n < 0xfd {
        vec![n as u8]
    } else if n <= 0xffff {
        let mut v = vec![0xfd];
        v.extend_from_slice(&(n as u16).to_le_bytes());
        v
    } else {
        let mut v = vec![0xfe];
        v.extend_from_slice(&(n as u32).to_le_bytes());
        v
    }
}

pub fn tapleaf_hash(version: u8, script: &[u8]) -> [u8; 32] {
    let mut d = vec![version];
    d.extend(compact_size(script.len()));
    d.extend_from_slice(script);
    tagged_hash("TapLeaf", &d)
}

pub fn tapbranch_hash(a: &[u8; 32], b: &[u8; 32]) -> [u8; 32] {
    let mut d = Vec::with_capacity(64);
    if a <= b {
        d.extend_from_slice(a);
        d.extend_from_slice(b);
    } else {
        d.extend_from_slice(b);
        d.extend_from_slice(a);
    }
    tagged_hash("TapBranch", &d)
}

/// Returns (output key x-only bytes, parity) for internal key p and optional merkle root.
pub fn taproot_tweak(p: &[u8; 32], root: Option<&[u8; 32]>) -> Option<([u8; 32], u8)> {
    let mut d = p.to_vec();
    if let Some(r) = root {
        d.extend_from_slice(r);
    }
    let t = tagged_hash("TapTweak", &d);
    let xo = secp256k1::XOnlyPublicKey::from_slice(p).ok()?;
    let scalar = secp256k1::Scalar::from_be_bytes(t).ok()?;
    let (q, parity) = xo.add_tweak(SECP256K1, &scalar).ok()?;
    Some((q.serialize(), if parity == secp256k1::Parity::Odd { 1 } else { 0 }))
}

fn witness_serialized_size(w: &[Vec<u8>]) -> usize {
    compact_size(w.len()).len() + w.iter().map(|e| compact_size(e.len()).len() + e.len()).sum::<usize>()
}

/// Verify input `spend.idx` with the given scriptSig and witness.
pub fn verify_input(
    spend: &Spend,
    script_sig: &[u8],
    witness: &[Vec<u8>],
    standard: bool,
) -> Result<SpendTrace, String> {
    let spk = spend.prevouts[spend.idx].script_pubkey.as_bytes().to_vec();
    let e = |s: &'static str| s.to_string();

    if standard && !is_push_only(script_sig) {
        return Err(e("sigpushonly"));
    }
    if standard && script_sig.len() > 1650 {
        return Err(e("scriptsig size (standardness)"));
    }
    // 1. scriptSig
    let chk0 = TxChecker::new(spend, spk.clone(), None);
    let ex_sig = Exec::new(script_sig, SigVer::Base, standard, &chk0);
    let mut st = St::new(vec![]);
    ex_sig.run(&mut st).map_err(|x| format!("scriptSig: {}", x))?;
    let stack_after_sig = st.stack.clone();
    // 2. scriptPubKey
    let chk_spk = TxChecker::new(spend, spk.clone(), None);
    let ex_spk = Exec::new(&spk, SigVer::Base, standard, &chk_spk);
    let mut st2 = St::new(stack_after_sig.clone());
    ex_spk.run(&mut st2).map_err(|x| format!("scriptPubKey: {}", x))?;
    if st2.stack.is_empty() || !cast_bool(st2.stack.last().unwrap()) {
        return Err(e("scriptPubKey: eval false"));
    }
    let mut result = SpendTrace {
        trace: st2.trace.clone(),
        kind: "bare",
        script: spk.clone(),
        initial_stack: stack_after_sig.clone(),
        key_path: false,
    };
    let mut had_witness = false;
    let mut final_stack = st2.stack.clone();

    // 3. witness program directly
    if let Some((ver, prog)) = witness_program(&spk) {
        had_witness = true;
        if !script_sig.is_empty() {
            return Err(e("witness malleated"));
        }
        result = verify_witness_program(spend, ver, &prog, witness, standard, false)?;
        final_stack = vec![vec![1]];
    } else if spk.len() == 23 && spk[0] == HASH160 && spk[1] == 0x14 && spk[22] == EQUAL {
        // P2SH
        if !is_push_only(script_sig) {
            return Err(e("p2sh sigpushonly"));
        }
        let mut s = stack_after_sig.clone();
        let redeem = s.pop().ok_or_else(|| e("p2sh empty stack"))?;
        let chk = TxChecker::new(spend, redeem.clone(), None);
        let ex = Exec::new(&redeem, SigVer::Base, standard, &chk);
        let mut st3 = St::new(s.clone());
        ex.run(&mut st3).map_err(|x| format!("redeemScript: {}", x))?;
        if st3.stack.is_empty() || !cast_bool(st3.stack.last().unwrap()) {
            return Err(e("redeemScript: eval false"));
        }
        final_stack = st3.stack.clone();
        result = SpendTrace {
            trace: st3.trace.clone(),
            kind: "sh",
            script: redeem.clone(),
            initial_stack: s,
            key_path: false,
        };
        if let Some((ver, prog)) = witness_program(&redeem) {
            had_witness = true;
            // scriptSig must be exactly a single push of the redeem script
            let mut exp = vec![];
            crate::ast::push_data_minimal(&redeem, &mut exp);
            if script_sig != &exp[..] {
                return Err(e("witness malleated p2sh"));
            }
            result = verify_witness_program(spend, ver, &prog, witness, standard, true)?;
            final_stack = vec![vec![1]];
        }
    }
    // 4. CLEANSTACK (policy for legacy/P2SH)
    if standard && final_stack.len() != 1 {
        return Err(e("cleanstack"));
    }
    // 5. unexpected witness
    if !had_witness && !witness.is_empty() {
        return Err(e("witness unexpected"));
    }
    Ok(result)
}

fn verify_witness_program(
    spend: &Spend,
    ver: u8,
    prog: &[u8],
    witness: &[Vec<u8>],
    standard: bool,
    is_p2sh: bool,
) -> Result<SpendTrace, String> {
    let e = |s: &'static str| s.to_string();
    if ver == 0 {
        if prog.len() == 32 {
            if witness.is_empty() {
                return Err(e("witness program witness empty"));
            }
            let script = witness.last().unwrap().clone();
            let stack: Vec<Vec<u8>> = witness[..witness.len() - 1].to_vec();
            if sha256::Hash::hash(&script).to_byte_array()[..] != prog[..] {
                return Err(e("witness program mismatch"));
            }
            if standard {
                if script.len() > 3600 {
                    return Err(e("p2wsh script size (standardness)"));
                }
                if stack.len() > 100 {
                    return Err(e("p2wsh stack items (standardness)"));
                }
                if stack.iter().any(|x| x.len() > 80) {
                    return Err(e("p2wsh stack item size (standardness)"));
                }
            }
            return exec_witness_script(spend, &script, stack, SigVer::WitnessV0, None, standard, "wsh", witness);
        } else if prog.len() == 20 {
            if witness.len() != 2 {
                return Err(e("witness program mismatch (p2wpkh needs 2 items)"));
            }
            let mut script = vec![DUP, HASH160, 0x14];
            script.extend_from_slice(prog);
            script.push(EQUALVERIFY);
            script.push(CHECKSIG);
            return exec_witness_script(
                spend,
                &script,
                witness.to_vec(),
                SigVer::WitnessV0,
                None,
                standard,
                "wpkh",
                witness,
            );
        } else {
            return Err(e("witness program wrong length"));
        }
    }
    if ver == 1 && prog.len() == 32 && !is_p2sh {
        if witness.is_empty() {
            return Err(e("witness program witness empty"));
        }
        let mut w: Vec<Vec<u8>> = witness.to_vec();
        if w.len() >= 2 && !w.last().unwrap().is_empty() && w.last().unwrap()[0] == 0x50 {
            // annex
            if standard {
                return Err(e("annex (standardness)"));
            }
            // the harness never signs with an annex; a spend carrying one cannot have a valid
            // signature for our digest, treat as failure of all sig checks by removing it and
            // continuing with a digest that ignores it is wrong, so refuse explicitly.
            return Err(e("annex unsupported by reference machine"));
        }
        if w.len() == 1 {
            // key path
            let sig = &w[0];
            let chk = TxChecker::new(spend, vec![], None);
            if !chk.check_schnorr(sig, prog) {
                return Err(e("taproot key path signature"));
            }
            let mut t = Trace::default();
            t.sigs.push((prog.to_vec(), sig.clone()));
            return Ok(SpendTrace { trace: t, kind: "tr-key", script: vec![], initial_stack: vec![], key_path: true });
        }
        let control = w.pop().unwrap();
        let script = w.pop().unwrap();
        if control.len() < 33 || control.len() > 33 + 32 * 128 || (control.len() - 33) % 32 != 0 {
            return Err(e("taproot control size"));
        }
        let leaf_ver = control[0] & 0xfe;
        let mut k = tapleaf_hash(leaf_ver, &script);
        let leaf = k;
        let mut p = [0u8; 32];
        p.copy_from_slice(&control[1..33]);
        for c in control[33..].chunks(32) {
            let mut n = [0u8; 32];
            n.copy_from_slice(c);
            k = tapbranch_hash(&k, &n);
        }
        let (q, parity) = taproot_tweak(&p, Some(&k)).ok_or_else(|| e("taproot tweak"))?;
        if q[..] != prog[..] || parity != (control[0] & 1) {
            return Err(e("witness program mismatch (taproot commitment)"));
        }
        if leaf_ver == 0xc0 {
            if w.len() > 1000 {
                return Err(e("stack size"));
            }
            if w.iter().any(|x| x.len() > 520) {
                return Err(e("push size"));
            }
            let lh = TapLeafHash::from_byte_array(leaf);
            return exec_witness_script(spend, &script, w, SigVer::Tapscript, Some(lh), standard, "tr-script", witness);
        }
        if standard {
            return Err(e("discourage upgradable taproot version"));
        }
        return Ok(SpendTrace { trace: Trace::default(), kind: "tr-unknown-leaf", script, initial_stack: w, key_path: false });
    }
    if standard {
        return Err(e("discourage upgradable witness program"));
    }
    Ok(SpendTrace { trace: Trace::default(), kind: "unknown-witness", script: vec![], initial_stack: vec![], key_path: false })
}

fn is_op_success(o: u8) -> bool {
    o == 80 || o == 98 || (126..=129).contains(&o) || (131..=134).contains(&o) || (137..=138).contains(&o)
        || (141..=142).contains(&o) || (149..=153).contains(&o) || (187..=254).contains(&o)
}

#[allow(clippy::too_many_arguments)]
fn exec_witness_script(
    spend: &Spend,
    script: &[u8],
    stack: Vec<Vec<u8>>,
    sigver: SigVer,
    leaf: Option<TapLeafHash>,
    standard: bool,
    kind: &'static str,
    full_witness: &[Vec<u8>],
) -> Result<SpendTrace, String> {
    if sigver == SigVer::Tapscript {
        for o in parse_script(script) {
            match o {
                Op::Bad => return Err("bad opcode".into()),
                Op::Code(c) if is_op_success(c) => {
                    if standard {
                        return Err("discourage op_success".into());
                    }
                    return Ok(SpendTrace {
                        trace: Trace::default(),
                        kind: "tr-op-success",
                        script: script.to_vec(),
                        initial_stack: stack,
                        key_path: false,
                    });
                }
                _ => {}
            }
        }
    } else if stack.iter().any(|x| x.len() > 520) {
        return Err("push size".into());
    }
    let chk = TxChecker::new(spend, script.to_vec(), leaf);
    let ex = Exec::new(script, sigver, standard, &chk);
    let mut st = St::new(stack.clone());
    ex.run(&mut st).map_err(|x| format!("{}: {}", kind, x))?;
    if st.stack.len() != 1 {
        return Err(format!("{}: cleanstack", kind));
    }
    if !cast_bool(&st.stack[0]) {
        return Err(format!("{}: eval false", kind));
    }
    if sigver == SigVer::Tapscript {
        let budget = 50 + witness_serialized_size(full_witness) as i64;
        if 50 * st.trace.sigops_nonempty as i64 > budget {
            return Err("tapscript validation weight".into());
        }
    }
    Ok(SpendTrace { trace: st.trace, kind, script: script.to_vec(), initial_stack: stack, key_path: false })
}

//! Term explorer: breadth-first, level-by-level generation of ALL well-typed
//! miniscript terms up to a node bound. A state is a term accepted by the real
//! `Miniscript::from_ast`; a transition is one constructor application.

use std::sync::atomic::{AtomicU64, Ordering};
use std::sync::Arc;

use miniscript::miniscript::limits::{MAX_PUBKEYS_IN_CHECKSIGADD, MAX_PUBKEYS_PER_MULTISIG};
use miniscript::{AbsLockTime, Miniscript, RelLockTime, ScriptContext, Terminal, Threshold};
use rayon::prelude::*;

pub type Ms<Ctx> = Arc<Miniscript<String, Ctx>>;

/// Script contexts usable across threads.
pub trait Cx: ScriptContext + Send + Sync {}
impl<C: ScriptContext + Send + Sync> Cx for C {}

#[derive(Clone, Copy, PartialEq, Eq, Debug)]
pub enum Alphabet {
    /// 0,1,pk_k,pk_h,older(5),after(10),sha256,multi/multi_a(1 of 2)
    Small,
    /// + time-based locks, the other three hashes, 2-of-3 multi, sortedmulti(_a)
    Full,
}

pub struct Terms<Ctx: Cx> {
    /// levels[n] = all well-typed terms with exactly n nodes (levels[0] empty)
    pub levels: Vec<Vec<Ms<Ctx>>>,
    pub attempted: u64,
    pub accepted: u64,
}

fn k() -> String { "K".to_string() }
fn h() -> String { "H".to_string() }

pub fn leaves<Ctx: ScriptContext>(alpha: Alphabet, tap: bool) -> Vec<Terminal<String, Ctx>> {
    let mut v: Vec<Terminal<String, Ctx>> = vec![
        Terminal::False,
        Terminal::True,
        Terminal::PkK(k()),
        Terminal::PkH(k()),
        Terminal::Older(RelLockTime::from_consensus(5).unwrap()),
        Terminal::After(AbsLockTime::from_consensus(10).unwrap()),
        Terminal::Sha256(h()),
    ];
    if tap {
        v.push(Terminal::MultiA(
            Threshold::<String, MAX_PUBKEYS_IN_CHECKSIGADD>::new(1, vec![k(), k()]).unwrap(),
        ));
    } else {
        v.push(Terminal::Multi(
            Threshold::<String, MAX_PUBKEYS_PER_MULTISIG>::new(1, vec![k(), k()]).unwrap(),
        ));
    }
    if alpha == Alphabet::Full {
        v.push(Terminal::Older(RelLockTime::from_consensus(4194309).unwrap()));
        v.push(Terminal::After(AbsLockTime::from_consensus(500_000_010).unwrap()));
        v.push(Terminal::Hash256(h()));
        v.push(Terminal::Ripemd160(h()));
        v.push(Terminal::Hash160(h()));
        if tap {
            v.push(Terminal::MultiA(
                Threshold::<String, MAX_PUBKEYS_IN_CHECKSIGADD>::new(2, vec![k(), k(), k()]).unwrap(),
            ));
            v.push(Terminal::SortedMultiA(
                Threshold::<String, MAX_PUBKEYS_IN_CHECKSIGADD>::new(2, vec![k(), k(), k()]).unwrap(),
            ));
        } else {
            v.push(Terminal::Multi(
                Threshold::<String, MAX_PUBKEYS_PER_MULTISIG>::new(2, vec![k(), k(), k()]).unwrap(),
            ));
            v.push(Terminal::SortedMulti(
                Threshold::<String, MAX_PUBKEYS_PER_MULTISIG>::new(2, vec![k(), k(), k()]).unwrap(),
            ));
        }
    }
    v
}

/// Observer of every constructor application the explorer attempts (accepted or refused).
pub type Hook<'a, Ctx> = &'a (dyn Fn(&Terminal<String, Ctx>, &Result<Miniscript<String, Ctx>, miniscript::Error>) + Sync);

fn try_ast<Ctx: ScriptContext>(
    t: Terminal<String, Ctx>,
    att: &(&AtomicU64, Option<Hook<Ctx>>),
    out: &mut Vec<Ms<Ctx>>,
) {
    att.0.fetch_add(1, Ordering::Relaxed);
    // a constructor that panics is a refusal for the enumeration (the term does not exist); the
    // panic is kept so that the checks which own that question (C05, C11, C12) can report it
    let tc = t.clone();
    let r = match crate::common::guard(|| Miniscript::from_ast(tc)) {
        Ok(r) => r,
        Err(p) => {
            if let Ok(mut g) = CONSTRUCTOR_PANICS.lock() {
                if g.len() < 16 {
                    // (Debug of a Terminal type-checks it again: guarded too)
                    let shown = crate::common::guard(|| format!("{:?}", t)).unwrap_or_else(|_| "<a term whose Debug output panics as well>".into());
                    g.push(format!("from_ast({}) panicked at {}", shown, p));
                }
            }
            return;
        }
    };
    if let Some(h) = att.1 {
        h(&t, &r);
    }
    if let Ok(ms) = r {
        out.push(Arc::new(ms));
    }
}

/// Panics of `Miniscript::from_ast` seen by the term explorer (first 16).
pub static CONSTRUCTOR_PANICS: std::sync::Mutex<Vec<String>> = std::sync::Mutex::new(Vec::new());

/// Report explorer-level constructor panics as violations of `prop` (used by C05 / C12).
pub fn report_constructor_panics(rep: &crate::common::Report, prop: &str) {
    let g = CONSTRUCTOR_PANICS.lock().map(|g| g.clone()).unwrap_or_default();
    for p in g {
        rep.violation(crate::common::Violation {
            key: format!("{}|from_ast-panic|{}", prop, p),
            class: "constructor-panic".into(),
            what: p.clone(),
            case: serde_json::json!({"what": p}),
        });
    }
}

pub fn explore<Ctx: Cx>(max_nodes: usize, alpha: Alphabet, tap: bool) -> Terms<Ctx> {
    explore_hook::<Ctx>(max_nodes, alpha, tap, None)
}

pub fn explore_hook<Ctx: Cx>(max_nodes: usize, alpha: Alphabet, tap: bool, hook: Option<Hook<Ctx>>) -> Terms<Ctx> {
    let att_ctr = AtomicU64::new(0);
    let att = (&att_ctr, hook);
    let mut levels: Vec<Vec<Ms<Ctx>>> = vec![vec![]];
    // level 1: leaves
    let mut l1 = vec![];
    for t in leaves::<Ctx>(alpha, tap) {
        try_ast(t, &att, &mut l1);
    }
    levels.push(l1);

    for n in 2..=max_nodes {
        let mut cur: Vec<Ms<Ctx>> = vec![];
        // unary wrappers over level n-1
        let prev = &levels[n - 1];
        let un: Vec<Ms<Ctx>> = prev
            .par_iter()
            .flat_map_iter(|x| {
                let mut out = vec![];
                try_ast(Terminal::Alt(x.clone()), &att, &mut out);
                try_ast(Terminal::Swap(x.clone()), &att, &mut out);
                try_ast(Terminal::Check(x.clone()), &att, &mut out);
                try_ast(Terminal::DupIf(x.clone()), &att, &mut out);
                try_ast(Terminal::Verify(x.clone()), &att, &mut out);
                try_ast(Terminal::NonZero(x.clone()), &att, &mut out);
                try_ast(Terminal::ZeroNotEqual(x.clone()), &att, &mut out);
                // thresh with a single child
                try_ast(Terminal::Thresh(Threshold::new(1, vec![x.clone()]).unwrap()), &att, &mut out);
                out
            })
            .collect();
        cur.extend(un);

        // binary over all splits a + b = n - 1
        for a in 1..n - 1 {
            let b = n - 1 - a;
            if b < 1 {
                continue;
            }
            let (la, lb) = (&levels[a], &levels[b]);
            let bin: Vec<Ms<Ctx>> = la
                .par_iter()
                .flat_map_iter(|x| {
                    let mut out = vec![];
                    for y in lb.iter() {
                        try_ast(Terminal::AndV(x.clone(), y.clone()), &att, &mut out);
                        try_ast(Terminal::AndB(x.clone(), y.clone()), &att, &mut out);
                        try_ast(Terminal::OrB(x.clone(), y.clone()), &att, &mut out);
                        try_ast(Terminal::OrC(x.clone(), y.clone()), &att, &mut out);
                        try_ast(Terminal::OrD(x.clone(), y.clone()), &att, &mut out);
                        try_ast(Terminal::OrI(x.clone(), y.clone()), &att, &mut out);
                        for kk in 1..=2 {
                            try_ast(
                                Terminal::Thresh(Threshold::new(kk, vec![x.clone(), y.clone()]).unwrap()),
                                &att,
                                &mut out,
                            );
                        }
                    }
                    out
                })
                .collect();
            cur.extend(bin);
        }

        // ternary over all splits a + b + c = n - 1
        for a in 1..n {
            for b in 1..n {
                if a + b >= n - 1 {
                    continue;
                }
                let c = n - 1 - a - b;
                let (la, lb, lc) = (&levels[a], &levels[b], &levels[c]);
                let ter: Vec<Ms<Ctx>> = la
                    .par_iter()
                    .flat_map_iter(|x| {
                        let mut out = vec![];
                        // cheap pre-filter that mirrors nothing in the crate: only skip
                        // combinations where from_ast is called anyway below; no filter.
                        for y in lb.iter() {
                            for z in lc.iter() {
                                try_ast(
                                    Terminal::AndOr(x.clone(), y.clone(), z.clone()),
                                    &att,
                                    &mut out,
                                );
                                for kk in 1..=3 {
                                    try_ast(
                                        Terminal::Thresh(
                                            Threshold::new(kk, vec![x.clone(), y.clone(), z.clone()])
                                                .unwrap(),
                                        ),
                                        &att,
                                        &mut out,
                                    );
                                }
                            }
                        }
                        out
                    })
                    .collect();
                cur.extend(ter);
            }
        }
        levels.push(cur);
    }
    let accepted = levels.iter().map(|l| l.len() as u64).sum();
    Terms { levels, attempted: att_ctr.load(Ordering::Relaxed), accepted }
}

impl<Ctx: Cx> Terms<Ctx> {
    pub fn all(&self) -> impl Iterator<Item = &Ms<Ctx>> {
        self.levels.iter().flat_map(|l| l.iter())
    }
    pub fn count(&self) -> usize { self.levels.iter().map(|l| l.len()).sum() }
    pub fn level_sizes(&self) -> Vec<usize> { self.levels.iter().map(|l| l.len()).collect() }
}

/// All set partitions of `n` positions as restricted-growth strings.
pub fn set_partitions(n: usize) -> Vec<Vec<usize>> {
    fn rec(i: usize, n: usize, maxv: usize, cur: &mut Vec<usize>, out: &mut Vec<Vec<usize>>) {
        if i == n {
            out.push(cur.clone());
            return;
        }
        for v in 0..=maxv {
            cur.push(v);
            rec(i + 1, n, if v == maxv { maxv + 1 } else { maxv }, cur, out);
            cur.pop();
        }
    }
    let mut out = vec![];
    rec(0, n, 0, &mut vec![], &mut out);
    out
}

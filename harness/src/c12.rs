//! C12 — accepted scripts obey their context; validation switches mean what they say.

use std::collections::BTreeMap;
use std::str::FromStr;

use miniscript::descriptor::{Bare, Sh, Wsh};
use miniscript::miniscript::types::Base;
use miniscript::{
    BareCtx, DefiniteDescriptorKey, Descriptor, Legacy, Miniscript, ScriptContext, Segwitv0, Tap, ValidationError, ValidationParams,
};
use rayon::prelude::*;
use serde_json::json;

use crate::ast::{build, walk, StrEnv, T};
use crate::c06::spec_type;
use crate::common::*;
use crate::desc::{build_desc, D};
use crate::keys::{DefEnv, KeyForm, PkEnv};
use crate::sat::key_partitions;
use crate::terms::{explore, Alphabet, Cx};

type Census = BTreeMap<&'static str, u64>;
fn bump(c: &mut Census, k: &'static str) { *c.entry(k).or_insert(0) += 1; }
fn merge(a: &mut Census, b: Census) {
    for (k, v) in b {
        *a.entry(k).or_insert(0) += v;
    }
}

// ---------- reference predicates (structure only) ----------

fn any_node(t: &T, f: &dyn Fn(&T) -> bool) -> bool { t.nodes().iter().any(|n| f(n)) }

fn satisfiable(t: &T) -> bool {
    use T::*;
    match t {
        False => false,
        Alt(x) | Swap(x) | Check(x) | DupIf(x) | Verify(x) | NonZero(x) | ZeroNotEqual(x) => satisfiable(x),
        AndV(a, b) | AndB(a, b) => satisfiable(a) && satisfiable(b),
        OrB(a, b) | OrD(a, b) | OrC(a, b) | OrI(a, b) => satisfiable(a) || satisfiable(b),
        AndOr(a, b, c) => (satisfiable(a) && satisfiable(b)) || satisfiable(c),
        Thresh(k, v) => v.iter().filter(|c| satisfiable(c)).count() >= *k,
        _ => true,
    }
}

/// set of lock-kind masks (bit0 csv-height, bit1 csv-time, bit2 cltv-height, bit3 cltv-time)
/// over all satisfying paths
fn sat_lock_masks(t: &T) -> Vec<u8> {
    use T::*;
    let uniq = |mut v: Vec<u8>| {
        v.sort();
        v.dedup();
        v
    };
    match t {
        False => vec![],
        Older(n) => vec![if n & (1 << 22) != 0 { 2 } else { 1 }],
        After(n) => vec![if *n >= 500_000_000 { 8 } else { 4 }],
        Alt(x) | Swap(x) | Check(x) | DupIf(x) | Verify(x) | NonZero(x) | ZeroNotEqual(x) => sat_lock_masks(x),
        AndV(a, b) | AndB(a, b) => {
            let (x, y) = (sat_lock_masks(a), sat_lock_masks(b));
            uniq(x.iter().flat_map(|p| y.iter().map(move |q| p | q)).collect())
        }
        OrB(a, b) | OrD(a, b) | OrC(a, b) | OrI(a, b) => uniq([sat_lock_masks(a), sat_lock_masks(b)].concat()),
        AndOr(a, b, c) => {
            let (x, y) = (sat_lock_masks(a), sat_lock_masks(b));
            let mut v: Vec<u8> = x.iter().flat_map(|p| y.iter().map(move |q| p | q)).collect();
            v.extend(sat_lock_masks(c));
            uniq(v)
        }
        Thresh(k, v) => {
            // choose any subset of exactly k.. children to satisfy (others dissatisfied: no locks)
            let ms: Vec<Vec<u8>> = v.iter().map(sat_lock_masks).collect();
            let n = v.len();
            let mut out = vec![];
            for sel in 0u32..(1 << n) {
                if (sel.count_ones() as usize) != *k {
                    continue;
                }
                let mut acc: Vec<u8> = vec![0];
                for i in 0..n {
                    if sel & (1 << i) != 0 {
                        acc = acc.iter().flat_map(|p| ms[i].iter().map(move |q| p | q)).collect();
                    }
                }
                out.extend(acc);
            }
            uniq(out)
        }
        _ => vec![0],
    }
}

pub fn mixed_timelocks(t: &T) -> bool { sat_lock_masks(t).iter().any(|m| (m & 3) == 3 || (m & 12) == 12) }

/// The library's documented (syntactic, conservative) notion: a conjunction (and / thresh k>1)
/// whose children carry conflicting lock kinds anywhere below them.
pub fn mixed_timelocks_syntactic(t: &T) -> bool {
    fn kinds(t: &T) -> u8 {
        let mut m = 0;
        for n in t.nodes() {
            match n {
                T::Older(v) => m |= if v & (1 << 22) != 0 { 2 } else { 1 },
                T::After(v) => m |= if *v >= 500_000_000 { 8 } else { 4 },
                _ => {}
            }
        }
        m
    }
    let conflict = |a: u8, b: u8| ((a | b) & 3 == 3 && (a & 3) != 3 && (b & 3) != 3 && (a & 3) != 0 && (b & 3) != 0) || ((a | b) & 12 == 12 && (a & 12) != 12 && (b & 12) != 12 && (a & 12) != 0 && (b & 12) != 0);
    t.nodes().iter().any(|n| match n {
        T::AndV(a, b) | T::AndB(a, b) => conflict(kinds(a), kinds(b)),
        T::AndOr(a, b, _) => conflict(kinds(a), kinds(b)),
        T::Thresh(k, v) if *k > 1 => (0..v.len()).any(|i| (i + 1..v.len()).any(|j| conflict(kinds(&v[i]), kinds(&v[j])))),
        _ => false,
    })
}

/// Node-level reference of the documented time-lock bookkeeping: (csv height, csv time, cltv
/// height, cltv time, combination). Disjunctions take the union of their children; conjunctions
/// (and_v, and_b, the X-and-Y half of andor, thresh with k > 1) additionally flag a combination when
/// one child carries a height lock and another a time lock of the same kind.
pub fn tl_info(t: &T) -> [bool; 5] {
    fn comb(k: usize, cs: &[[bool; 5]]) -> [bool; 5] {
        let mut acc = [false; 5];
        for c in cs {
            if k > 1 {
                let clash = (acc[0] && c[1]) || (acc[1] && c[0]) || (acc[3] && c[2]) || (acc[2] && c[3]);
                acc[4] |= clash;
            }
            for i in 0..5 {
                acc[i] |= c[i];
            }
        }
        acc
    }
    match t {
        T::Older(v) => {
            let time = v & (1 << 22) != 0;
            [!time, time, false, false, false]
        }
        T::After(v) => {
            let time = *v >= 500_000_000;
            [false, false, !time, time, false]
        }
        T::Alt(x) | T::Swap(x) | T::Check(x) | T::DupIf(x) | T::Verify(x) | T::NonZero(x) | T::ZeroNotEqual(x) => tl_info(x),
        T::AndV(a, b) | T::AndB(a, b) => comb(2, &[tl_info(a), tl_info(b)]),
        T::OrB(a, b) | T::OrC(a, b) | T::OrD(a, b) | T::OrI(a, b) => comb(1, &[tl_info(a), tl_info(b)]),
        T::AndOr(a, b, c) => comb(1, &[comb(2, &[tl_info(a), tl_info(b)]), tl_info(c)]),
        T::Thresh(k, v) => comb(*k, &v.iter().map(tl_info).collect::<Vec<_>>()),
        _ => [false; 5],
    }
}

#[derive(Clone, Copy, Debug, PartialEq, Eq)]
enum Sw {
    DuplicateKeys,
    DupIf,
    Malleability,
    Multi,
    MultiA,
    MixedTimeLocks,
    OrI,
    RawPkh,
    SiglessBranch,
    NonB,
    Unsatisfiable,
    UncompressedKeys,
    XOnlyKeys,
    CompressedAndXOnly,
}
const SWITCHES: [Sw; 14] = [
    Sw::DuplicateKeys, Sw::DupIf, Sw::Malleability, Sw::Multi, Sw::MultiA, Sw::MixedTimeLocks, Sw::OrI, Sw::RawPkh,
    Sw::SiglessBranch, Sw::NonB, Sw::Unsatisfiable, Sw::UncompressedKeys, Sw::XOnlyKeys, Sw::CompressedAndXOnly,
];

fn params_with_off(off: &[Sw]) -> ValidationParams {
    let mut p = ValidationParams::MAX;
    for s in off {
        match s {
            Sw::DuplicateKeys => p.allow_duplicate_keys = false,
            Sw::DupIf => p.allow_dup_if = false,
            Sw::Malleability => p.allow_malleability = false,
            Sw::Multi => p.allow_multi = false,
            Sw::MultiA => p.allow_multi_a = false,
            Sw::MixedTimeLocks => p.allow_mixed_time_locks = false,
            Sw::OrI => p.allow_or_i = false,
            Sw::RawPkh => p.allow_raw_pkh = false,
            Sw::SiglessBranch => p.allow_sigless_branch = false,
            Sw::NonB => p.allow_non_b = false,
            Sw::Unsatisfiable => p.allow_unsatisfiable = false,
            Sw::UncompressedKeys => p.allow_uncompressed_keys = false,
            Sw::XOnlyKeys => p.allow_x_only_keys = false,
            Sw::CompressedAndXOnly => {
                p.allow_compressed_keys = false;
                p.allow_x_only_keys = false;
            }
        }
    }
    p
}

struct Defects {
    v: Vec<(Sw, bool)>,
}

fn defects(t: &T, tap: bool, form: KeyForm) -> Defects {
    let st = spec_type(t, tap);
    let has_key = !t.keys().is_empty();
    let mut keys = t.keys();
    let n_keys = keys.len();
    keys.sort();
    keys.dedup();
    let d = |s: Sw| -> bool {
        match s {
            Sw::DuplicateKeys => keys.len() != n_keys,
            Sw::DupIf => any_node(t, &|n| matches!(n, T::DupIf(_))),
            Sw::Malleability => st.map(|s| !s.m).unwrap_or(true),
            Sw::Multi => any_node(t, &|n| matches!(n, T::Multi(..) | T::SortedMulti(..))),
            Sw::MultiA => any_node(t, &|n| matches!(n, T::MultiA(..) | T::SortedMultiA(..))),
            Sw::MixedTimeLocks => mixed_timelocks(t),
            Sw::OrI => any_node(t, &|n| matches!(n, T::OrI(..))),
            Sw::RawPkh => any_node(t, &|n| matches!(n, T::RawPkH(_))),
            Sw::SiglessBranch => st.map(|s| !s.s).unwrap_or(true),
            Sw::NonB => st.map(|s| s.base != Base::B).unwrap_or(true),
            Sw::Unsatisfiable => !satisfiable(t),
            Sw::UncompressedKeys => has_key && form == KeyForm::Uncompressed,
            Sw::XOnlyKeys => has_key && form == KeyForm::XOnly,
            Sw::CompressedAndXOnly => has_key && (form == KeyForm::Compressed || form == KeyForm::XOnly),
        }
    };
    Defects { v: SWITCHES.iter().map(|s| (*s, d(*s))).collect() }
}

/// Lock interplay family: every ordered pair of lock leaves (both kinds, both units) in
/// conjunction / disjunction, with satisfiable and statically unsatisfiable tails, wrapped locks in
/// every child position of every container, each also one context level up.
pub fn lock_family<Ctx: Cx>() -> Vec<T> {
        let b = |t: T| Box::new(t);
        let locks = [T::After(10), T::After(500_000_010), T::Older(5), T::Older(4_194_309)];
        let pk = || T::Check(b(T::PkK("K1".into())));
        let tails = vec![T::False, T::True, pk(), T::AndV(b(T::Verify(b(pk()))), b(T::False))];
        let mut fam: Vec<T> = vec![];
        for l1 in &locks {
            for l2 in &locks {
                let c = T::AndV(b(T::Verify(b(l1.clone()))), b(l2.clone()));
                fam.push(c.clone());
                fam.push(T::AndB(b(l1.clone()), b(T::Alt(b(l2.clone())))));
                fam.push(T::OrI(b(l1.clone()), b(l2.clone())));
                for tail in &tails {
                    fam.push(T::AndV(b(T::Verify(b(l1.clone()))), b(T::AndV(b(T::Verify(b(l2.clone()))), b(tail.clone())))));
                    fam.push(T::AndV(b(T::Verify(b(c.clone()))), b(tail.clone())));
                    fam.push(T::OrI(b(c.clone()), b(tail.clone())));
                    fam.push(T::OrI(b(tail.clone()), b(c.clone())));
                    fam.push(T::AndOr(b(pk()), b(c.clone()), b(tail.clone())));
                    fam.push(T::AndOr(b(pk()), b(tail.clone()), b(c.clone())));
                }
            }
        }
        // wrapped locks (l:n:L is B d u, a: makes it W) in every child position of every container
        for l1 in &locks {
            for l2 in &locks {
                let w1 = T::OrI(b(T::False), b(T::ZeroNotEqual(b(l1.clone()))));
                let w2 = T::OrI(b(T::False), b(T::ZeroNotEqual(b(l2.clone()))));
                let aw2 = T::Alt(b(w2.clone()));
                let spk = T::Swap(b(pk()));
                fam.push(T::AndOr(b(w1.clone()), b(pk()), b(l2.clone())));
                fam.push(T::AndOr(b(w1.clone()), b(l2.clone()), b(pk())));
                fam.push(T::AndOr(b(pk()), b(l1.clone()), b(l2.clone())));
                fam.push(T::AndOr(b(w1.clone()), b(l2.clone()), b(l2.clone())));
                fam.push(T::OrB(b(w1.clone()), b(aw2.clone())));
                fam.push(T::AndB(b(w1.clone()), b(aw2.clone())));
                fam.push(T::OrD(b(w1.clone()), b(l2.clone())));
                fam.push(T::AndV(b(T::Verify(b(T::OrB(b(pk()), b(aw2.clone()))))), b(l1.clone())));
                fam.push(T::AndV(b(T::Verify(b(T::OrB(b(w1.clone()), b(spk.clone()))))), b(l2.clone())));
                fam.push(T::AndV(b(T::Verify(b(T::OrD(b(pk()), b(l1.clone()))))), b(l2.clone())));
                fam.push(T::AndV(b(T::OrC(b(pk()), b(T::Verify(b(l1.clone()))))), b(l2.clone())));
                for k in 1..=3 {
                    fam.push(T::Thresh(k, vec![w1.clone(), aw2.clone(), spk.clone()]));
                    fam.push(T::Thresh(k, vec![pk(), T::Alt(b(w1.clone())), aw2.clone()]));
                }
            }
        }
        // lock values around every bit the unit decision could be (wrongly) based on, alone and in
        // conjunction with a lock of each unit
        for v in [1u32, 65_535, 65_536, 0x3f_ffff, 0x40_0000, 0x40_0001, 0x7f_ffff, 0x80_0000, 0x80_0001, 0xc0_0001, 0x100_0001, 0x4040_0001, 0x7fff_ffff] {
            fam.push(T::Older(v));
            fam.push(T::AndV(b(T::Verify(b(T::Older(v)))), b(T::Older(5))));
            fam.push(T::AndV(b(T::Verify(b(T::Older(v)))), b(T::Older(4_194_309))));
            fam.push(T::AndV(b(T::Verify(b(pk()))), b(T::AndV(b(T::Verify(b(T::Older(v)))), b(T::Older(4_194_305))))));
        }
        for v in [1u32, 499_999_999, 500_000_000, 500_000_001, 0x7fff_ffff] {
            fam.push(T::After(v));
            fam.push(T::AndV(b(T::Verify(b(T::After(v)))), b(T::After(10))));
            fam.push(T::AndV(b(T::Verify(b(T::After(v)))), b(T::After(500_000_010))));
        }
        let lifted: Vec<T> = fam.iter().flat_map(|f| crate::sat::contexts1::<Ctx>(f)).collect();
        fam.extend(lifted);
        fam.sort();
        fam.dedup();
        fam
}

fn switch_checks<Ctx: Cx>(rep: &Report, ctx: &'static str, n: usize, n_all_combos: usize, tap: bool, forms: &[KeyForm], alpha: Alphabet) -> (Census, u64, u64) {
    let te = explore::<Ctx>(n, alpha, tap);
    let mut all: Vec<T> = vec![];
    for m in te.all() {
        let t = walk(m).relabel_distinct();
        for p in key_partitions(&t, 3) {
            all.push(p);
        }
        all.push(t);
    }
    all.extend(lock_family::<Ctx>());
    // raw pkh terms
    let h = "a6a0c6a6b20b0661260eab7117303f3bbe925fd9".to_string();
    all.push(T::Check(Box::new(T::RawPkH(h.clone()))));
    all.push(T::AndV(Box::new(T::Verify(Box::new(T::Check(Box::new(T::RawPkH(h.clone())))))), Box::new(T::Check(Box::new(T::PkK("K1".into()))))));
    let cen = all
        .par_iter()
        .fold(Census::new, |mut cen, t| {
            for form in forms {
                let env = DefEnv { form: *form, with_origin: false };
                let ms = match build::<DefiniteDescriptorKey, Ctx>(t, &env) {
                    Ok(m) => m,
                    Err(_) => continue,
                };
                bump(&mut cen, "terms");
                let tsx = t.sexpr();
                let df = defects(t, tap, *form);
                let mut viol = |class: &str, what: String| {
                    rep.violation(Violation {
                        key: format!("C12|{}|{}|{:?}|{}", class, ctx, form, tsx),
                        class: class.to_string(),
                        what,
                        case: json!({"ctx": ctx, "key_form": format!("{:?}", form), "model": tsx, "miniscript": ms.to_string()}),
                    });
                };
                // MAX accepts everything that from_ast built
                if let Err(e) = ms.validate(&ValidationParams::MAX) {
                    viol("max-params-reject", format!("validate(MAX) fails: {}", e));
                }
                // each switch alone
                for (sw, has) in &df.v {
                    bump(&mut cen, "switch_evaluations");
                    let r = guard(|| ms.validate(&params_with_off(&[*sw])));
                    match r {
                        Ok(r) => {
                            if r.is_err() != *has {
                                // the mixed-time-lock switch is documented as a conservative, syntactic test
                                if *sw == Sw::MixedTimeLocks && r.is_err() && mixed_timelocks_syntactic(t) {
                                    bump(&mut cen, "mixed_timelocks_conservative_on_unsatisfiable_paths");
                                    continue;
                                }
                                viol(
                                    &format!("switch-{:?}-{}", sw, if *has { "misses-defect" } else { "rejects-clean-script" }),
                                    format!("validate with only {:?} off gives {:?}; script {} the defect", sw, r.err().map(|e| e.to_string()), if *has { "has" } else { "does not have" }),
                                );
                            } else if *has {
                                bump(&mut cen, "defects_detected");
                            }
                        }
                        Err(p) => viol(&format!("validate-panic@{}", panic_site(&p)), p),
                    }
                }
                // node-level time-lock bookkeeping (ExtData::timelock_info) against the reference
                {
                    bump(&mut cen, "timelock_info_checks");
                    let li = ms.ext.timelock_info;
                    let got = [li.csv_with_height, li.csv_with_time, li.cltv_with_height, li.cltv_with_time, li.contains_combination];
                    let exp = tl_info(t);
                    if got != exp {
                        viol("timelock_info", format!("ExtData::timelock_info (csv h/t, cltv h/t, combination) = {:?}, reference {:?}", got, exp));
                    }
                }
                // each switch agrees with the library's own public predicate for that defect
                {
                    let preds: [(Sw, bool, &str); 2] = [
                        (Sw::MixedTimeLocks, ms.has_mixed_timelocks(), "has_mixed_timelocks()"),
                        (Sw::DuplicateKeys, ms.has_repeated_keys(), "has_repeated_keys()"),
                    ];
                    for (sw, pred, name) in preds {
                        bump(&mut cen, "switch_predicate_checks");
                        let rej = ms.validate(&params_with_off(&[sw])).is_err();
                        if rej != pred {
                            viol(
                                &format!("switch-{:?}-disagrees-with-{}", sw, name.trim_end_matches("()")),
                                format!("{} = {} but validate with only {:?} off {}", name, pred, sw, if rej { "rejects" } else { "accepts" }),
                            );
                        }
                    }
                }
                // all switch combinations on small terms
                if t.size() <= n_all_combos {
                    for mask in 0u32..(1 << SWITCHES.len()) {
                        let off: Vec<Sw> = (0..SWITCHES.len()).filter(|i| mask & (1 << i) != 0).map(|i| SWITCHES[i]).collect();
                        let expect_err = df.v.iter().any(|(s, has)| *has && off.contains(s));
                        let r = ms.validate(&params_with_off(&off)).is_err();
                        bump(&mut cen, "switch_combinations");
                        if r != expect_err {
                            let lib_only = r && !expect_err;
                            if lib_only && off.contains(&Sw::MixedTimeLocks) && mixed_timelocks_syntactic(t) {
                                continue;
                            }
                            viol("switch-combination", format!("switches off {:?}: validate is_err={} expected {}", off, r, expect_err));
                            break;
                        }
                    }
                }
                // numeric limits around the script's own figures
                let figs: Vec<(&str, Option<usize>)> = vec![
                    ("script_size", Some(ms.script_size())),
                    ("recursive_depth", Some(ms.ext.tree_height)),
                    ("witness_items", ms.max_satisfaction_witness_elements().ok()),
                    ("opcode_count", ms.ext.sat_data.map(|d| d.max_exec_op_count + ms.ext.static_ops)),
                    ("exec_stack", ms.ext.sat_data.map(|d| d.max_witness_stack_count + d.max_exec_stack_count)),
                ];
                for (name, fig) in figs {
                    let fig = match fig {
                        Some(f) => f,
                        None => continue,
                    };
                    for delta in [-1i64, 0, 1] {
                        let lim = fig as i64 + delta;
                        if lim < 0 {
                            continue;
                        }
                        let mut p = ValidationParams::MAX;
                        match name {
                            "script_size" => p.max_script_size = lim as usize,
                            "recursive_depth" => p.max_recursive_depth = lim as usize,
                            "witness_items" => p.max_witness_items = lim as usize,
                            "opcode_count" => p.max_opcode_count = lim as usize,
                            _ => p.max_exec_stack_size = lim as usize,
                        }
                        bump(&mut cen, "limit_evaluations");
                        let r = ms.validate(&p);
                        let should_fail = delta < 0;
                        if r.is_err() != should_fail {
                            viol(&format!("limit-{}", name), format!("figure {} limit {}: validate gives {:?}", fig, lim, r.as_ref().err().map(|e| e.to_string())));
                        }
                        if let Err(e) = &r {
                            let actual = match e {
                                ValidationError::MaxOpCountExceeded { actual, .. }
                                | ValidationError::MaxScriptSizeExceeded { actual, .. }
                                | ValidationError::MaxWitnessItemsExceeded { actual, .. }
                                | ValidationError::MaxExecStackSizeExceeded { actual, .. } => Some(*actual),
                                _ => None,
                            };
                            if let Some(a) = actual {
                                if a != fig {
                                    viol(&format!("limit-{}-reported-actual", name), format!("error reports actual = {} but the figure is {}", a, fig));
                                }
                            }
                        }
                    }
                }
            }
            cen
        })
        .reduce(Census::new, |mut a, b| {
            merge(&mut a, b);
            a
        });
    (cen, te.count() as u64, te.attempted)
}

// ---------- acceptance soundness ----------

/// Reference: may this term stand at the top level of context `ctx`?
fn legal_in_context(t: &T, ctx: &str) -> Result<(), &'static str> {
    let tap = ctx == "tap";
    let st = spec_type(t, tap).ok_or("ill-typed")?;
    if st.base != Base::B {
        return Err("top level is not of base type B");
    }
    if tap && any_node(t, &|n| matches!(n, T::Multi(..) | T::SortedMulti(..))) {
        return Err("multi in tapscript");
    }
    if !tap && any_node(t, &|n| matches!(n, T::MultiA(..) | T::SortedMultiA(..))) {
        return Err("multi_a outside tapscript");
    }
    if (ctx == "legacy" || ctx == "bare") && any_node(t, &|n| matches!(n, T::DupIf(_))) {
        return Err("d: in a pre-segwit context");
    }
    if (ctx == "legacy" || ctx == "bare") && any_node(t, &|n| matches!(n, T::OrI(..))) {
        return Err("or_i in a pre-segwit context");
    }
    if ctx == "bare" {
        let ok = match t {
            T::Check(x) => matches!(**x, T::PkK(_) | T::PkH(_)),
            // sortedmulti encodes to the same standard bare multisig shape
            T::Multi(_, ks) | T::SortedMulti(_, ks) => ks.len() <= 3,
            _ => false,
        };
        if !ok {
            return Err("bare script not in a standard shape");
        }
    }
    Ok(())
}

/// Multisig arities around every limit (bare standardness: 3 keys; CHECKMULTISIG: 20 keys;
/// CHECKSIGADD: 999 keys), several k each, also below a wrapper and next to a sibling.
fn arity_family(tap: bool) -> Vec<T> {
    let keys = |n: usize| -> Vec<String> { (1..=n).map(|i| format!("K{}", i)).collect() };
    let mut base = vec![];
    let ns: Vec<usize> = if tap { vec![1, 2, 3, 4, 5, 20, 21, 998, 999] } else { (1..=20).collect() };
    for n in ns {
        let mut ks = vec![1usize, 2, 3, 4, n.saturating_sub(1), n];
        ks.sort();
        ks.dedup();
        for k in ks {
            if k == 0 || k > n {
                continue;
            }
            if tap {
                base.push(T::MultiA(k, keys(n)));
                base.push(T::SortedMultiA(k, keys(n)));
            } else {
                base.push(T::Multi(k, keys(n)));
                base.push(T::SortedMulti(k, keys(n)));
            }
        }
    }
    let mut out = vec![];
    for b in base {
        out.push(T::AndV(Box::new(T::Verify(Box::new(b.clone()))), Box::new(T::True)));
        out.push(T::ZeroNotEqual(Box::new(b.clone())));
        out.push(b);
    }
    out
}

fn acceptance(rep: &Report, n: usize) -> (Census, u64, u64) {
    let mut cen = Census::new();
    let mut states = 0;
    let mut trans = 0;
    macro_rules! one_ctx {
        ($ctx:ty, $name:expr, $tap:expr, $mk:expr, $wrappers:expr) => {{
            let te = explore::<$ctx>(n, Alphabet::Small, $tap);
            states += te.count() as u64;
            trans += te.attempted;
            let mut all: Vec<T> = te.all().map(|m| walk(m).relabel_distinct()).collect();
            all.extend(arity_family($tap));
            // the multisig kinds of the OTHER script family (multi / sortedmulti in tapscript, multi_a /
            // sortedmulti_a outside): bare, below a wrapper, next to a sibling
            all.extend(arity_family(!$tap).into_iter().filter(|t| t.keys().len() <= 3));
            let c = all
                .par_iter()
                .fold(Census::new, |mut cen, t| {
                    let legal = legal_in_context(t, $name);
                    let ms = match build::<String, $ctx>(t, &StrEnv) {
                        Ok(m) => m,
                        Err(_) => {
                            // the constructor refuses: the parsers of the context must not be more generous
                            bump(&mut cen, "constructor_refused");
                            let txt = t.print();
                            for (entry, ok) in [
                                ("Miniscript::from_str_insane", guard(|| Miniscript::<String, $ctx>::from_str_insane(&txt).is_ok()).unwrap_or(false)),
                                ("Miniscript::from_str_with_validation_params(MAX)", guard(|| Miniscript::<String, $ctx>::from_str_with_validation_params(&txt, &miniscript::ValidationParams::MAX).is_ok()).unwrap_or(false)),
                            ] {
                                if ok && legal.is_err() {
                                    rep.violation(Violation {
                                        key: format!("C12|accept|{}|{}|{}", entry, $name, t.sexpr()),
                                        class: format!("parser-accepts-what-from_ast-refuses-{}", entry),
                                        what: format!("{} accepts '{}' in context {} although from_ast refuses it and: {}", entry, txt, $name, legal.err().unwrap_or("")),
                                        case: json!({"ctx": $name, "entry": entry, "model": t.sexpr(), "string": txt}),
                                    });
                                }
                            }
                            return cen;
                        }
                    };
                    let mk: &dyn Fn(&T, Miniscript<String, $ctx>) -> Vec<(&'static str, bool, String)> = &$mk;
                    // being here means from_ast itself accepted the term: fragments of any base type are
                    // its business, the multisig kind of the other script family is not
                    let tapctx = $name == "tap";
                    if (tapctx && any_node(t, &|n| matches!(n, T::Multi(..) | T::SortedMulti(..)))) || (!tapctx && any_node(t, &|n| matches!(n, T::MultiA(..) | T::SortedMultiA(..)))) {
                        rep.violation(Violation {
                            key: format!("C12|accept|Miniscript::from_ast|{}|{}", $name, t.sexpr()),
                            class: format!("accepts-illegal-Miniscript::from_ast-{}", if tapctx { "multi-in-tapscript" } else { "multi_a-outside-tapscript" }),
                            what: format!("Miniscript::from_ast accepts '{}' in context {}", t.print(), $name),
                            case: json!({"ctx": $name, "entry": "Miniscript::from_ast", "model": t.sexpr()}),
                        });
                    }
                    for (entry, accepted, shown) in mk(t, ms) {
                        bump(&mut cen, "acceptance_evaluations");
                        if accepted {
                            bump(&mut cen, "accepted");
                            if let Err(why) = legal {
                                // Known upstream behaviour pinned by the repository's tests
                                // (descriptor::tests::regression_734): sh() accepts or_i / d:.
                                if $name == "legacy" && (why.starts_with("or_i") || why.starts_with("d:")) {
                                    bump(&mut cen, "legacy_or_i_dupif_accepted");
                                    rep.violation(Violation {
                                        key: "C12|legacy-accepts-or_i-and-dupif".into(),
                                        class: "legacy-accepts-or_i-and-dupif".into(),
                                        what: format!("{} accepts '{}' although: {}", entry, shown, why),
                                        case: json!({"ctx": $name, "entry": entry, "string": shown}),
                                    });
                                    continue;
                                }
                                rep.violation(Violation {
                                    key: format!("C12|accept|{}|{}|{}", entry, $name, t.sexpr()),
                                    class: format!("accepts-illegal-{}-{}", entry, why.replace(' ', "-")),
                                    what: format!("{} accepts '{}' although: {}", entry, shown, why),
                                    case: json!({"ctx": $name, "entry": entry, "model": t.sexpr(), "string": shown}),
                                });
                            }
                        } else {
                            bump(&mut cen, "refused");
                        }
                    }
                    cen
                })
                .reduce(Census::new, |mut a, b| {
                    merge(&mut a, b);
                    a
                });
            merge(&mut cen, c);
        }};
    }
    one_ctx!(Segwitv0, "segwitv0", false, |t: &T, ms: Miniscript<String, Segwitv0>| {
        let s = format!("wsh({})", t.print());
        let s2 = format!("sh(wsh({}))", t.print());
        vec![
            ("Wsh::new", Wsh::new(ms.clone()).is_ok(), s.clone()),
            ("Descriptor::new_wsh", Descriptor::new_wsh(ms.clone()).is_ok(), s.clone()),
            ("Descriptor::new_sh_wsh", Descriptor::new_sh_wsh(ms.clone()).is_ok(), s2.clone()),
            ("Descriptor::from_str", Descriptor::<String>::from_str(&s).is_ok(), s.clone()),
            ("Descriptor::from_str", Descriptor::<String>::from_str(&s2).is_ok(), s2),
            ("Wsh::from_str", Wsh::<String>::from_str(&s).is_ok(), s.clone()),
            ("Miniscript::from_str", Miniscript::<String, Segwitv0>::from_str(&t.print()).is_ok(), t.print()),
            ("Miniscript::from_str_insane", Miniscript::<String, Segwitv0>::from_str_insane(&t.print()).is_ok(), t.print()),
        ]
    }, ());
    one_ctx!(Legacy, "legacy", false, |t: &T, ms: Miniscript<String, Legacy>| {
        let s = format!("sh({})", t.print());
        vec![
            ("Sh::new", Sh::new(ms.clone()).is_ok(), s.clone()),
            ("Descriptor::new_sh", Descriptor::new_sh(ms.clone()).is_ok(), s.clone()),
            ("Descriptor::from_str", Descriptor::<String>::from_str(&s).is_ok(), s.clone()),
            ("Sh::from_str", Sh::<String>::from_str(&s).is_ok(), s.clone()),
            ("Miniscript::from_str", Miniscript::<String, Legacy>::from_str(&t.print()).is_ok(), t.print()),
            ("Miniscript::from_str_insane", Miniscript::<String, Legacy>::from_str_insane(&t.print()).is_ok(), t.print()),
        ]
    }, ());
    one_ctx!(BareCtx, "bare", false, |t: &T, ms: Miniscript<String, BareCtx>| {
        let s = t.print();
        vec![
            ("Bare::new", Bare::new(ms.clone()).is_ok(), s.clone()),
            ("Descriptor::new_bare", Descriptor::new_bare(ms.clone()).is_ok(), s.clone()),
            ("Descriptor::from_str", Descriptor::<String>::from_str(&s).is_ok(), s.clone()),
        ]
    }, ());
    one_ctx!(Tap, "tap", true, |t: &T, _ms: Miniscript<String, Tap>| {
        let s = format!("tr(I,{})", t.print());
        let d = D::Tr("I".into(), vec![(0, t.clone())]);
        vec![
            ("Descriptor::new_tr(TapTree::leaf)", build_desc::<String>(&d, &StrEnv).is_ok(), s.clone()),
            ("Descriptor::from_str", Descriptor::<String>::from_str(&s).is_ok(), s.clone()),
            ("Miniscript::from_str", Miniscript::<String, Tap>::from_str(&t.print()).is_ok(), t.print()),
            ("Miniscript::from_str_insane", Miniscript::<String, Tap>::from_str_insane(&t.print()).is_ok(), t.print()),
        ]
    }, ());
    (cen, states, trans)
}

/// (2) inclusion: what Descriptor::from_str accepts, the miniscript parser with consensus
/// parameters accepts too.
fn inclusion(rep: &Report, n: usize) -> Census {
    let mut cen = Census::new();
    macro_rules! one {
        ($ctx:ty, $name:expr, $tap:expr, $wrap:expr) => {{
            let te = explore::<$ctx>(n, Alphabet::Small, $tap);
            for m in te.all() {
                let t = walk(m).relabel_distinct();
                let inner = t.print();
                let s: String = $wrap(&inner);
                let d_ok = Descriptor::<String>::from_str(&s).is_ok();
                let m_ok = Miniscript::<String, $ctx>::from_str_with_validation_params(&inner, &<$ctx as ScriptContext>::CONSENSUS).is_ok();
                bump(&mut cen, "inclusion_evaluations");
                if d_ok {
                    bump(&mut cen, "descriptor_parser_accepts");
                }
                if d_ok && !m_ok && $name == "legacy" && any_node(&t, &|n| matches!(n, T::OrI(..) | T::DupIf(_))) {
                    rep.violation(Violation {
                        key: "C12|legacy-accepts-or_i-and-dupif".into(),
                        class: "legacy-accepts-or_i-and-dupif".into(),
                        what: format!("Descriptor::from_str accepts '{}' but the Legacy consensus parameters forbid or_i / d:", s),
                        case: json!({"descriptor": s}),
                    });
                } else if d_ok && !m_ok {
                    rep.violation(Violation {
                        key: format!("C12|inclusion|{}|{}", $name, t.sexpr()),
                        class: format!("descriptor-parser-accepts-what-consensus-miniscript-parser-rejects-{}", $name),
                        what: format!("Descriptor::from_str accepts '{}' but Miniscript::from_str_with_validation_params('{}', CONSENSUS) rejects", s, inner),
                        case: json!({"ctx": $name, "descriptor": s, "inner": inner}),
                    });
                }
            }
        }};
    }
    one!(Segwitv0, "segwitv0", false, |i: &str| format!("wsh({})", i));
    one!(Legacy, "legacy", false, |i: &str| format!("sh({})", i));
    one!(Tap, "tap", true, |i: &str| format!("tr(I,{})", i));
    one!(BareCtx, "bare", false, |i: &str| i.to_string());
    cen
}

/// Limit ladders: conjunction chains that cross each consensus / standardness limit of their context
/// by one step; each of the context's four validity functions must refuse exactly when the script's
/// (separately validated) figure exceeds the Bitcoin limit, given here as literal numbers.
/// The opcode limit against a count made from first principles (sat.rs budget_ladder): the context's
/// local consensus check, the default parser and lift() refuse exactly the terms above 201.
fn budget_ladder_check(rep: &Report) -> Census {
    use miniscript::policy::Liftable;
    use miniscript::ScriptContext;
    let mut cen = Census::new();
    for (name, t, total) in crate::sat::budget_ladder() {
        let env = PkEnv { form: KeyForm::Compressed };
        let ms = match build::<bitcoin::PublicKey, Segwitv0>(&t, &env) {
            Ok(m) => m,
            Err(_) => {
                bump(&mut cen, "budget_terms_refused_by_from_ast");
                continue;
            }
        };
        bump(&mut cen, "budget_terms");
        let over = total > 201;
        let text = ms.to_string();
        let verdicts = [
            ("Segwitv0::check_local_consensus_validity", Segwitv0::check_local_consensus_validity(&ms).is_err()),
            ("Miniscript::from_str_insane", Miniscript::<bitcoin::PublicKey, Segwitv0>::from_str_insane(&text).is_err()),
            ("within_resource_limits", !ms.within_resource_limits()),
            ("lift", ms.lift().is_err()),
        ];
        for (f, refused) in verdicts {
            bump(&mut cen, "budget_checks");
            if refused != over {
                rep.violation(Violation {
                    key: format!("C12|budget|{}|{}", name, f),
                    class: format!("opcode-budget-{}-{}", f, name.split('@').next().unwrap_or("")),
                    what: format!("{} {} a script whose worst path counts {} opcodes (limit 201): {} with 1-of-20 multisigs in every child position", f, if refused { "refuses" } else { "accepts" }, total, name),
                    case: json!({"term": name, "worst_path_opcodes": total, "function": f}),
                });
            }
        }
    }
    cen
}

fn limit_ladders(rep: &Report) -> Census {
    use miniscript::ScriptContext;
    let mut cen = Census::new();
    let b = |t: T| Box::new(t);
    // and_v(v:X1, and_v(v:X2, ... Xn))
    let chain = |leaves: Vec<T>| -> T {
        let mut it = leaves.into_iter().rev();
        let mut acc = it.next().unwrap();
        for l in it {
            acc = T::AndV(b(T::Verify(b(l))), b(acc));
        }
        acc
    };
    let pk = |i: usize| T::Check(b(T::PkK(format!("K{}", i))));
    let pkh = |i: usize| T::Check(b(T::PkH(format!("K{}", i))));
    macro_rules! ladder {
        ($ctx:ty, $name:expr, $form:expr, $terms:expr, $limits:expr) => {{
            for t in $terms {
                let env = PkEnv { form: $form };
                let ms = match build::<bitcoin::PublicKey, $ctx>(&t, &env) {
                    Ok(m) => m,
                    Err(_) => {
                        // from_ast itself applies the global consensus rules
                        bump(&mut cen, "ladder_terms_refused_by_from_ast");
                        continue;
                    }
                };
                bump(&mut cen, "ladder_terms");
                let size = ms.encode().len();
                let ops = ms.ext.sat_data.map(|d| d.max_exec_op_count + ms.ext.static_ops);
                let items = ms.max_satisfaction_witness_elements().ok();
                let ssig = ms.ext.sat_data.map(|d| d.max_script_sig_size);
                let (gc, gp, lc, lp): (usize, usize, usize, Option<(&str, usize)>) = $limits;
                let exp = [
                    ("check_global_consensus_validity", size > gc, <$ctx>::check_global_consensus_validity(&ms).is_err()),
                    ("check_global_policy_validity", size > gp, <$ctx>::check_global_policy_validity(&ms).is_err()),
                    ("check_local_consensus_validity", ops.map(|o| o > lc).unwrap_or(true), <$ctx>::check_local_consensus_validity(&ms).is_err()),
                    (
                        "check_local_policy_validity",
                        match lp {
                            Some(("scriptsig", l)) => ssig.map(|x| x > l).unwrap_or(true),
                            Some((_, l)) => items.map(|x| x > l).unwrap_or(true),
                            None => false,
                        },
                        <$ctx>::check_local_policy_validity(&ms).is_err(),
                    ),
                ];
                for (f, want, got) in exp {
                    bump(&mut cen, "ladder_checks");
                    if want != got {
                        rep.violation(Violation {
                            key: format!("C12|ladder|{}|{}|n={}", $name, f, t.keys().len()),
                            class: format!("limit-function-{}-{}", $name, f),
                            what: format!("{}::{} {} although script size {}, opcodes {:?}, witness items {:?}, scriptSig {:?} (limits: size {} / {}, opcodes {}, {:?})", $name, f, if got { "refuses" } else { "accepts" }, size, ops, items, ssig, gc, gp, lc, lp),
                            case: json!({"ctx": $name, "function": f, "keys": t.keys().len(), "script_size": size}),
                        });
                    }
                }
            }
        }};
    }
    let range = |a: usize, z: usize| (a..=z).collect::<Vec<_>>();
    // Legacy (P2SH): redeem script 520 bytes, 201 opcodes, scriptSig 1650 bytes (standardness)
    let mut leg: Vec<T> = vec![];
    for n in range(10, 16) {
        leg.push(chain((1..=n).map(pk).collect()));
    }
    for n in range(9, 22) {
        leg.push(chain((1..=n).map(pkh).collect()));
    }
    ladder!(Legacy, "Legacy", KeyForm::Compressed, leg.clone(), (520, usize::MAX, 201, Some(("scriptsig", 1650))));
    ladder!(Legacy, "Legacy", KeyForm::Uncompressed, leg, (520, usize::MAX, 201, Some(("scriptsig", 1650))));
    // Segwit v0 (P2WSH): 10000 bytes consensus, 3600 bytes / 100 witness items standardness, 201 opcodes
    let mut seg: Vec<T> = vec![];
    for n in [97usize, 98, 99, 100, 101, 102, 103, 104, 199, 200, 201, 202, 203, 284, 285, 286, 287] {
        seg.push(chain((1..=n).map(pk).collect()));
    }
    ladder!(Segwitv0, "Segwitv0", KeyForm::Compressed, seg.clone(), (10000, 3600, 201, Some(("items", 100))));
    // Bare: 10000 bytes, 201 opcodes
    ladder!(BareCtx, "Bare", KeyForm::Compressed, seg, (10000, usize::MAX, 201, None));
    cen
}

/// (4) lattice laws and monotonicity
fn lattice(rep: &Report, n: usize) -> Census {
    let mut cen = Census::new();
    // parameter family: MAX with <= 2 fields tightened (+ the named constants)
    let mut fam: Vec<(String, ValidationParams)> = vec![];
    let singles: Vec<(String, Box<dyn Fn(&mut ValidationParams)>)> = vec![
        ("dupkeys".into(), Box::new(|p: &mut ValidationParams| p.allow_duplicate_keys = false)),
        ("dupif".into(), Box::new(|p: &mut ValidationParams| p.allow_dup_if = false)),
        ("mall".into(), Box::new(|p: &mut ValidationParams| p.allow_malleability = false)),
        ("multi".into(), Box::new(|p: &mut ValidationParams| p.allow_multi = false)),
        ("multi_a".into(), Box::new(|p: &mut ValidationParams| p.allow_multi_a = false)),
        ("mixed".into(), Box::new(|p: &mut ValidationParams| p.allow_mixed_time_locks = false)),
        ("or_i".into(), Box::new(|p: &mut ValidationParams| p.allow_or_i = false)),
        ("rawpkh".into(), Box::new(|p: &mut ValidationParams| p.allow_raw_pkh = false)),
        ("sigless".into(), Box::new(|p: &mut ValidationParams| p.allow_sigless_branch = false)),
        ("nonb".into(), Box::new(|p: &mut ValidationParams| p.allow_non_b = false)),
        ("unsat".into(), Box::new(|p: &mut ValidationParams| p.allow_unsatisfiable = false)),
        ("uncompressed".into(), Box::new(|p: &mut ValidationParams| p.allow_uncompressed_keys = false)),
        ("xonly".into(), Box::new(|p: &mut ValidationParams| p.allow_x_only_keys = false)),
        ("compressed".into(), Box::new(|p: &mut ValidationParams| p.allow_compressed_keys = false)),
        ("multipath".into(), Box::new(|p: &mut ValidationParams| p.allow_inconsistent_multipath_keys = false)),
        ("size20".into(), Box::new(|p: &mut ValidationParams| p.max_script_size = 20)),
        ("size40".into(), Box::new(|p: &mut ValidationParams| p.max_script_size = 40)),
        ("ops3".into(), Box::new(|p: &mut ValidationParams| p.max_opcode_count = 3)),
        ("wit2".into(), Box::new(|p: &mut ValidationParams| p.max_witness_items = 2)),
        ("stack3".into(), Box::new(|p: &mut ValidationParams| p.max_exec_stack_size = 3)),
        ("depth2".into(), Box::new(|p: &mut ValidationParams| p.max_recursive_depth = 2)),
    ];
    fam.push(("MAX".into(), ValidationParams::MAX));
    for (i, (na, fa)) in singles.iter().enumerate() {
        let mut p = ValidationParams::MAX;
        fa(&mut p);
        fam.push((na.clone(), p));
        for (nb, fb) in singles.iter().skip(i + 1) {
            let mut q = p;
            fb(&mut q);
            fam.push((format!("{}+{}", na, nb), q));
        }
    }
    for (name, p) in [
        ("SANE", ValidationParams::SANE),
        ("CONSENSUS", ValidationParams::CONSENSUS),
        ("Segwitv0::SANE", Segwitv0::SANE),
        ("Segwitv0::CONSENSUS", Segwitv0::CONSENSUS),
        ("Legacy::SANE", Legacy::SANE),
        ("Legacy::CONSENSUS", Legacy::CONSENSUS),
        ("Tap::SANE", Tap::SANE),
        ("Tap::CONSENSUS", Tap::CONSENSUS),
        ("Bare::SANE", BareCtx::SANE),
        ("Bare::CONSENSUS", BareCtx::CONSENSUS),
    ] {
        fam.push((name.into(), p));
    }
    let mut viol = |class: &str, what: String| {
        rep.violation(Violation { key: format!("C12|lattice|{}|{}", class, what), class: format!("lattice-{}", class), what, case: json!({}) });
    };
    for (ctxn, s, c) in [
        ("Segwitv0", Segwitv0::SANE, Segwitv0::CONSENSUS),
        ("Legacy", Legacy::SANE, Legacy::CONSENSUS),
        ("Tap", Tap::SANE, Tap::CONSENSUS),
        ("Bare", BareCtx::SANE, BareCtx::CONSENSUS),
    ] {
        if !s.entails(&c) {
            viol("sane-entails-consensus", format!("{}::SANE does not entail {}::CONSENSUS", ctxn, ctxn));
        }
    }
    // field-wise reference of <=
    let le = |a: &ValidationParams, b: &ValidationParams| {
        (!a.allow_compressed_keys || b.allow_compressed_keys)
            && (!a.allow_duplicate_keys || b.allow_duplicate_keys)
            && (!a.allow_dup_if || b.allow_dup_if)
            && (!a.allow_malleability || b.allow_malleability)
            && (!a.allow_mixed_time_locks || b.allow_mixed_time_locks)
            && (!a.allow_multi || b.allow_multi)
            && (!a.allow_multi_a || b.allow_multi_a)
            && (!a.allow_or_i || b.allow_or_i)
            && (!a.allow_raw_pkh || b.allow_raw_pkh)
            && (!a.allow_sigless_branch || b.allow_sigless_branch)
            && (!a.allow_non_b || b.allow_non_b)
            && (!a.allow_uncompressed_keys || b.allow_uncompressed_keys)
            && (!a.allow_unsatisfiable || b.allow_unsatisfiable)
            && (!a.allow_x_only_keys || b.allow_x_only_keys)
            && (!a.allow_inconsistent_multipath_keys || b.allow_inconsistent_multipath_keys)
            && a.max_opcode_count <= b.max_opcode_count
            && a.max_script_size <= b.max_script_size
            && a.max_witness_items <= b.max_witness_items
            && a.max_exec_stack_size <= b.max_exec_stack_size
            && a.max_recursive_depth <= b.max_recursive_depth
    };
    for (na, a) in &fam {
        for (nb, b) in &fam {
            bump(&mut cen, "lattice_pairs");
            let i = a.intersect(b);
            if a.entails(b) != le(a, b) {
                viol("entails", format!("{}.entails({}) = {} but field-wise <= is {}", na, nb, a.entails(b), le(a, b)));
            }
            if !(le(&i, a) && le(&i, b)) || !i.entails(a) || !i.entails(b) {
                viol("intersect-lower-bound", format!("{} ^ {}", na, nb));
            }
            if !i.eq(&b.intersect(a)) {
                viol("intersect-commutative", format!("{} ^ {}", na, nb));
            }
            if a.eq(b) != (a == b) {
                viol("eq", format!("{} vs {}", na, nb));
            }
        }
        if !a.intersect(a).eq(a) {
            viol("intersect-idempotent", na.clone());
        }
    }
    // associativity on a slice
    let sl: Vec<&(String, ValidationParams)> = fam.iter().step_by(7).collect();
    for a in &sl {
        for b in &sl {
            for c in &sl {
                if !a.1.intersect(&b.1).intersect(&c.1).eq(&a.1.intersect(&b.1.intersect(&c.1))) {
                    viol("intersect-associative", format!("{} {} {}", a.0, b.0, c.0));
                }
            }
        }
    }
    // monotonicity: p entails q  =>  validate(p) ok implies validate(q) ok
    macro_rules! mono {
        ($ctx:ty, $tap:expr, $form:expr) => {{
            let te = explore::<$ctx>(n, Alphabet::Small, $tap);
            let terms: Vec<Miniscript<DefiniteDescriptorKey, $ctx>> = te
                .all()
                .filter_map(|m| build::<DefiniteDescriptorKey, $ctx>(&walk(m).relabel_distinct(), &DefEnv { form: $form, with_origin: false }).ok())
                .collect();
            let res: Vec<Vec<bool>> = fam.par_iter().map(|(_, p)| terms.iter().map(|m| m.validate(p).is_ok()).collect()).collect();
            for (i, (na, a)) in fam.iter().enumerate() {
                for (j, (nb, b)) in fam.iter().enumerate() {
                    if a.entails(b) {
                        for (k, m) in terms.iter().enumerate() {
                            if res[i][k] && !res[j][k] {
                                rep.violation(Violation {
                                    key: format!("C12|mono|{}|{}|{}", na, nb, m),
                                    class: "tightening-admits-more".into(),
                                    what: format!("{} entails {} but {} passes the former and fails the latter", na, nb, m),
                                    case: json!({"p": na, "q": nb, "miniscript": m.to_string()}),
                                });
                            }
                        }
                        *cen.entry("monotonicity_pairs").or_insert(0) += 1;
                    }
                }
            }
        }};
    }
    mono!(Segwitv0, false, KeyForm::Compressed);
    mono!(Tap, true, KeyForm::XOnly);
    mono!(Legacy, false, KeyForm::Uncompressed);
    cen.insert("parameter_family", fam.len() as u64);
    cen
}

pub fn run(tier: Tier) -> i32 {
    let rep = Report::new("C12", tier);
    let (n_sw, n_combo, n_acc, n_mono) = tier.pick((5, 3, 5, 4), (6, 4, 6, 5));
    rep.extra("bounds", json!({"switch_nodes": n_sw, "all_switch_combinations_nodes": n_combo, "acceptance_nodes": n_acc, "monotonicity_nodes": n_mono}));
    let mut states = 0;
    let mut transitions = 0;
    for (cen, s, t) in [
        switch_checks::<Segwitv0>(&rep, "segwitv0", n_sw, n_combo, false, &[KeyForm::Compressed], Alphabet::Small),
        switch_checks::<Tap>(&rep, "tap", n_sw, n_combo, true, &[KeyForm::Compressed, KeyForm::XOnly], Alphabet::Small),
        switch_checks::<Legacy>(&rep, "legacy", n_sw, n_combo, false, &[KeyForm::Compressed, KeyForm::Uncompressed], Alphabet::Small),
        switch_checks::<Segwitv0>(&rep, "segwitv0", n_sw - 1, 0, false, &[KeyForm::Compressed], Alphabet::Full),
        switch_checks::<Tap>(&rep, "tap", n_sw - 1, 0, true, &[KeyForm::XOnly], Alphabet::Full),
    ] {
        rep.merge_counts(&cen);
        states += s;
        transitions += t;
    }
    let (cen, s, t) = acceptance(&rep, n_acc);
    rep.merge_counts(&cen);
    states += s;
    transitions += t;
    let cen = inclusion(&rep, n_acc.min(5));
    rep.merge_counts(&cen);
    rep.merge_counts(&limit_ladders(&rep));
    rep.merge_counts(&budget_ladder_check(&rep));
    let cen = lattice(&rep, n_mono);
    rep.merge_counts(&cen);
    rep.sample(json!({"switches": SWITCHES.iter().map(|s| format!("{:?}", s)).collect::<Vec<_>>()}));
    rep.sample(json!({"acceptance_entry_points": ["Wsh::new", "Sh::new", "Bare::new", "Descriptor::new_*", "TapTree::leaf + Descriptor::new_tr", "Descriptor::from_str", "Wsh/Sh::from_str", "Miniscript::from_str", "Miniscript::from_str_insane"]}));
    rep.assume("reference defect predicates are computed from the structure (and the specification-table type) alone; 'mixed time locks' = some satisfying path needs a height- and a time-based lock of the same kind (the library's conservative flag on unsatisfiable paths is tolerated and counted)");
    let evals = rep.get("switch_evaluations") + rep.get("switch_combinations") + rep.get("limit_evaluations") + rep.get("acceptance_evaluations") + rep.get("inclusion_evaluations") + rep.get("lattice_pairs");
    crate::terms::report_constructor_panics(&rep, "C12");
    rep.finish(
        states,
        transitions + evals,
        rep.get("defects_detected") + rep.get("accepted"),
        evals,
        rep.get("defects_detected").min(rep.get("accepted")),
        "every well-typed term of every base type up to the node bound (key partitions, key forms, raw pkh): each validation switch alone rejects iff the reference defect is present, all 2^14 switch combinations on small terms, limits at figure-1/figure/figure+1 with the reported 'actual'; every term pushed through every constructor / parser of its context against a structural legality predicate; descriptor-parser acceptance implies consensus miniscript-parser acceptance; lattice laws of entails/intersect on a parameter family and monotonicity of validate over all entailing pairs. non-trivial = min(defects detected, accepted scripts judged)",
        true,
    )
}

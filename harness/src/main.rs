mod ast;
mod c01;
mod c03;
mod c04;
mod c05;
mod c06;
mod c07;
mod c08;
mod c10;
mod c11;
mod c12;
mod c13;
mod c14;
mod c15;
mod c16;
mod c17;
mod c18;
mod c19;
mod c19b;
mod c20;
mod common;
mod desc;
mod kat;
mod keys;
mod policy;
mod rsm;
mod sat;
mod spec;
mod terms;
mod world;

use common::*;
use miniscript::{BareCtx, Legacy, Segwitv0, Tap};

fn main() {
    install_panic_hook();
    let args: Vec<String> = std::env::args().collect();
    if args.len() < 2 {
        eprintln!("usage: msverif <Cxx|census> [--tier quick|thorough] [--replay file]");
        std::process::exit(2);
    }
    let mut tier = match std::env::var("VERIF_TIER").as_deref() {
        Ok("thorough") => Tier::Thorough,
        _ => Tier::Quick,
    };
    let mut replay: Option<String> = None;
    let mut i = 2;
    while i < args.len() {
        match args[i].as_str() {
            "--tier" => {
                tier = if args[i + 1] == "thorough" { Tier::Thorough } else { Tier::Quick };
                i += 1;
            }
            "--replay" => {
                replay = Some(args[i + 1].clone());
                i += 1;
            }
            _ => {}
        }
        i += 1;
    }
    if let Some(path) = &replay {
        // a replay file names the property, the tier it was found in and the key of the case
        match std::fs::read_to_string(path).ok().and_then(|t| serde_json::from_str::<serde_json::Value>(&t).ok()) {
            Some(v) => {
                if v["tier"].as_str() == Some("thorough") {
                    tier = Tier::Thorough;
                }
                if v["property"].as_str() != Some(args[1].as_str()) {
                    eprintln!("replay file belongs to property {}", v["property"]);
                    std::process::exit(2);
                }
                let _ = REPLAY_KEY.set(v["key"].as_str().unwrap_or("").to_string());
                std::env::set_var("MSVERIF_REPLAY_FILE", path);
            }
            None => {
                eprintln!("cannot read replay file {}", path);
                std::process::exit(2);
            }
        }
    }
    // a panic that escapes a check (harness or library code reached outside a guard) is a machinery
    // failure with a visible cause, never a silent abort and never a verdict
    let code = match common::guard(|| run_command(&args, tier)) {
        Ok(c) => c,
        Err(p) => {
            let first = common::FIRST_PANIC_ANY_THREAD.lock().ok().and_then(|g| g.clone()).unwrap_or_default();
            println!("MACHINERY: {} panicked outside a guard at {} (first panic recorded on any thread: {})", args[1], p, first);
            2
        }
    };
    std::process::exit(code);
}

fn run_command(args: &[String], tier: Tier) -> i32 {
    let code = match args[1].as_str() {
        "census" => {
            let n: usize = args.get(2).and_then(|s| s.parse().ok()).unwrap_or(5);
            let t0 = std::time::Instant::now();
            let t = terms::explore::<Segwitv0>(n, terms::Alphabet::Small, false);
            println!("segwitv0 {:?} att={} {:?}", t.level_sizes(), t.attempted, t0.elapsed());
            let t = terms::explore::<Tap>(n, terms::Alphabet::Small, true);
            println!("tap {:?} att={}", t.level_sizes(), t.attempted);
            let t = terms::explore::<Legacy>(n, terms::Alphabet::Small, false);
            println!("legacy {:?} att={}", t.level_sizes(), t.attempted);
            let t = terms::explore::<BareCtx>(n, terms::Alphabet::Small, false);
            println!("bare {:?} att={}", t.level_sizes(), t.attempted);
            for m in t.levels[3].iter().take(10) {
                let w = ast::walk(m);
                println!("{}  |  {}  | {}", m, w.print(), w.relabel_distinct().sexpr());
            }
            0
        }
        "C18" => c18::run(tier),
        "C19" => c19::run(tier),
        "C20" => c20::run(tier),
        "C01" => c01::run(c01::Prop::C01, tier),
        "C02" => c01::run(c01::Prop::C02, tier),
        "C09" => c01::run(c01::Prop::C09, tier),
        "C03" => c03::run(tier),
        "C04" => c04::run(tier),
        "C05" => c05::run(tier),
        "C06" => c06::run(tier),
        "C07" => c07::run(tier),
        "C08" => c08::run(tier),
        "C10" => c10::run(tier),
        "C11" => c11::run(tier),
        "worker" => c11::worker_main(),
        "probe" => c11::probe_main(&args[2], args.get(3).and_then(|x| x.parse().ok())),
        "C12" => c12::run(tier),
        "C13" => c13::run(tier),
        "C14" => c14::run(tier),
        "C15" => c15::run(tier),
        "C16" => c16::run(tier),
        "C17" => c17::run(tier),
        "kat" => match kat::run_kats() {
            Ok(n) => {
                println!("{} KATs ok", n);
                0
            }
            Err(e) => {
                println!("KAT FAILED: {}", e);
                2
            }
        },
        other => {
            eprintln!("unknown check {}", other);
            2
        }
    };
    code
}

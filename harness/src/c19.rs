//! C19 — equality, ordering and hashing are structural and mutually consistent.

use std::cmp::Ordering;
use std::collections::hash_map::DefaultHasher;
use std::collections::{BTreeSet, HashSet};
use std::hash::{Hash, Hasher};
use std::sync::atomic::{AtomicU64, Ordering as AO};

use miniscript::{Legacy, Miniscript, Segwitv0, Tap};
use rayon::prelude::*;
use serde_json::json;

use crate::ast::{build, walk, StrEnv, T};
use crate::common::*;
use crate::terms::{explore, Alphabet, Cx};

/// Structural neighbours of a term: same shape except for one k, one arity, one leaf.
pub fn neighbours(t: &T) -> Vec<T> {
    let mut out = vec![];
    let n = t.nodes().len();
    for idx in 0..n {
        for variant in 0..8 {
            let mut c = t.clone();
            let mut i = 0usize;
            if mutate_at(&mut c, idx, &mut i, variant) && c != *t {
                out.push(c);
            }
        }
    }
    out
}

fn mutate_at(t: &mut T, target: usize, i: &mut usize, variant: usize) -> bool {
    if *i == target {
        *i += 1;
        return mutate_node(t, variant);
    }
    *i += 1;
    for c in t.children_mut() {
        if *i > target {
            return false;
        }
        if mutate_at(c, target, i, variant) {
            return true;
        }
    }
    false
}

fn mutate_node(t: &mut T, variant: usize) -> bool {
    use T::*;
    match t {
        Thresh(k, v) => match variant {
            0 if *k > 1 => *k -= 1,
            1 if *k < v.len() => *k += 1,
            2 => {
                // append a copy of the last child (for n == 1 wrap it as a W by `a:`)
                let last = v.last().unwrap().clone();
                let add = if v.len() == 1 { Alt(Box::new(last)) } else { last };
                v.push(add);
            }
            3 if v.len() > 1 => {
                v.pop();
                if *k > v.len() {
                    *k = v.len();
                }
            }
            4 if v.len() > 1 => {
                // drop last child keep k (if possible)
                if *k <= v.len() - 1 {
                    v.pop();
                } else {
                    return false;
                }
            }
            _ => return false,
        },
        Multi(k, ks) | SortedMulti(k, ks) | MultiA(k, ks) | SortedMultiA(k, ks) => match variant {
            0 if *k > 1 => *k -= 1,
            1 if *k < ks.len() => *k += 1,
            2 => ks.push("KX".into()),
            3 if ks.len() > 1 && *k < ks.len() => {
                ks.pop();
            }
            4 => {
                let l = ks.len();
                ks[l - 1] = "KY".into()
            }
            5 => ks[0] = "KY".into(),
            6 if ks.len() > 1 => ks.swap(0, 1),
            _ => return false,
        },
        PkK(k) | PkH(k) => match variant {
            0 => *k = "KZ".into(),
            _ => return false,
        },
        RawPkH(h) => match variant {
            // another hash, differing in the first / in the last byte
            0 => *h = format!("ff{}", &h[2..]),
            1 => *h = format!("{}ff", &h[..h.len() - 2]),
            _ => return false,
        },
        // lock values that differ only in bits some comparison might ignore: +1, the BIP-68
        // type flag (bit 22), bits above the 16-bit value mask, the height/time threshold
        Older(n) => match variant {
            0 => *n += 1,
            1 => *n ^= 1 << 22,
            2 => *n += 1 << 16,
            3 => *n += 1 << 23,
            _ => return false,
        },
        After(n) => match variant {
            0 => *n += 1,
            1 => *n = if *n >= 500_000_000 { *n - 500_000_000 + 1 } else { *n + 500_000_000 },
            2 => *n += 1 << 16,
            _ => return false,
        },
        Sha256(h) | Hash256(h) | Ripemd160(h) | Hash160(h) => match variant {
            0 => *h = "HZ".into(),
            _ => return false,
        },
        _ => return false,
    }
    true
}

fn h64<X: Hash>(x: &X) -> u64 {
    let mut h = DefaultHasher::new();
    x.hash(&mut h);
    h.finish()
}

struct Item<Ctx: Cx> {
    ms: Miniscript<String, Ctx>,
    sx: String,
    hash: u64,
}

fn check_pair<Ctx: Cx>(rep: &Report, ctx: &str, a: &Item<Ctx>, b: &Item<Ctx>) -> bool {
    let same = a.sx == b.sx;
    let mut ok = true;
    let mut viol = |class: &str, what: String| {
        ok = false;
        rep.violation(Violation {
            key: format!("{}|{}|{}|{}", class, ctx, a.sx, b.sx),
            class: class.to_string(),
            what,
            case: json!({"ctx": ctx, "a": a.sx, "b": b.sx, "a_str": a.ms.to_string(), "b_str": b.ms.to_string()}),
        });
    };
    match guard(|| a.ms == b.ms) {
        Ok(eq) => {
            if eq != same {
                viol("eq-not-structural", format!("a == b is {} but structural identity is {}", eq, same));
            }
            if eq && a.hash != b.hash {
                viol("hash-inconsistent", "a == b but hash(a) != hash(b)".into());
            }
        }
        Err(e) => viol(&format!("eq-panic@{}", panic_site(&e)), format!("== panicked: {}", e)),
    }
    match guard(|| (a.ms.cmp(&b.ms), b.ms.cmp(&a.ms))) {
        Ok((ab, ba)) => {
            if (ab == Ordering::Equal) != same {
                viol(
                    "cmp-equal-not-structural",
                    format!("cmp(a,b) = {:?} but structural identity is {}", ab, same),
                );
            }
            if ab != ba.reverse() {
                viol("cmp-not-antisymmetric", format!("cmp(a,b)={:?} cmp(b,a)={:?}", ab, ba));
            }
            if a.ms.partial_cmp(&b.ms) != Some(ab) {
                viol("partial_cmp-differs-from-cmp", format!("partial_cmp(a,b)={:?} cmp(a,b)={:?}", a.ms.partial_cmp(&b.ms), ab));
            }
        }
        Err(e) => viol(&format!("cmp-panic@{}", panic_site(&e)), format!("cmp panicked: {}", e)),
    }
    ok
}

struct Stats {
    states: u64,
    transitions: u64,
    pairs: u64,
    triples: u64,
    neighbour_pairs: u64,
}

fn run_ctx<Ctx: Cx>(rep: &Report, ctx: &str, tap: bool, n_all: usize, n_nb: usize) -> Stats {
    let te = explore::<Ctx>(n_nb, Alphabet::Small, tap);
    rep.extra(&format!("levels_{}", ctx), json!(te.level_sizes()));
    let mk = |t: &T| -> Option<Item<Ctx>> {
        let ms = build::<String, Ctx>(t, &StrEnv).ok()?;
        let sx = walk(&ms).sexpr();
        let hash = h64(&ms);
        Some(Item { ms, sx, hash })
    };
    // universe U: all terms (distinct labels) of <= n_all nodes + their neighbours
    let mut seen: BTreeSet<String> = BTreeSet::new();
    let mut u: Vec<Item<Ctx>> = vec![];
    let mut nb_pairs: Vec<(Item<Ctx>, Item<Ctx>)> = vec![];
    // every term with pk_h also in its raw-hash spelling (what the script decoder produces)
    let to_raw = |t: &T| -> Option<T> {
        let mut c = t.clone();
        let mut changed = false;
        fn rec(t: &mut T, changed: &mut bool) {
            if let T::PkH(k) = t {
                *t = T::RawPkH(<bitcoin::hashes::hash160::Hash as bitcoin::hashes::Hash>::hash(k.as_bytes()).to_string());
                *changed = true;
                return;
            }
            for c in t.children_mut() {
                rec(c, changed);
            }
        }
        rec(&mut c, &mut changed);
        if changed { Some(c) } else { None }
    };
    for (lvl, terms) in te.levels.iter().enumerate() {
        let mut bases: Vec<T> = vec![];
        for m in terms {
            let t = walk(m).relabel_distinct();
            if let Some(r) = to_raw(&t) {
                bases.push(r);
            }
            bases.push(t);
        }
        for t in bases {
            let base = match mk(&t) {
                Some(b) => b,
                None => continue,
            };
            if base.sx != t.sexpr() {
                rep.violation(Violation {
                    key: format!("walk-build|{}|{}", ctx, t.sexpr()),
                    class: "machinery-walk-build".into(),
                    what: "walk(build(t)) != t".into(),
                    case: json!({"t": t.sexpr(), "got": base.sx}),
                });
            }
            for nb in neighbours(&t) {
                if let Some(it) = mk(&nb) {
                    if lvl <= n_all && seen.insert(it.sx.clone()) {
                        // goes to all-pairs universe as well
                        let it2 = mk(&nb).unwrap();
                        u.push(it2);
                    }
                    let b2 = mk(&t).unwrap();
                    nb_pairs.push((b2, it));
                }
            }
            if lvl <= n_all && seen.insert(base.sx.clone()) {
                u.push(base);
            }
        }
    }
    // clone consistency on U
    for it in &u {
        let c = it.ms.clone();
        if walk(&c).sexpr() != it.sx || c.ty != it.ms.ty || c.ext != it.ms.ext || h64(&c) != it.hash {
            rep.violation(Violation {
                key: format!("clone|{}|{}", ctx, it.sx),
                class: "clone-differs".into(),
                what: "clone() is not structurally identical / type / ext / hash differ".into(),
                case: json!({"ctx": ctx, "a": it.sx}),
            });
        }
    }
    let npairs = AtomicU64::new(0);
    // neighbour pairs (both orders)
    nb_pairs.par_iter().for_each(|(a, b)| {
        check_pair(rep, ctx, a, b);
        check_pair(rep, ctx, b, a);
        npairs.fetch_add(2, AO::Relaxed);
    });
    let nbp = npairs.load(AO::Relaxed);
    // all ordered pairs of U
    u.par_iter().for_each(|a| {
        for b in &u {
            check_pair(rep, ctx, a, b);
        }
        npairs.fetch_add(u.len() as u64, AO::Relaxed);
    });
    // set cardinalities
    let distinct: BTreeSet<&String> = u.iter().map(|i| &i.sx).collect();
    if let Ok((bt, hs)) = guard(|| {
        let bt: BTreeSet<&Miniscript<String, Ctx>> = u.iter().map(|i| &i.ms).collect();
        let hs: HashSet<&Miniscript<String, Ctx>> = u.iter().map(|i| &i.ms).collect();
        (bt.len(), hs.len())
    }) {
        if bt != distinct.len() || hs != distinct.len() {
            rep.violation(Violation {
                key: format!("setcard|{}", ctx),
                class: "set-cardinality".into(),
                what: format!(
                    "BTreeSet has {} / HashSet has {} elements, {} structurally distinct terms",
                    bt,
                    hs,
                    distinct.len()
                ),
                case: json!({"ctx": ctx}),
            });
        }
    }
    // transitivity on a slice: all triples
    let slice_n = rep.tier.pick(160, 400).min(u.len());
    // take an evenly spread slice so that all fragment kinds occur
    let step = (u.len() / slice_n.max(1)).max(1);
    let sl: Vec<&Item<Ctx>> = u.iter().step_by(step).take(slice_n).collect();
    let cmpm: Vec<Vec<Option<Ordering>>> = sl
        .par_iter()
        .map(|a| sl.iter().map(|b| guard(|| a.ms.cmp(&b.ms)).ok()).collect())
        .collect();
    let ntr = AtomicU64::new(0);
    (0..sl.len()).into_par_iter().for_each(|i| {
        for j in 0..sl.len() {
            for k in 0..sl.len() {
                if let (Some(ij), Some(jk), Some(ik)) = (cmpm[i][j], cmpm[j][k], cmpm[i][k]) {
                    if ij != Ordering::Greater && jk != Ordering::Greater {
                        let expect_le = ik != Ordering::Greater;
                        let strict = ij == Ordering::Less || jk == Ordering::Less;
                        if !expect_le || (strict && ik != Ordering::Less) {
                            rep.violation(Violation {
                                key: format!("trans|{}|{}|{}|{}", ctx, sl[i].sx, sl[j].sx, sl[k].sx),
                                class: "cmp-not-transitive".into(),
                                what: format!("a<=b ({:?}), b<=c ({:?}) but cmp(a,c)={:?}", ij, jk, ik),
                                case: json!({"ctx": ctx, "a": sl[i].sx, "b": sl[j].sx, "c": sl[k].sx}),
                            });
                        }
                    }
                }
            }
        }
        ntr.fetch_add((sl.len() * sl.len()) as u64, AO::Relaxed);
    });
    if let Some(it) = u.last() {
        rep.sample(json!({"ctx": ctx, "term": it.sx, "string": it.ms.to_string()}));
    }
    if let Some((a, b)) = nb_pairs.last() {
        rep.sample(json!({"ctx": ctx, "neighbour_pair": [a.sx, b.sx]}));
    }
    Stats {
        states: te.count() as u64 + u.len() as u64,
        transitions: te.attempted,
        pairs: npairs.load(AO::Relaxed),
        triples: ntr.load(AO::Relaxed),
        neighbour_pairs: nbp,
    }
}

/// The same structure reached by different construction routes - built from the AST, parsed from
/// its text, decoded from its script with the key hashes substituted back, translated by the identity
/// mapping, cloned - over concrete keys (compressed, uncompressed, mixed, x-only): all of them are one
/// value for ==, cmp, partial_cmp and hash.
macro_rules! routes {
    ($rep:expr, $ctxname:expr, $ctx:ty, $pk:ty, $tap:expr, $n:expr, $envs:expr) => {{
        use miniscript::{ForEachKey, ToPublicKey, Translator};
        struct Ident;
        impl Translator<$pk> for Ident {
            type TargetPk = $pk;
            type Error = ();
            fn pk(&mut self, pk: &$pk) -> Result<$pk, ()> { Ok(pk.clone()) }
            fn sha256(&mut self, h: &bitcoin::hashes::sha256::Hash) -> Result<bitcoin::hashes::sha256::Hash, ()> { Ok(*h) }
            fn hash256(&mut self, h: &miniscript::hash256::Hash) -> Result<miniscript::hash256::Hash, ()> { Ok(*h) }
            fn ripemd160(&mut self, h: &bitcoin::hashes::ripemd160::Hash) -> Result<bitcoin::hashes::ripemd160::Hash, ()> { Ok(*h) }
            fn hash160(&mut self, h: &bitcoin::hashes::hash160::Hash) -> Result<bitcoin::hashes::hash160::Hash, ()> { Ok(*h) }
        }
        let rep: &Report = $rep;
        let te = explore::<$ctx>($n, Alphabet::Small, $tap);
        let mut pairs = 0u64;
        for m in te.all() {
            let t = walk(m).relabel_distinct();
            for (envname, env) in $envs.iter() {
                let a = match build::<$pk, $ctx>(&t, env) {
                    Ok(a) => a,
                    Err(_) => continue,
                };
                let mut objs: Vec<(&'static str, Miniscript<$pk, $ctx>)> = vec![];
                if let Ok(b) = <Miniscript<$pk, $ctx> as std::str::FromStr>::from_str(&a.to_string()).or_else(|_| Miniscript::<$pk, $ctx>::from_str_insane(&a.to_string())) {
                    objs.push(("parsed", b));
                }
                if let Ok(c) = Miniscript::<$pk, $ctx>::decode_consensus(&a.encode()) {
                    let mut map = std::collections::BTreeMap::new();
                    a.for_each_key(|k| {
                        let h = if $tap {
                            <bitcoin::hashes::hash160::Hash as bitcoin::hashes::Hash>::hash(&k.to_x_only_pubkey().serialize())
                        } else {
                            k.to_pubkeyhash(miniscript::SigType::Ecdsa)
                        };
                        map.insert(h, k.clone());
                        true
                    });
                    objs.push(("decoded+substituted", c.substitute_raw_pkh(&map)));
                }
                if let Ok(d) = a.translate_pk(&mut Ident) {
                    objs.push(("translated", d));
                }
                objs.push(("cloned", a.clone()));
                objs.push(("built", a));
                let sx = walk(&objs.last().unwrap().1).sexpr();
                let objs: Vec<_> = objs.into_iter().filter(|(_, o)| walk(o).sexpr() == sx).collect();
                rep.count("construction_routes", objs.len() as u64);
                for (na, x) in &objs {
                    for (nb, y) in &objs {
                        pairs += 1;
                        let mut bad = vec![];
                        if x != y {
                            bad.push("== is false");
                        }
                        if x.cmp(y) != Ordering::Equal {
                            bad.push("cmp is not Equal");
                        }
                        if x.partial_cmp(y) != Some(Ordering::Equal) {
                            bad.push("partial_cmp is not Some(Equal)");
                        }
                        if h64(x) != h64(y) {
                            bad.push("hashes differ");
                        }
                        if x.to_string() != y.to_string() {
                            bad.push("string forms differ");
                        }
                        if !bad.is_empty() {
                            rep.violation(Violation {
                                key: format!("routes|{}|{}|{}|{}|{}", $ctxname, envname, sx, na, nb),
                                class: format!("same-structure-not-equal-{}-vs-{}", na, nb),
                                what: format!("{} ({}) and {} ({}) have the same structure but: {}", x, na, y, nb, bad.join(", ")),
                                case: json!({"ctx": $ctxname, "keys": envname, "model": sx}),
                            });
                        }
                    }
                }
            }
        }
        pairs
    }};
}

pub fn run(tier: Tier) -> i32 {
    let rep = Report::new("C19", tier);
    {
        use crate::keys::{KeyForm, PkEnv, XEnv};
        let n = tier.pick(4, 5);
        let c = [("compressed", PkEnv { form: KeyForm::Compressed })];
        let cu = [("compressed", PkEnv { form: KeyForm::Compressed }), ("uncompressed", PkEnv { form: KeyForm::Uncompressed }), ("mixed", PkEnv { form: KeyForm::Mixed })];
        let x = [("x-only", XEnv)];
        let mut p: u64 = routes!(&rep, "segwitv0", Segwitv0, bitcoin::PublicKey, false, n, c);
        p += routes!(&rep, "legacy", Legacy, bitcoin::PublicKey, false, n, cu);
        p += routes!(&rep, "bare", miniscript::BareCtx, bitcoin::PublicKey, false, n, cu);
        p += routes!(&rep, "tap", Tap, bitcoin::secp256k1::XOnlyPublicKey, true, n, x);
        rep.count("construction_route_pairs", p);
    }
    let (n_all, n_nb) = tier.pick((4, 5), (5, 6));
    let mut tot = Stats { states: 0, transitions: 0, pairs: 0, triples: 0, neighbour_pairs: 0 };
    for s in [
        run_ctx::<Segwitv0>(&rep, "segwitv0", false, n_all, n_nb),
        run_ctx::<Tap>(&rep, "tap", true, n_all, n_nb),
        run_ctx::<Legacy>(&rep, "legacy", false, n_all, n_nb),
    ] {
        tot.states += s.states;
        tot.transitions += s.transitions;
        tot.pairs += s.pairs;
        tot.triples += s.triples;
        tot.neighbour_pairs += s.neighbour_pairs;
    }
    let extra = crate::c19b::run_desc_policy(&rep);
    rep.count("ordered_pairs", tot.pairs);
    rep.count("neighbour_pairs", tot.neighbour_pairs);
    rep.count("triples", tot.triples);
    rep.count("desc_policy_pairs", extra);
    rep.assume("structural identity = explicit S-expression from the harness walker over public node fields");
    rep.finish(
        tot.states,
        tot.transitions,
        tot.pairs + extra,
        tot.pairs + tot.triples + extra,
        tot.neighbour_pairs + extra,
        &format!(
            "all well-typed terms <= {n_all} nodes (3 contexts, canonical distinct labels) + k/arity/leaf neighbours: ALL ordered pairs; terms <= {n_nb} nodes: every (term, neighbour) pair both orders; all triples of a spread slice; descriptors / tap trees / policies: all ordered pairs of an enumerated family. non-trivial = pairs that differ in exactly one k / arity / leaf"
        ),
        true,
    )
}

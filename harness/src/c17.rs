//! C17 — spending plans are faithful to the satisfier and report exact time locks.

use std::collections::BTreeMap;

use bitcoin::hashes::Hash;
use bitcoin::taproot::TapLeafHash;
use miniscript::plan::{CanSign, TaprootAvailableLeaves, TaprootCanSign};
use rayon::prelude::*;
use serde_json::json;

use crate::c01::{assets_for_cap, bounds, Prop};
use crate::common::*;
use crate::desc::D;
use crate::keys::KeyForm;
use crate::rsm::{tapleaf_hash, verify_input};
use crate::sat::*;
use crate::world::{make_spend, worlds, SignCap, World, WorldSat, TYPE_FLAG};

type Census = BTreeMap<&'static str, u64>;
fn bump(c: &mut Census, k: &'static str) { *c.entry(k).or_insert(0) += 1; }

fn caps_for(c: &DescCase) -> Vec<(SignCap, CanSign, &'static str)> {
    let mut v = vec![(SignCap::All, CanSign::default(), "default")];
    if let D::Tr(_, leaves) = &c.d {
        v.push((
            SignCap::NoKeySpend,
            CanSign { ecdsa: true, taproot: TaprootCanSign { key_spend: false, script_spend: TaprootAvailableLeaves::Any, sighash_default: true } },
            "no-key-spend",
        ));
        v.push((
            SignCap::EcdsaOnly,
            CanSign { ecdsa: true, taproot: TaprootCanSign { key_spend: false, script_spend: TaprootAvailableLeaves::None, sighash_default: true } },
            "ecdsa-only",
        ));
        if leaves.len() >= 2 {
            let tl = c.tap_leaves();
            let lh = TapLeafHash::from_byte_array(tapleaf_hash(0xc0, &tl[1].1));
            v.push((
                SignCap::OnlyLeaf(lh),
                CanSign { ecdsa: true, taproot: TaprootCanSign { key_spend: false, script_spend: TaprootAvailableLeaves::Single(lh), sighash_default: true } },
                "leaf-restricted",
            ));
        }
    }
    v
}

fn check_desc(rep: &Report, c: &DescCase, thorough: bool, cen: &mut Census) {
    let hl = c.hash_labels();
    let dsx = c.d.sexpr();
    for w in worlds(&c.keys, &hl, &c.afters, &c.olders, thorough) {
        let spend = make_spend(c.spk.clone(), w.locktime, w.sequence);
        for (cap, cansign, capname) in caps_for(c) {
            let sat = WorldSat { world: &w, spend: &spend, sign: &c.sign, schnorr_all: false, lie_locks: false, cap };
            let assets = assets_for_cap(c, &w, cansign);
            // the same assets assembled through the builder API (add / after / older, IntoAssets for
            // keys and for each hash kind) are the same value
            if capname == "default" {
                use miniscript::ForEachKey;
                let mut b = miniscript::plan::Assets::new();
                let mut held: Vec<miniscript::DescriptorPublicKey> = vec![];
                c.desc.for_each_key(|k| {
                    let dk = k.clone().into_descriptor_public_key();
                    if assets.keys.iter().any(|((fp, _), _)| *fp == dk.master_fingerprint()) && !held.contains(&dk) {
                        held.push(dk);
                    }
                    true
                });
                // one key alone, the rest as a vector
                if let Some(first) = held.first().cloned() {
                    b = b.add(first);
                    b = b.add(held[1..].to_vec());
                }
                for h in &assets.sha256_preimages {
                    b = b.add(*h);
                }
                for h in &assets.hash256_preimages {
                    b = b.add(*h);
                }
                for h in &assets.ripemd160_preimages {
                    b = b.add(*h);
                }
                for h in &assets.hash160_preimages {
                    b = b.add(*h);
                }
                if let Some(l) = assets.absolute_timelock {
                    b = b.after(l);
                }
                if let Some(l) = assets.relative_timelock {
                    b = b.older(l);
                }
                // adding an empty set changes nothing (in particular not the locks already set)
                b = b.add(miniscript::plan::Assets::new());
                bump(cen, "asset_builders_compared");
                if b != assets {
                    rep.violation(Violation {
                        key: format!("C17|asset-builder|{}|{}", dsx, w.short()),
                        class: "assets-builder-differs".into(),
                        what: format!("assets assembled with add / after / older differ from the same assets written as fields: {:?} vs {:?}", b, assets),
                        case: json!({"desc": c.desc.to_string(), "world": w.json()}),
                    });
                }
            }
            for mall in [false, true] {
                bump(cen, "evaluations");
                let mode = if mall { "mall" } else { "nonmall" };
                let direct = match guard(|| if mall { c.desc.get_satisfaction_mall(&sat) } else { c.desc.get_satisfaction(&sat) }) {
                    Ok(r) => r.ok(),
                    Err(_) => {
                        bump(cen, "satisfier_panic");
                        continue;
                    }
                };
                let plan = match guard(|| if mall { c.desc.clone().into_plan_mall(&assets) } else { c.desc.clone().into_plan(&assets) }) {
                    Ok(r) => r.ok(),
                    Err(p) => {
                        bump(cen, "plan_panic");
                        rep.violation(Violation {
                            key: format!("C17|plan-panic|{}|{}", panic_site(&p), dsx),
                            class: format!("plan-panic@{}", panic_site(&p)),
                            what: p,
                            case: json!({"desc": c.desc.to_string(), "world": w.json(), "cap": capname}),
                        });
                        continue;
                    }
                };
                let case = |extra: serde_json::Value| {
                    json!({"desc": c.desc.to_string(), "model": dsx, "world": w.json(), "mode": mode, "cansign": capname, "detail": extra})
                };
                let key = |tag: &str| format!("C17|{}|{}|{}|{}|{}", tag, mode, capname, dsx, w.short());
                // (a) existence agreement
                match (&plan, &direct) {
                    (Some(_), None) => {
                        bump(cen, "plan_without_satisfaction");
                        rep.violation(Violation {
                            key: key("plan-only"),
                            class: format!("plan-exists-but-satisfier-fails-{}-{}", c.kind(), capname),
                            what: "into_plan succeeds but the satisfier with exactly these assets fails".into(),
                            case: case(json!(null)),
                        });
                    }
                    (None, Some(_)) => {
                        bump(cen, "satisfaction_without_plan");
                        rep.violation(Violation {
                            key: key("sat-only"),
                            class: format!("satisfier-succeeds-but-no-plan-{}-{}", c.kind(), capname),
                            what: "the satisfier succeeds with these assets but into_plan refuses".into(),
                            case: case(json!(null)),
                        });
                    }
                    (None, None) => bump(cen, "both_refuse"),
                    (Some(_), Some(_)) => bump(cen, "both_succeed"),
                }
                let (plan, direct) = match (plan, direct) {
                    (Some(p), Some(d)) => (p, d),
                    _ => continue,
                };
                // (b) completing the plan yields the same satisfaction
                match guard(|| plan.satisfy(&sat)) {
                    Ok(Ok((pw, pss))) => {
                        if pw != direct.0 || pss != direct.1 {
                            rep.violation(Violation {
                                key: key("differs"),
                                class: format!("plan-satisfaction-differs-{}", c.kind()),
                                what: "Plan::satisfy differs from get_satisfaction with the same satisfier".into(),
                                case: case(json!({"plan_witness": pw.iter().map(|x| hex(x)).collect::<Vec<_>>(), "plan_script_sig": hex(pss.as_bytes()),
                                    "direct_witness": direct.0.iter().map(|x| hex(x)).collect::<Vec<_>>(), "direct_script_sig": hex(direct.1.as_bytes())})),
                            });
                        } else {
                            bump(cen, "plan_equals_direct");
                        }
                        // (b') the sizes the plan announces are not smaller than the real ones. The witness
                        // script of wsh / sh(wsh) is not part of the plan's template (known finding of C09,
                        // keyed by its cause there): it is added to the announcement before comparing.
                        {
                            let ss_with_len = pss.len() + crate::rsm::compact_size(pss.len()).len();
                            let wsz = if pw.is_empty() { 0 } else { crate::rsm::compact_size(pw.len()).len() + pw.iter().map(|x| crate::rsm::compact_size(x.len()).len() + x.len()).sum::<usize>() };
                            let script_part = if matches!(c.d, D::Wsh(_) | D::ShWsh(_)) {
                                let sl = c.targets[0].script.len();
                                crate::rsm::compact_size(sl).len() + sl
                            } else {
                                0
                            };
                            bump(cen, "plan_sizes_compared");
                            let mut bad = vec![];
                            if plan.scriptsig_size() < ss_with_len {
                                bad.push(format!("scriptsig_size {} < real {}", plan.scriptsig_size(), ss_with_len));
                            }
                            if plan.witness_size() + script_part < wsz {
                                bad.push(format!("witness_size {} (+{} for the witness script) < real {}", plan.witness_size(), script_part, wsz));
                            }
                            if plan.satisfaction_weight() + script_part < wsz + 4 * ss_with_len {
                                bad.push(format!("satisfaction_weight {} (+{}) < real {}", plan.satisfaction_weight(), script_part, wsz + 4 * ss_with_len));
                            }
                            if !bad.is_empty() {
                                rep.violation(Violation {
                                    key: key("size-undershoot"),
                                    class: format!("plan-size-undershoot-{}", c.kind()),
                                    what: bad.join("; "),
                                    case: case(json!({"plan_witness": pw.iter().map(|x| hex(x)).collect::<Vec<_>>(), "plan_script_sig": hex(pss.as_bytes())})),
                                });
                            }
                        }
                    }
                    Ok(Err(e)) => {
                        rep.violation(Violation {
                            key: key("complete-fails"),
                            class: format!("plan-cannot-be-completed-{}", c.kind()),
                            what: format!("Plan::satisfy fails with the satisfier holding the assets: {}", e),
                            case: case(json!(null)),
                        });
                    }
                    Err(p) => {
                        rep.violation(Violation {
                            key: format!("C17|satisfy-panic|{}|{}", panic_site(&p), dsx),
                            class: format!("plan-satisfy-panic@{}", panic_site(&p)),
                            what: p,
                            case: case(json!(null)),
                        });
                    }
                }
                // (c) sufficiency and necessity of the reported locks
                let abs = plan.absolute_timelock.map(|l| l.to_consensus_u32());
                let rel = plan.relative_timelock.map(|r| r.to_sequence().0);
                let base_lt = abs.unwrap_or(0);
                let base_seq = rel.unwrap_or(if abs.is_some() { 0xffff_fffe } else { 0xffff_ffff });
                let try_tx = |lt: u32, seq: u32| -> Option<Result<(), String>> {
                    let sp = make_spend(c.spk.clone(), lt, seq);
                    let w2 = World { sigs: w.sigs.clone(), pre: w.pre.clone(), locktime: lt, sequence: seq };
                    let s2 = WorldSat { world: &w2, spend: &sp, sign: &c.sign, schnorr_all: false, lie_locks: false, cap };
                    match guard(|| plan.satisfy(&s2)) {
                        Ok(Ok((pw, pss))) => Some(verify_input(&sp, pss.as_bytes(), &pw, true).map(|_| ())),
                        _ => None,
                    }
                };
                match try_tx(base_lt, base_seq) {
                    Some(Ok(())) => bump(cen, "reported_locks_sufficient"),
                    Some(Err(e)) => {
                        rep.violation(Violation {
                            key: key("insufficient"),
                            class: format!("reported-locks-insufficient-{}:{}", c.kind(), e),
                            what: format!("spend with exactly the reported locks (nLockTime={}, nSequence={:#x}) is rejected: {}", base_lt, base_seq, e),
                            case: case(json!({"reported_abs": abs, "reported_rel": rel})),
                        });
                    }
                    None => bump(cen, "plan_completion_failed_on_reported_tx"),
                }
                let mut weaker: Vec<(u32, u32, &'static str)> = vec![];
                if let Some(a) = abs {
                    weaker.push((a - 1, base_seq, "abs-1"));
                    weaker.push((0, base_seq, "abs-removed"));
                    weaker.push((if a < 500_000_000 { 500_000_000 + a } else { a - 500_000_000 + 1 }, base_seq, "abs-other-unit"));
                    weaker.push((a, 0xffff_ffff, "abs-final-sequence"));
                }
                if let Some(r) = rel {
                    weaker.push((base_lt, r - 1, "rel-1"));
                    weaker.push((base_lt, 0xffff_fffe, "rel-removed"));
                    weaker.push((base_lt, r ^ TYPE_FLAG, "rel-other-unit"));
                }
                for (lt, seq, tag) in weaker {
                    if abs.is_some() && rel.is_none() && seq == 0xffff_ffff && tag != "abs-final-sequence" {
                        continue;
                    }
                    match try_tx(lt, seq) {
                        Some(Ok(())) => {
                            rep.violation(Violation {
                                key: key(&format!("unnecessary-{}", tag)),
                                class: format!("reported-lock-not-necessary-{}-{}", c.kind(), tag),
                                what: format!("the plan's witness also validates with weaker locks ({}: nLockTime={}, nSequence={:#x}); reported abs={:?} rel={:?}", tag, lt, seq, abs, rel),
                                case: case(json!({"reported_abs": abs, "reported_rel": rel})),
                            });
                        }
                        Some(Err(_)) => bump(cen, "weaker_lock_rejected"),
                        None => {}
                    }
                }
            }
        }
    }
}

/// Key-source relation family: the documented rule "an asset key source (fingerprint, path) signs
/// for a descriptor key iff the fingerprints agree and the key's full derivation path is the
/// source path or the source path extended by exactly one step", decided for every pair of
/// (descriptor key form, source) below; a plan must exist exactly when the rule says the key signs.
fn key_source_family(rep: &Report) -> Census {
    use bitcoin::bip32::{ChildNumber, DerivationPath, Fingerprint, Xpriv, Xpub};
    use miniscript::plan::Assets;
    use miniscript::{DefiniteDescriptorKey, Descriptor};
    use std::str::FromStr;
    let mut cen = Census::new();
    let xprv = Xpriv::new_master(bitcoin::Network::Bitcoin, &[0x5a; 32]).unwrap();
    let xpub = Xpub::from_priv(secp256k1::SECP256K1, &xprv);
    let xfp = xpub.fingerprint();
    let single = crate::keys::key("K1");
    let single_hex = hex(&single.compressed());
    let single_own_fp = {
        use bitcoin::hashes::Hash;
        let h = bitcoin::hashes::hash160::Hash::hash(&single.compressed()).to_byte_array();
        Fingerprint::from([h[0], h[1], h[2], h[3]])
    };
    let fp_a = Fingerprint::from([0xaa, 0xbb, 0xcc, 0xdd]);
    let other = Fingerprint::from([1, 2, 3, 4]);
    // (key text, master fingerprint, full path)
    let forms: Vec<(String, Fingerprint, Vec<u32>)> = vec![
        (format!("[{}/1/2]{}/3/4", fp_a, xpub), fp_a, vec![1, 2, 3, 4]),
        (format!("[{}/1]{}/3", fp_a, xpub), fp_a, vec![1, 3]),
        (format!("[{}/7]{}", fp_a, single_hex), fp_a, vec![7]),
        (format!("[{}]{}", fp_a, single_hex), fp_a, vec![]),
        (format!("{}/3/4", xpub), xfp, vec![3, 4]),
        (format!("{}", xpub), xfp, vec![]),
        (single_hex.clone(), single_own_fp, vec![]),
    ];
    let internal = hex(&crate::keys::key("KI").x32());
    for (ktext, kfp, full) in &forms {
        // candidate source paths: every prefix, one step longer, sibling of the last step, sibling of the parent
        let mut paths: Vec<Vec<u32>> = (0..=full.len()).map(|l| full[..l].to_vec()).collect();
        let mut longer = full.clone();
        longer.push(9);
        paths.push(longer);
        if !full.is_empty() {
            let mut sib = full.clone();
            *sib.last_mut().unwrap() = 9;
            paths.push(sib);
        }
        if full.len() >= 2 {
            let mut uncle = full[..full.len() - 1].to_vec();
            *uncle.last_mut().unwrap() = 9;
            paths.push(uncle);
        }
        paths.sort();
        paths.dedup();
        let descs: Vec<(&str, String, bool)> = vec![
            ("wpkh", format!("wpkh({})", ktext), false),
            ("pkh", format!("pkh({})", ktext), false),
            ("wsh-pk", format!("wsh(pk({}))", ktext), false),
            ("sh-pk", format!("sh(pk({}))", ktext), false),
            ("wsh-multi", format!("wsh(multi(1,{}))", ktext), false),
            ("tr-key", format!("tr({})", ktext), true),
            ("tr-leaf", format!("tr({},pk({}))", internal, ktext), true),
            ("tr-leaf-pkh", format!("tr({},pkh({}))", internal, ktext), true),
        ];
        for (dname, dtext, _tap) in &descs {
            let desc = match Descriptor::<DefiniteDescriptorKey>::from_str(dtext) {
                Ok(d) => d,
                Err(_) => {
                    bump(&mut cen, "keysource_descriptor_refused");
                    continue;
                }
            };
            for sfp in [*kfp, other] {
                for sp in &paths {
                    let path = DerivationPath::from(sp.iter().map(|i| ChildNumber::from_normal_idx(*i).unwrap()).collect::<Vec<_>>());
                    let expect = sfp == *kfp && (sp == full || (!full.is_empty() && sp[..] == full[..full.len() - 1]));
                    let mut assets = Assets::new();
                    assets.keys.insert(((sfp, path.clone()), miniscript::plan::CanSign::default()));
                    for mall in [false, true] {
                        bump(&mut cen, "keysource_evaluations");
                        let got = guard(|| if mall { desc.clone().plan_mall(&assets).is_ok() } else { desc.clone().plan(&assets).is_ok() });
                        match got {
                            Ok(g) if g == expect => {
                                bump(&mut cen, if g { "keysource_plan_as_expected" } else { "keysource_no_plan_as_expected" });
                            }
                            Ok(g) => rep.violation(Violation {
                                key: format!("C17|keysource|{}|{}|{}|{}|{}", dname, ktext, sfp, path, mall),
                                class: format!("key-source-rule-{}-{}", if g { "plan-without-signing-key" } else { "no-plan-with-signing-key" }, dname),
                                what: format!("asset key source ({}, {}) {} sign for key {} (full path {:?}) but plan{}() {}", sfp, path, if expect { "can" } else { "cannot" }, ktext, full, if mall { "_mall" } else { "" }, if g { "succeeds" } else { "fails" }),
                                case: json!({"descriptor": dtext, "source_fingerprint": sfp.to_string(), "source_path": path.to_string(), "mall": mall}),
                            }),
                            Err(pn) => rep.violation(Violation {
                                key: format!("C17|keysource-panic|{}|{}", dname, panic_site(&pn)),
                                class: format!("planner-panic@{}", panic_site(&pn)),
                                what: pn,
                                case: json!({"descriptor": dtext, "source_fingerprint": sfp.to_string(), "source_path": path.to_string()}),
                            }),
                        }
                    }
                }
            }
        }
    }
    // several asset entries for ONE key source with different leaf permissions: the key signs a leaf
    // iff SOME entry permits that leaf
    {
        use miniscript::plan::{CanSign, TaprootAvailableLeaves, TaprootCanSign};
        let kk = crate::keys::key("K1");
        let kj = crate::keys::key("K2");
        let dtext = format!("tr({},{{pk([{}/7]{}),pk([{}/7]{})}})", internal, kk.fingerprint, hex(&kk.x32()), kj.fingerprint, hex(&kj.x32()));
        if let Ok(desc) = Descriptor::<DefiniteDescriptorKey>::from_str(&dtext) {
            let tr = match &desc {
                Descriptor::Tr(t) => t.clone(),
                _ => unreachable!(),
            };
            let hs: Vec<bitcoin::taproot::TapLeafHash> = tr.leaves().map(|l| l.compute_tap_leaf_hash()).collect();
            let (h1, h2) = (hs[0], hs[1]);
            use bitcoin::hashes::Hash;
            let hx = bitcoin::taproot::TapLeafHash::from_byte_array([0u8; 32]);
            let hy = bitcoin::taproot::TapLeafHash::from_byte_array([0xffu8; 32]);
            let src = (kk.fingerprint, DerivationPath::from(vec![ChildNumber::from_normal_idx(7).unwrap()]));
            let single = |h| TaprootAvailableLeaves::Single(h);
            let many = |v: Vec<bitcoin::taproot::TapLeafHash>| TaprootAvailableLeaves::Many(v.into_iter().collect());
            let sets: Vec<(&str, Vec<TaprootAvailableLeaves>, bool)> = vec![
                ("own-leaf", vec![single(h1)], true),
                ("other-leaf", vec![single(h2)], false),
                ("low-unrelated+own", vec![single(hx), single(h1)], true),
                ("high-unrelated+own", vec![single(hy), single(h1)], true),
                ("none+own", vec![TaprootAvailableLeaves::None, single(h1)], true),
                ("other+own", vec![single(h2), single(h1)], true),
                ("many-unrelated", vec![many(vec![hx, hy])], false),
                ("many-with-own", vec![many(vec![hx, h1])], true),
                ("many-unrelated+own", vec![many(vec![hx, hy]), single(h1)], true),
                ("none", vec![TaprootAvailableLeaves::None], false),
                ("any", vec![TaprootAvailableLeaves::Any], true),
            ];
            for (name, leaves, expect) in sets {
                for sighash_default in [true, false] {
                    let mut assets = Assets::new();
                    for l in &leaves {
                        assets.keys.insert((src.clone(), CanSign { ecdsa: true, taproot: TaprootCanSign { key_spend: false, script_spend: l.clone(), sighash_default } }));
                    }
                    for mall in [false, true] {
                        bump(&mut cen, "keysource_evaluations");
                        let got = guard(|| if mall { desc.clone().plan_mall(&assets).is_ok() } else { desc.clone().plan(&assets).is_ok() });
                        match got {
                            Ok(g) if g == expect => bump(&mut cen, if g { "keysource_plan_as_expected" } else { "keysource_no_plan_as_expected" }),
                            Ok(g) => rep.violation(Violation {
                                key: format!("C17|leaf-permissions|{}|{}|{}", name, sighash_default, mall),
                                class: format!("leaf-permissions-{}", if g { "plan-without-permission" } else { "no-plan-with-permission" }),
                                what: format!("asset entries {:?} for one key: plan{}() {} but the key {} sign its leaf", leaves, if mall { "_mall" } else { "" }, if g { "succeeds" } else { "fails" }, if expect { "may" } else { "may not" }),
                                case: json!({"descriptor": dtext, "entries": name}),
                            }),
                            Err(pn) => rep.violation(Violation {
                                key: format!("C17|leaf-permissions-panic|{}", panic_site(&pn)),
                                class: format!("planner-panic@{}", panic_site(&pn)),
                                what: pn,
                                case: json!({"descriptor": dtext, "entries": name}),
                            }),
                        }
                    }
                }
            }
        } else {
            bump(&mut cen, "keysource_descriptor_refused");
        }
    }
    cen
}

pub fn run(tier: Tier) -> i32 {
    let rep = Report::new("C17", tier);
    match crate::kat::run_kats() {
        Ok(n) => rep.count("rsm_kats_passed", n),
        Err(e) => {
            println!("MACHINERY: reference Script machine failed its known-answer tests: {}", e);
            return 2;
        }
    }
    let b = bounds(Prop::C01, tier);
    let thorough = tier == Tier::Thorough;
    let u = universe(b.n_seg, b.n_leg, b.n_tap, b.alpha);
    let models = descriptor_models(&u, b.n_seg, b.n_shwsh, b.n_leg, b.n_tap, b.n_part);
    rep.extra("bounds", json!({"nodes": {"wsh": b.n_seg, "sh-wsh": b.n_shwsh, "sh": b.n_leg, "tr": b.n_tap}}));
    let cen = models
        .par_iter()
        .fold(Census::new, |mut cen, d| {
            // uncompressed keys where the context permits them (the plan's placeholders carry the key form)
            let forms: &[KeyForm] = match d {
                D::Sh(crate::ast::T::Multi(..)) | D::Sh(crate::ast::T::SortedMulti(..)) | D::Bare(crate::ast::T::SortedMulti(..)) => &[KeyForm::Compressed, KeyForm::Uncompressed, KeyForm::Mixed, KeyForm::MixedAlt],
                D::Sh(t) if t.size() <= 4 => &[KeyForm::Compressed, KeyForm::Uncompressed],
                D::Bare(_) | D::Pkh(_) => &[KeyForm::Compressed, KeyForm::Uncompressed],
                _ => &[KeyForm::Compressed],
            };
            for f in forms {
                if let Ok(Ok(c)) = guard(|| prepare(d, *f)) {
                    bump(&mut cen, "descriptors");
                    check_desc(&rep, &c, thorough, &mut cen);
                }
            }
            cen
        })
        .reduce(Census::new, |mut a, b| {
            for (k, v) in b {
                *a.entry(k).or_insert(0) += v;
            }
            a
        });
    rep.merge_counts(&cen);
    rep.merge_counts(&key_source_family(&rep));
    if let Some(d) = models.iter().rev().find(|d| matches!(d, D::Tr(_, l) if l.len() == 2)) {
        rep.sample(json!({"descriptor_model": d.sexpr(), "cansign": ["default", "no-key-spend", "ecdsa-only", "leaf-restricted"]}));
    }
    rep.assume("Assets built from the world: key sources (fingerprint, m/7) for available keys, preimage sets, absolute/relative maxima = the transaction's nLockTime/nSequence when they enable CLTV/CSV");
    let states = (u.segwit.count() + u.legacy.count() + u.tap.count()) as u64 + models.len() as u64;
    let transitions = u.segwit.attempted + u.legacy.attempted + u.tap.attempted + rep.get("evaluations");
    rep.finish(
        states,
        transitions,
        rep.get("plan_equals_direct") + rep.get("reported_locks_sufficient") + rep.get("weaker_lock_rejected"),
        rep.get("evaluations"),
        rep.get("weaker_lock_rejected") + rep.get("both_succeed").min(rep.get("both_refuse")),
        "every descriptor of the C01 enumeration x all worlds x CanSign variants x both plan modes: plan exists iff the equivalent satisfier succeeds; completing the plan equals the direct satisfaction; the spend validates on the RSM with exactly the reported locks and is rejected with each weaker lock (value-1, removed, other unit, final sequence); key-source family: 7 key forms (xpub / single key, with and without origin and derivation steps) x 8 output shapes x every related source path (each prefix, one step longer, sibling, uncle) x 2 fingerprints: a plan exists iff the documented direct-child rule says the source signs. non-trivial = weaker-lock transactions rejected + min(both succeed, both refuse)",
        true,
    )
}

//! C04 — script encoding and decoding are inverse and canonical.

use std::collections::BTreeMap;
use std::str::FromStr;
use std::sync::atomic::{AtomicU64, Ordering};

use bitcoin::hashes::{hash160, ripemd160, sha256, Hash};
use bitcoin::secp256k1::XOnlyPublicKey;
use bitcoin::ScriptBuf;
use miniscript::miniscript::types::Base;
use miniscript::{BareCtx, Legacy, Miniscript, MiniscriptKey, ScriptContext, Segwitv0, Tap, ToPublicKey, ValidationParams};
use rayon::prelude::*;
use serde_json::json;

use crate::ast::op::*;
use crate::ast::{build, encode_ref, encode_toks, serialize_toks, walk, Env, Tok, T};
use crate::common::*;
use crate::keys::{key, KeyForm, PkEnv, RefEnc, XEnv};
use crate::terms::{explore, Alphabet, Cx};

type Census = BTreeMap<&'static str, u64>;
fn bump(c: &mut Census, k: &'static str) { *c.entry(k).or_insert(0) += 1; }
fn merge(a: &mut Census, b: Census) {
    for (k, v) in b {
        *a.entry(k).or_insert(0) += v;
    }
}

/// Env parsing keys/hashes from their display strings (used to rebuild decoded terms).
pub struct ParseEnv;
macro_rules! parse_env {
    ($pk:ty) => {
        impl Env<$pk> for ParseEnv {
            fn pk(&self, l: &str) -> $pk { <$pk>::from_str(l).expect("key string") }
            fn sha256(&self, l: &str) -> sha256::Hash { sha256::Hash::from_str(l).unwrap() }
            fn hash256(&self, l: &str) -> miniscript::hash256::Hash { miniscript::hash256::Hash::from_str(l).unwrap() }
            fn ripemd160(&self, l: &str) -> ripemd160::Hash { ripemd160::Hash::from_str(l).unwrap() }
            fn hash160(&self, l: &str) -> hash160::Hash { hash160::Hash::from_str(l).unwrap() }
        }
    };
}
parse_env!(bitcoin::PublicKey);
parse_env!(XOnlyPublicKey);

/// What decode is documented to forget: pk_h -> raw pkh, sortedmulti -> multi (sorted keys).
fn forget(t: &T, keystr_to_bytes: &dyn Fn(&str) -> Vec<u8>) -> T {
    match t {
        T::PkH(k) => T::RawPkH(hex(&hash160::Hash::hash(&keystr_to_bytes(k)).to_byte_array())),
        T::SortedMulti(k, ks) => {
            let mut v = ks.clone();
            v.sort_by_key(|s| keystr_to_bytes(s));
            T::Multi(*k, v)
        }
        T::SortedMultiA(k, ks) => {
            let mut v = ks.clone();
            v.sort_by_key(|s| keystr_to_bytes(s));
            T::MultiA(*k, v)
        }
        _ => {
            let mut t2 = t.clone();
            for c in t2.children_mut() {
                *c = forget(c, keystr_to_bytes);
            }
            t2
        }
    }
}

/// The harness's own lift of a term to a policy (keys identified by hash160 of their bytes).
pub fn own_lift(t: &T, kb: &dyn Fn(&str) -> Vec<u8>) -> crate::policy::P {
    use crate::policy::P;
    let kh = |k: &str| P::Key(hex(&hash160::Hash::hash(&kb(k)).to_byte_array()));
    match t {
        T::False => P::Unsat,
        T::True => P::Trivial,
        T::PkK(k) | T::PkH(k) => kh(k),
        T::RawPkH(h) => P::Key(h.clone()),
        T::After(n) => P::After(*n),
        T::Older(n) => P::Older(*n),
        T::Sha256(h) => P::Sha256(h.clone()),
        T::Hash256(h) => P::Hash256(h.clone()),
        T::Ripemd160(h) => P::Ripemd160(h.clone()),
        T::Hash160(h) => P::Hash160(h.clone()),
        T::Alt(x) | T::Swap(x) | T::Check(x) | T::DupIf(x) | T::Verify(x) | T::NonZero(x) | T::ZeroNotEqual(x) => own_lift(x, kb),
        T::AndV(a, b) | T::AndB(a, b) => P::And(vec![own_lift(a, kb), own_lift(b, kb)]),
        T::AndOr(a, b, c) => P::Or(vec![(1, P::And(vec![own_lift(a, kb), own_lift(b, kb)])), (1, own_lift(c, kb))]),
        T::OrB(a, b) | T::OrD(a, b) | T::OrC(a, b) | T::OrI(a, b) => P::Or(vec![(1, own_lift(a, kb)), (1, own_lift(b, kb))]),
        T::Thresh(k, v) => P::Thresh(*k, v.iter().map(|c| own_lift(c, kb)).collect()),
        T::Multi(k, ks) | T::SortedMulti(k, ks) | T::MultiA(k, ks) | T::SortedMultiA(k, ks) => {
            P::Thresh(*k, ks.iter().map(|x| kh(x)).collect())
        }
    }
}

pub fn same_truth_table(a: &crate::policy::P, b: &crate::policy::P) -> bool {
    let mut atoms = a.atoms();
    for x in b.atoms() {
        if !atoms.contains(&x) {
            atoms.push(x);
        }
    }
    if atoms.len() > 16 {
        // too many atoms for a table: equal up to the order of children of the commutative nodes
        fn canon(p: &crate::policy::P) -> crate::policy::P {
            use crate::policy::P;
            match p {
                P::And(v) => {
                    let mut v: Vec<P> = v.iter().map(canon).collect();
                    v.sort();
                    P::And(v)
                }
                P::Or(v) => {
                    let mut v: Vec<(usize, P)> = v.iter().map(|(_, c)| (1, canon(c))).collect();
                    v.sort();
                    P::Or(v)
                }
                P::Thresh(k, v) => {
                    let mut v: Vec<P> = v.iter().map(canon).collect();
                    v.sort();
                    P::Thresh(*k, v)
                }
                x => x.clone(),
            }
        }
        return canon(a) == canon(b);
    }
    for m in 0..(1u32 << atoms.len()) {
        let f = |p: &crate::policy::P| atoms.iter().position(|x| x == p).map(|i| m & (1 << i) != 0).unwrap_or(false);
        if a.eval(&f) != b.eval(&f) {
            return false;
        }
    }
    true
}

trait CtxInfo: Cx {
    const NAME: &'static str;
    const TAP: bool;
    fn form() -> KeyForm;
    fn env() -> Box<dyn Env<Self::Key>>;
}
impl CtxInfo for Segwitv0 {
    const NAME: &'static str = "segwitv0";
    const TAP: bool = false;
    fn form() -> KeyForm { KeyForm::Compressed }
    fn env() -> Box<dyn Env<bitcoin::PublicKey>> { Box::new(PkEnv { form: KeyForm::Compressed }) }
}
impl CtxInfo for Legacy {
    const NAME: &'static str = "legacy";
    const TAP: bool = false;
    fn form() -> KeyForm { KeyForm::Compressed }
    fn env() -> Box<dyn Env<bitcoin::PublicKey>> { Box::new(PkEnv { form: KeyForm::Compressed }) }
}
impl CtxInfo for BareCtx {
    const NAME: &'static str = "bare";
    const TAP: bool = false;
    fn form() -> KeyForm { KeyForm::Uncompressed }
    fn env() -> Box<dyn Env<bitcoin::PublicKey>> { Box::new(PkEnv { form: KeyForm::Uncompressed }) }
}
impl CtxInfo for Tap {
    const NAME: &'static str = "tap";
    const TAP: bool = true;
    fn form() -> KeyForm { KeyForm::XOnly }
    fn env() -> Box<dyn Env<XOnlyPublicKey>> { Box::new(XEnv) }
}

fn part_a<Ctx: CtxInfo>(rep: &Report, n: usize, alpha: Alphabet) -> (Census, u64, u64, Vec<Vec<u8>>)
where
    Ctx::Key: ToPublicKey + FromStr,
    ParseEnv: Env<Ctx::Key>,
    <Ctx::Key as FromStr>::Err: std::fmt::Debug,
    Ctx::Key: MiniscriptKey<Sha256 = sha256::Hash, Hash256 = miniscript::hash256::Hash, Ripemd160 = ripemd160::Hash, Hash160 = hash160::Hash>,
{
    let te = explore::<Ctx>(n, alpha, Ctx::TAP);
    let all: Vec<T> = te.all().map(|m| walk(m).relabel_distinct()).collect();
    let scripts = std::sync::Mutex::new(Vec::<Vec<u8>>::new());
    let cen = all
        .par_iter()
        .fold(Census::new, |mut cen, t| {
            if let Some(bytes) = check_term::<Ctx>(rep, t, &mut cen) {
                if t.size() <= 5 {
                    scripts.lock().unwrap().push(bytes);
                }
            }
            cen
        })
        .reduce(Census::new, |mut a, b| {
            merge(&mut a, b);
            a
        });
    (cen, te.count() as u64, te.attempted, scripts.into_inner().unwrap())
}

/// Value boundaries the node-count exploration cannot reach with its small leaf alphabet: every
/// (k, n) of multi / sortedmulti / multi_a / thresh up to the consensus maxima that matter for the
/// number encoding (OP_1..OP_16 vs. one- and two-byte pushes), and lock values around every
/// change of the minimal-number length; each also below the parents that fold or wrap the last opcode.
fn boundary_terms(tap: bool) -> Vec<T> {
    let keys = |n: usize| -> Vec<String> { (0..n).map(|i| format!("K{}", i)).collect() };
    let mut base: Vec<T> = vec![];
    if !tap {
        for n in 1..=20usize {
            for k in 1..=n {
                base.push(T::Multi(k, keys(n)));
                if k == 1 || k == n || k == 16 || k == 17 {
                    base.push(T::SortedMulti(k, keys(n)));
                }
            }
        }
    } else {
        let ns: Vec<usize> = (1..=20).chain([127, 128, 129, 255, 256, 257, 999]).collect();
        for &n in &ns {
            let ks: Vec<usize> = if n <= 20 { (1..=n).collect() } else { vec![1, 16, 17, 127, 128, 255, 256, n - 1, n].into_iter().filter(|&k| k <= n).collect() };
            for k in ks {
                base.push(T::MultiA(k, keys(n)));
                if k == 1 || k == n || k == 16 || k == 17 {
                    base.push(T::SortedMultiA(k, keys(n)));
                }
            }
        }
    }
    // thresh(k, pk, s:pk, ...): k and n across the OP_16 / 1-byte / 2-byte boundaries
    for n in [1usize, 2, 3, 16, 17, 18, 20, 40] {
        for k in [1usize, 2, 15, 16, 17, 18, n.saturating_sub(1), n] {
            if k == 0 || k > n {
                continue;
            }
            let mut subs = vec![T::Check(Box::new(T::PkK("K0".into())))];
            for i in 1..n {
                subs.push(T::Swap(Box::new(T::Check(Box::new(T::PkK(format!("K{}", i)))))));
            }
            base.push(T::Thresh(k, subs));
        }
    }
    let mut vals: Vec<u32> = vec![];
    for b in [1u32, 16, 17, 0x7f, 0x80, 0xff, 0x100, 0x7fff, 0x8000, 0xffff, 0x1_0000, 0x7f_ffff, 0x80_0000, 0xff_ffff, 0x100_0000, 499_999_999, 500_000_000, 0x7fff_ffff] {
        for d in [-1i64, 0, 1] {
            let v = b as i64 + d;
            if v >= 1 && v <= 0x7fff_ffff {
                vals.push(v as u32);
            }
        }
    }
    vals.sort();
    vals.dedup();
    for &v in &vals {
        base.push(T::After(v));
        // relative locks: the type-flag bit and the 16-bit value mask
        base.push(T::Older(v));
    }
    for v in [0x3f_ffffu32, 0x40_0000, 0x40_0001, 0x40_ffff, 0x41_0000] {
        base.push(T::Older(v));
    }
    base.sort();
    base.dedup();
    let mut out = vec![];
    let pk = || T::Check(Box::new(T::PkK("Z".into())));
    for b in base {
        out.push(T::Verify(Box::new(b.clone())));
        out.push(T::AndV(Box::new(T::Verify(Box::new(b.clone()))), Box::new(pk())));
        out.push(T::AndV(Box::new(T::Verify(Box::new(pk()))), Box::new(b.clone())));
        out.push(T::OrI(Box::new(b.clone()), Box::new(pk())));
        out.push(b);
    }
    out
}

fn part_a_boundaries<Ctx: CtxInfo>(rep: &Report) -> Census
where
    Ctx::Key: ToPublicKey + FromStr,
    ParseEnv: Env<Ctx::Key>,
    <Ctx::Key as FromStr>::Err: std::fmt::Debug,
    Ctx::Key: MiniscriptKey<Sha256 = sha256::Hash, Hash256 = miniscript::hash256::Hash, Ripemd160 = ripemd160::Hash, Hash160 = hash160::Hash>,
{
    let all = boundary_terms(Ctx::TAP);
    let mut cen = all
        .par_iter()
        .fold(Census::new, |mut cen, t| {
            let before = cen.get("terms").copied().unwrap_or(0);
            check_term::<Ctx>(rep, t, &mut cen);
            if cen.get("terms").copied().unwrap_or(0) > before {
                bump(&mut cen, "boundary_terms");
            }
            cen
        })
        .reduce(Census::new, |mut a, b| {
            merge(&mut a, b);
            a
        });
    *cen.entry("boundary_terms_offered").or_insert(0) += all.len() as u64;
    cen
}

/// Two nested levels of one-hole contexts around every fragment up to `n` nodes (+ the macro
/// fragments): terms of up to n + 16 nodes whose inner fragment and both context levels are exhaustive
/// (and_v chains of three, wrappers around control-flow fragments, ...).
fn part_a_contexts<Ctx: CtxInfo>(rep: &Report, n: usize) -> Census
where
    Ctx::Key: ToPublicKey + FromStr,
    ParseEnv: Env<Ctx::Key>,
    <Ctx::Key as FromStr>::Err: std::fmt::Debug,
    Ctx::Key: MiniscriptKey<Sha256 = sha256::Hash, Hash256 = miniscript::hash256::Hash, Ripemd160 = ripemd160::Hash, Hash160 = hash160::Hash>,
{
    let te = explore::<Ctx>(n, Alphabet::Small, Ctx::TAP);
    let mut frags: Vec<T> = te.all().map(|m| walk(m).relabel_distinct()).collect();
    frags.extend(crate::sat::macro_fragments(Ctx::TAP));
    let mut terms: std::collections::BTreeSet<T> = frags.par_iter().flat_map_iter(|f| crate::sat::in_contexts2::<Ctx>(f)).collect();
    // three levels around the fragments of at most two nodes (chains of three and_v / or / andor steps)
    let small: Vec<T> = te.levels.iter().take(3).flat_map(|l| l.iter()).map(|m| walk(m).relabel_distinct()).collect();
    let deep: Vec<T> = small.par_iter().flat_map_iter(|f| crate::sat::in_contexts_n::<Ctx>(f, 3)).collect();
    terms.extend(deep);
    let terms: Vec<T> = terms.into_iter().collect();
    let mut cen = terms
        .par_iter()
        .fold(Census::new, |mut cen, t| {
            check_term::<Ctx>(rep, t, &mut cen);
            cen
        })
        .reduce(Census::new, |mut a, b| {
            merge(&mut a, b);
            a
        });
    *cen.entry("context_terms").or_insert(0) += terms.len() as u64;
    cen
}

/// All of part (a) for one term; returns its script when the term was built.
fn check_term<Ctx: CtxInfo>(rep: &Report, t: &T, cen: &mut Census) -> Option<Vec<u8>>
where
    Ctx::Key: ToPublicKey + FromStr,
    ParseEnv: Env<Ctx::Key>,
    <Ctx::Key as FromStr>::Err: std::fmt::Debug,
    Ctx::Key: MiniscriptKey<Sha256 = sha256::Hash, Hash256 = miniscript::hash256::Hash, Ripemd160 = ripemd160::Hash, Hash160 = hash160::Hash>,
{
    let env = Ctx::env();
    let ms = match build::<Ctx::Key, Ctx>(t, env.as_ref()) {
        Ok(m) => m,
        Err(_) => {
            bump(cen, "build_refused");
            return None;
        }
    };
    bump(cen, "terms");
    let tsx = t.sexpr();
    let script = ms.encode();
    let bytes = script.as_bytes().to_vec();
    let mut viol = |class: &str, what: String| {
        rep.violation(Violation {
            key: format!("C04|{}|{}|{}", class, Ctx::NAME, tsx),
            class: format!("{}-{}", class, Ctx::NAME),
            what,
            case: json!({"ctx": Ctx::NAME, "miniscript": ms.to_string(), "model": tsx, "script": hex(&bytes)}),
        });
    };
    // encoder vs reference encoder (translation table of the specification)
    let refb = encode_ref(t, &RefEnc { form: Ctx::form() });
    if refb != bytes {
        viol("encode-differs-from-reference", format!("reference encoding {}", hex(&refb)));
    } else {
        bump(cen, "encodings_equal_reference");
    }
    if ms.script_size() != bytes.len() {
        viol("script_size", format!("script_size() = {} but encoding has {} bytes", ms.script_size(), bytes.len()));
    }
    if ms.ext.pk_cost != bytes.len() {
        viol("pk_cost", format!("ext.pk_cost = {} but encoding has {} bytes", ms.ext.pk_cost, bytes.len()));
    }
    // decode back
    match guard(|| Miniscript::<Ctx::Key, Ctx>::decode_with_validation_params(&script, &ValidationParams::MAX)) {
        Ok(Ok(m2)) => {
            bump(cen, "decoded");
            let w2 = walk(&m2);
            // The script grammar is ambiguous (e.g. n:and_v(v:0,0) and and_v(v:0,n:0) share one
            // script), so the decoded tree need not be the same tree; it must have the same
            // spending semantics: equal truth tables of the harness's own lift.
            let kb = |s: &str| -> Vec<u8> {
                let k = Ctx::Key::from_str(s).unwrap();
                if Ctx::TAP {
                    k.to_x_only_pubkey().serialize().to_vec()
                } else {
                    k.to_public_key().to_bytes()
                }
            };
            let p1 = own_lift(&walk(&ms), &kb);
            let p2 = own_lift(&w2, &kb);
            if !same_truth_table(&p1, &p2) {
                viol("decode-semantics", format!("decoded {} has different spending semantics than {}", w2.sexpr(), tsx));
            } else if w2 == forget(&walk(&ms), &kb) {
                bump(cen, "decoded_structurally_identical");
            } else {
                bump(cen, "decoded_other_parse_same_semantics");
            }
            if m2.encode() != script {
                viol("decode-reencode", format!("re-encoding differs: {}", hex(m2.encode().as_bytes())));
            }
            if m2.ty != ms.ty {
                viol("decode-type", format!("decoded type {:?} original {:?}", m2.ty, ms.ty));
            }
            if ms.ty.corr.base == Base::B && ms.validate(&Ctx::CONSENSUS).is_ok() {
                match Miniscript::<Ctx::Key, Ctx>::decode_consensus(&script) {
                    Ok(_) => bump(cen, "decode_consensus_ok"),
                    Err(e) => viol("decode_consensus-rejects", e.to_string()),
                }
            }
        }
        Ok(Err(e)) => {
            // the decoder works top-down from a complete expression: W terms cannot be top level
            if ms.ty.corr.base == Base::W {
                bump(cen, "w_terms_not_decodable_at_top_level");
            } else {
                viol("decode-fails", format!("decode of own encoding fails: {}", e));
            }
        }
        Err(p) => viol("decode-panics", p),
    }
    Some(bytes)
}

/// (b): anything that decodes must re-encode to exactly the input bytes.
fn check_bytes<Ctx: CtxInfo>(rep: &Report, bytes: &[u8], origin: &str, ok: &AtomicU64)
where
    Ctx::Key: ToPublicKey + FromStr,
    ParseEnv: Env<Ctx::Key>,
{
    let script = ScriptBuf::from_bytes(bytes.to_vec());
    for (pname, params) in [("MAX", ValidationParams::MAX), ("CONSENSUS", Ctx::CONSENSUS), ("SANE", Ctx::SANE)] {
        let r = guard(|| Miniscript::<Ctx::Key, Ctx>::decode_with_validation_params(&script, &params));
        let m = match r {
            Ok(Ok(m)) => m,
            Ok(Err(_)) => continue,
            Err(_) => continue, // panics are C11's subject
        };
        ok.fetch_add(1, Ordering::Relaxed);
        let re = m.encode();
        if re.as_bytes() != bytes {
            rep.violation(Violation {
                key: format!("C04|noncanonical|{}|{}", Ctx::NAME, hex(bytes)),
                class: format!("decoder-accepts-noncanonical-{}-{}", Ctx::NAME, origin),
                what: format!("decodes ({}) to {} whose encoding is {}", pname, m, hex(re.as_bytes())),
                case: json!({"ctx": Ctx::NAME, "input_script": hex(bytes), "decoded": m.to_string(), "reencoded": hex(re.as_bytes()), "params": pname, "origin": origin}),
            });
            return;
        }
        // every node must type-check: rebuild bottom-up through from_ast
        let w = walk(&m);
        match build::<Ctx::Key, Ctx>(&w, &ParseEnv) {
            Ok(m2) => {
                if m2.ty != m.ty {
                    rep.violation(Violation {
                        key: format!("C04|decoded-type|{}|{}", Ctx::NAME, hex(bytes)),
                        class: format!("decoded-type-differs-from-from_ast-{}", Ctx::NAME),
                        what: format!("decoder stored type {:?}, from_ast computes {:?}", m.ty, m2.ty),
                        case: json!({"ctx": Ctx::NAME, "input_script": hex(bytes), "decoded": m.to_string()}),
                    });
                }
            }
            Err(e) => {
                rep.violation(Violation {
                    key: format!("C04|decoded-illtyped|{}|{}", Ctx::NAME, hex(bytes)),
                    class: format!("decoder-returns-ill-typed-term-{}", Ctx::NAME),
                    what: format!("decoded term is rejected by from_ast: {}", e),
                    case: json!({"ctx": Ctx::NAME, "input_script": hex(bytes), "decoded": m.to_string()}),
                });
            }
        }
    }
}

fn token_alphabet(tap: bool) -> Vec<Tok> {
    let mut v: Vec<Tok> = [
        BOOLAND, BOOLOR, ADD, EQUAL, EQUALVERIFY, NUMEQUAL, NUMEQUALVERIFY, CHECKSIG, CHECKSIGVERIFY, CHECKSIGADD,
        CHECKMULTISIG, CHECKMULTISIGVERIFY, CSV, CLTV, FROMALTSTACK, TOALTSTACK, DROP, DUP, IF, IFDUP, NOTIF, ELSE,
        ENDIF, ZERO_NOT_EQUAL, SIZE, SWAP, VERIFY, RIPEMD160, HASH160, SHA256, HASH256,
    ]
    .iter()
    .map(|o| Tok::Op(*o))
    .collect();
    for n in [0i64, 1, 2, 16, 17, 32, 100] {
        v.push(Tok::Num(n));
    }
    if tap {
        v.push(Tok::Push(key("K1").x32()));
        v.push(Tok::Push(key("K2").x32()));
    } else {
        v.push(Tok::Push(key("K1").compressed()));
        v.push(Tok::Push(key("K2").compressed()));
    }
    v.push(Tok::Push(vec![0xabu8; 32]));
    v.push(Tok::Push(vec![0xcdu8; 20]));
    v
}

fn part_b_tokens<Ctx: CtxInfo>(rep: &Report, l: usize) -> (u64, u64)
where
    Ctx::Key: ToPublicKey + FromStr,
    ParseEnv: Env<Ctx::Key>,
{
    let alpha = token_alphabet(Ctx::TAP);
    let ok = AtomicU64::new(0);
    let n = AtomicU64::new(0);
    let a = alpha.len();
    for len in 1..=l {
        let total = a.pow(len as u32);
        (0..total).into_par_iter().for_each(|mut code| {
            let mut toks = Vec::with_capacity(len);
            for _ in 0..len {
                toks.push(alpha[code % a].clone());
                code /= a;
            }
            let bytes = serialize_toks(&toks);
            check_bytes::<Ctx>(rep, &bytes, "token-sequence", &ok);
            n.fetch_add(1, Ordering::Relaxed);
        });
    }
    (n.load(Ordering::Relaxed), ok.load(Ordering::Relaxed))
}

/// Every single-token edit and every alternative push encoding of valid scripts.
fn part_b_mutations<Ctx: CtxInfo>(rep: &Report, scripts: &[Vec<u8>]) -> (u64, u64)
where
    Ctx::Key: ToPublicKey + FromStr,
    ParseEnv: Env<Ctx::Key>,
{
    let alpha = token_alphabet(Ctx::TAP);
    let ok = AtomicU64::new(0);
    let n = AtomicU64::new(0);
    scripts.par_iter().for_each(|s| {
        // re-tokenise with the harness's own parser
        let ops = crate::rsm::parse_script(s);
        let toks: Vec<Tok> = ops
            .iter()
            .filter_map(|o| match o {
                crate::rsm::Op::Push { data, .. } => Some(Tok::Push(data.clone())),
                crate::rsm::Op::Code(c) => Some(Tok::Op(*c)),
                crate::rsm::Op::Bad => None,
            })
            .collect();
        let ser = |toks: &[Tok]| -> Vec<u8> {
            // raw serialisation: Op bytes as they are, pushes minimal
            let mut out = vec![];
            for t in toks {
                match t {
                    Tok::Op(o) => out.push(*o),
                    Tok::Push(d) => {
                        if d.is_empty() {
                            out.push(0)
                        } else {
                            crate::ast::push_data_minimal(d, &mut out)
                        }
                    }
                    Tok::Num(_) => out.extend(serialize_toks(&[t.clone()])),
                }
            }
            out
        };
        let mut cands: Vec<Vec<u8>> = vec![];
        for i in 0..toks.len() {
            // deletion
            let mut d = toks.clone();
            d.remove(i);
            cands.push(ser(&d));
            // adjacent swap
            if i + 1 < toks.len() {
                let mut d = toks.clone();
                d.swap(i, i + 1);
                cands.push(ser(&d));
            }
            for a in &alpha {
                // substitution
                let mut d = toks.clone();
                d[i] = a.clone();
                cands.push(if matches!(a, Tok::Num(_)) { let mut x = ser(&d[..i]); x.extend(serialize_toks(&[a.clone()])); x.extend(ser(&d[i + 1..])); x } else { ser(&d) });
                // insertion
                let mut d = toks.clone();
                d.insert(i, a.clone());
                cands.push(if matches!(a, Tok::Num(_)) { let mut x = ser(&toks[..i]); x.extend(serialize_toks(&[a.clone()])); x.extend(ser(&toks[i..])); x } else { ser(&d) });
            }
            // alternative byte encodings of this token
            let pre = ser(&toks[..i]);
            let post = ser(&toks[i + 1..]);
            let mut alts: Vec<Vec<u8>> = vec![];
            match &toks[i] {
                Tok::Push(d) => {
                    if d.len() <= 255 {
                        let mut x = vec![PUSHDATA1, d.len() as u8];
                        x.extend(d);
                        alts.push(x);
                    }
                    let mut x = vec![PUSHDATA2];
                    x.extend((d.len() as u16).to_le_bytes());
                    x.extend(d);
                    alts.push(x);
                    let mut x = vec![PUSHDATA4];
                    x.extend((d.len() as u32).to_le_bytes());
                    x.extend(d);
                    alts.push(x);
                    // a key push with every other prefix byte (hybrid 06 / 07 encodings of the same point,
                    // wrong parity, invalid tags): accepted only if it re-encodes to exactly these bytes
                    if d.len() == 33 || d.len() == 65 {
                        for tag in [0x00u8, 0x01, 0x02, 0x03, 0x04, 0x05, 0x06, 0x07, 0x08] {
                            if tag != d[0] {
                                let mut k = d.clone();
                                k[0] = tag;
                                let mut x = vec![];
                                crate::ast::push_data_minimal(&k, &mut x);
                                alts.push(x);
                            }
                        }
                    }
                    // zero padded / negative zero numbers
                    if d.len() < 4 {
                        let mut p = d.clone();
                        p.push(0);
                        let mut x = vec![p.len() as u8];
                        x.extend(p);
                        alts.push(x);
                    }
                }
                Tok::Op(o) if (OP_1..=OP_16).contains(o) => {
                    alts.push(vec![0x01, o - 0x50]);
                    alts.push(vec![0x02, o - 0x50, 0x00]);
                }
                Tok::Op(0) => {
                    alts.push(vec![0x01, 0x00]);
                    alts.push(vec![0x01, 0x80]);
                    alts.push(vec![PUSHDATA1, 0x00]);
                }
                Tok::Op(EQUALVERIFY) => alts.push(vec![EQUAL, VERIFY]),
                Tok::Op(NUMEQUALVERIFY) => alts.push(vec![NUMEQUAL, VERIFY]),
                Tok::Op(CHECKSIGVERIFY) => alts.push(vec![CHECKSIG, VERIFY]),
                Tok::Op(CHECKMULTISIGVERIFY) => alts.push(vec![CHECKMULTISIG, VERIFY]),
                _ => {}
            }
            for a in alts {
                let mut x = pre.clone();
                x.extend(a);
                x.extend(post.clone());
                cands.push(x);
            }
        }
        for c in cands {
            if &c != s {
                check_bytes::<Ctx>(rep, &c, "single-edit", &ok);
                n.fetch_add(1, Ordering::Relaxed);
            }
        }
    });
    (n.load(Ordering::Relaxed), ok.load(Ordering::Relaxed))
}

fn part_b_raw<Ctx: CtxInfo>(rep: &Report, maxlen: usize) -> (u64, u64)
where
    Ctx::Key: ToPublicKey + FromStr,
    ParseEnv: Env<Ctx::Key>,
{
    let ok = AtomicU64::new(0);
    let n = AtomicU64::new(0);
    for len in 0..=maxlen {
        let total = 256usize.pow(len as u32);
        (0..total).into_par_iter().for_each(|mut code| {
            let mut b = Vec::with_capacity(len);
            for _ in 0..len {
                b.push((code & 0xff) as u8);
                code >>= 8;
            }
            check_bytes::<Ctx>(rep, &b, "raw-bytes", &ok);
            n.fetch_add(1, Ordering::Relaxed);
        });
    }
    (n.load(Ordering::Relaxed), ok.load(Ordering::Relaxed))
}

pub fn run(tier: Tier) -> i32 {
    let rep = Report::new("C04", tier);
    let (na, l, rawlen) = tier.pick((6, 3, 2), (7, 4, 3));
    rep.extra("bounds", json!({"encode_decode_nodes": na, "token_sequence_length": l, "raw_byte_length": rawlen, "mutation_source_nodes": 5}));
    let mut states = 0;
    let mut transitions = 0;
    let mut evals = 0u64;
    let mut decoded_ok = 0u64;
    macro_rules! ctx {
        ($c:ty, $n:expr) => {{
            let (cen, s, t, scripts) = part_a::<$c>(&rep, $n, Alphabet::Small);
            rep.merge_counts(&cen);
            states += s;
            transitions += t;
            let (n1, o1) = part_b_tokens::<$c>(&rep, l);
            let (n2, o2) = part_b_mutations::<$c>(&rep, &scripts);
            let (n3, o3) = part_b_raw::<$c>(&rep, rawlen);
            rep.count("token_sequences", n1);
            rep.count("single_edits", n2);
            rep.count("raw_byte_strings", n3);
            evals += n1 + n2 + n3;
            decoded_ok += o1 + o2 + o3;
        }};
    }
    ctx!(Segwitv0, na);
    ctx!(Tap, na);
    ctx!(Legacy, na - 1);
    ctx!(BareCtx, na - 1);
    // full alphabet one node less (time-based locks, other hashes, 2-of-3 multi, sortedmulti)
    for (cen, s, t) in [
        { let (c, s, t, _) = part_a::<Segwitv0>(&rep, na - 1, Alphabet::Full); (c, s, t) },
        { let (c, s, t, _) = part_a::<Tap>(&rep, na - 1, Alphabet::Full); (c, s, t) },
    ] {
        rep.merge_counts(&cen);
        states += s;
        transitions += t;
    }
    // value boundaries (k, n of multi / multi_a / thresh; lock values around every number-length change)
    rep.merge_counts(&part_a_boundaries::<Segwitv0>(&rep));
    rep.merge_counts(&part_a_boundaries::<Tap>(&rep));
    rep.merge_counts(&part_a_boundaries::<Legacy>(&rep));
    rep.merge_counts(&part_a_boundaries::<BareCtx>(&rep));
    let nc = tier.pick(3, 4);
    rep.extra("context_fragment_nodes", json!(nc));
    rep.merge_counts(&part_a_contexts::<Segwitv0>(&rep, nc));
    rep.merge_counts(&part_a_contexts::<Tap>(&rep, nc));
    rep.merge_counts(&part_a_contexts::<Legacy>(&rep, nc - 1));
    rep.count("byte_strings_that_decoded", decoded_ok);
    rep.sample(json!({"token_alphabet": "31 opcodes, numbers 0 1 2 16 17 32 100, two keys, a 32-byte and a 20-byte string"}));
    rep.sample(json!({"single_edits": "per token: deletion, adjacent swap, substitution/insertion by every alphabet token, PUSHDATA1/2/4 forms, 01 nn instead of OP_n, zero-padded numbers, *VERIFY split into op + VERIFY"}));
    rep.assume("reference encoder = translation table of the Miniscript specification (ast.rs), independent of the crate");
    rep.finish(
        states,
        transitions + evals,
        rep.get("decoded") + decoded_ok,
        rep.get("terms") + evals,
        rep.get("decoded").min(decoded_ok.max(2)),
        "(a) every well-typed term up to the node bound in 4 contexts: encode == reference encoding, script_size/pk_cost == length, decode(encode) structurally equal (modulo pk_h->raw, sortedmulti->multi), same type/ext, byte-identical re-encoding; (b) every token sequence up to length L, every single edit / alternative push encoding of every valid script of <= 5 nodes, every raw byte string up to the length bound: whatever decodes under MAX/CONSENSUS/SANE must re-encode to exactly the input and be well typed. non-trivial = min(terms decoded, byte strings that decoded)",
        true,
    )
}

//! C20 — key translation and key iteration preserve structure.

use std::collections::BTreeMap;

use bitcoin::hashes::{hash160, ripemd160, sha256};
use bitcoin::secp256k1::XOnlyPublicKey;
use miniscript::policy::{Concrete, Semantic};
use miniscript::{
    BareCtx, Descriptor, ForEachKey, Legacy, Miniscript, MiniscriptKey, Segwitv0, Tap, ToPublicKey, TranslateErr, Translator,
};
use rayon::prelude::*;
use serde_json::json;

use crate::ast::{build, encode_ref, walk, Env, StrEnv, T};
use crate::common::*;
use crate::desc::{build_desc, walk_desc, D};
use crate::keys::{hash_bytes, key, KeyForm, PkEnv, RefEnc, XEnv};
use crate::policy::{walk_concrete, walk_semantic, P};
use crate::terms::{explore, Alphabet, Cx};

type Census = BTreeMap<&'static str, u64>;
fn bump(c: &mut Census, k: &'static str) { *c.entry(k).or_insert(0) += 1; }

/// String -> String translator: renames by `f`, fails on label `fail_on`, logs the call order.
pub struct StrTr<'a> {
    pub f: &'a dyn Fn(&str) -> String,
    pub fail_on: Option<String>,
    pub calls: Vec<String>,
}

impl<'a> Translator<String> for StrTr<'a> {
    type TargetPk = String;
    type Error = String;
    fn pk(&mut self, pk: &String) -> Result<String, String> {
        self.calls.push(pk.clone());
        if self.fail_on.as_deref() == Some(pk.as_str()) {
            return Err(format!("fail:{}", pk));
        }
        Ok((self.f)(pk))
    }
    fn sha256(&mut self, h: &String) -> Result<String, String> { Ok(format!("{}'", h).replace("''", "'")) }
    fn hash256(&mut self, h: &String) -> Result<String, String> { Ok(format!("{}'", h).replace("''", "'")) }
    fn ripemd160(&mut self, h: &String) -> Result<String, String> { Ok(format!("{}'", h).replace("''", "'")) }
    fn hash160(&mut self, h: &String) -> Result<String, String> { Ok(format!("{}'", h).replace("''", "'")) }
}

/// String -> concrete key translator.
pub struct ToPk {
    pub form: KeyForm,
}
impl Translator<String> for ToPk {
    type TargetPk = bitcoin::PublicKey;
    type Error = String;
    fn pk(&mut self, pk: &String) -> Result<bitcoin::PublicKey, String> { Ok(PkEnv { form: self.form }.pk(pk)) }
    fn sha256(&mut self, h: &String) -> Result<sha256::Hash, String> { Ok(Env::<bitcoin::PublicKey>::sha256(&PkEnv { form: self.form }, h)) }
    fn hash256(&mut self, h: &String) -> Result<miniscript::hash256::Hash, String> { Ok(Env::<bitcoin::PublicKey>::hash256(&PkEnv { form: self.form }, h)) }
    fn ripemd160(&mut self, h: &String) -> Result<ripemd160::Hash, String> { Ok(Env::<bitcoin::PublicKey>::ripemd160(&PkEnv { form: self.form }, h)) }
    fn hash160(&mut self, h: &String) -> Result<hash160::Hash, String> { Ok(Env::<bitcoin::PublicKey>::hash160(&PkEnv { form: self.form }, h)) }
}
/// Maps ONE label to an uncompressed key and every other label to a compressed one.
pub struct OneUncompressed {
    pub label: String,
}
impl Translator<String> for OneUncompressed {
    type TargetPk = bitcoin::PublicKey;
    type Error = String;
    fn pk(&mut self, pk: &String) -> Result<bitcoin::PublicKey, String> {
        Ok(PkEnv { form: if *pk == self.label { KeyForm::Uncompressed } else { KeyForm::Compressed } }.pk(pk))
    }
    fn sha256(&mut self, h: &String) -> Result<sha256::Hash, String> { Ok(Env::<bitcoin::PublicKey>::sha256(&PkEnv { form: KeyForm::Compressed }, h)) }
    fn hash256(&mut self, h: &String) -> Result<miniscript::hash256::Hash, String> { Ok(Env::<bitcoin::PublicKey>::hash256(&PkEnv { form: KeyForm::Compressed }, h)) }
    fn ripemd160(&mut self, h: &String) -> Result<ripemd160::Hash, String> { Ok(Env::<bitcoin::PublicKey>::ripemd160(&PkEnv { form: KeyForm::Compressed }, h)) }
    fn hash160(&mut self, h: &String) -> Result<hash160::Hash, String> { Ok(Env::<bitcoin::PublicKey>::hash160(&PkEnv { form: KeyForm::Compressed }, h)) }
}
pub struct ToX;
impl Translator<String> for ToX {
    type TargetPk = XOnlyPublicKey;
    type Error = String;
    fn pk(&mut self, pk: &String) -> Result<XOnlyPublicKey, String> { Ok(key(pk).xonly) }
    fn sha256(&mut self, h: &String) -> Result<sha256::Hash, String> { Ok(Env::<XOnlyPublicKey>::sha256(&XEnv, h)) }
    fn hash256(&mut self, h: &String) -> Result<miniscript::hash256::Hash, String> { Ok(Env::<XOnlyPublicKey>::hash256(&XEnv, h)) }
    fn ripemd160(&mut self, h: &String) -> Result<ripemd160::Hash, String> { Ok(Env::<XOnlyPublicKey>::ripemd160(&XEnv, h)) }
    fn hash160(&mut self, h: &String) -> Result<hash160::Hash, String> { Ok(Env::<XOnlyPublicKey>::hash160(&XEnv, h)) }
}

fn prime_hashes(t: &T) -> T { t.map_hashes(&mut |_, h| format!("{}'", h).replace("''", "'")) }

fn ms_checks<Ctx: Cx>(rep: &Report, ctx: &'static str, n: usize, tap: bool, form: KeyForm) -> (Census, u64, u64)
where
    Ctx::Key: ToPublicKey,
{
    let te = explore::<Ctx>(n, Alphabet::Small, tap);
    let mut all: Vec<T> = te.all().map(|m| walk(m).relabel_distinct()).collect();
    // two nested context levels around every fragment of up to three nodes (deeper rebuild stacks)
    let small: Vec<T> = te.levels.iter().take(4).flat_map(|l| l.iter()).map(|m| walk(m).relabel_distinct()).collect();
    let deep: std::collections::BTreeSet<T> = small.par_iter().flat_map_iter(|f| crate::sat::in_contexts2::<Ctx>(f)).collect();
    all.extend(deep);
    let cen = all
        .par_iter()
        .fold(Census::new, |mut cen, t| {
            let ms = match build::<String, Ctx>(t, &StrEnv) {
                Ok(m) => m,
                Err(_) => return cen,
            };
            bump(&mut cen, "miniscripts");
            // ---- the other hand-written rebuilds: Clone and substitute_raw_pkh ----
            {
                let cl = ms.clone();
                if walk(&cl) != *t || cl.ty != ms.ty || cl.ext != ms.ext {
                    rep.violation(Violation {
                        key: format!("C20|clone|{}|{}", ctx, t.sexpr()),
                        class: format!("clone-differs-{}", t.tag()),
                        what: format!("clone() is {}", walk(&cl).sexpr()),
                        case: json!({"ctx": ctx, "model": t.sexpr()}),
                    });
                }
                let empty = std::collections::BTreeMap::new();
                let same = ms.substitute_raw_pkh(&empty);
                if walk(&same) != *t {
                    rep.violation(Violation {
                        key: format!("C20|substitute-empty|{}|{}", ctx, t.sexpr()),
                        class: format!("substitute_raw_pkh-empty-map-changes-{}", t.tag()),
                        what: format!("substitute_raw_pkh with an empty map gives {}", walk(&same).sexpr()),
                        case: json!({"ctx": ctx, "model": t.sexpr()}),
                    });
                } else {
                    bump(&mut cen, "substitute_empty_ok");
                }
                // pk_h(k) written as raw hashes, substituted back by the full map and by every single-key map
                let hash_of = |k: &str| <hash160::Hash as bitcoin::hashes::Hash>::hash(format!("label-{}", k).as_bytes());
                let pkh_keys: Vec<String> = t.nodes().iter().filter_map(|n| if let T::PkH(k) = n { Some(k.clone()) } else { None }).collect();
                if !pkh_keys.is_empty() {
                    fn to_raw(t: &T, h: &dyn Fn(&str) -> hash160::Hash, only: Option<&str>) -> T {
                        let mut t2 = t.clone();
                        fn rec(t: &mut T, h: &dyn Fn(&str) -> hash160::Hash, only: Option<&str>) {
                            if let T::PkH(k) = t {
                                if only.map(|o| o == k).unwrap_or(true) {
                                    *t = T::RawPkH(h(k).to_string());
                                }
                                return;
                            }
                            for c in t.children_mut() {
                                rec(c, h, only);
                            }
                        }
                        rec(&mut t2, h, only);
                        t2
                    }
                    let raw_all = to_raw(t, &hash_of, None);
                    if let Ok(mr) = build::<String, Ctx>(&raw_all, &StrEnv) {
                        let full: std::collections::BTreeMap<hash160::Hash, String> = pkh_keys.iter().map(|k| (hash_of(k), k.clone())).collect();
                        let back = mr.substitute_raw_pkh(&full);
                        if walk(&back) != *t {
                            rep.violation(Violation {
                                key: format!("C20|substitute-full|{}|{}", ctx, t.sexpr()),
                                class: format!("substitute_raw_pkh-wrong-{}", t.tag()),
                                what: format!("substituting every raw hash gives {} expected {}", walk(&back).sexpr(), t.sexpr()),
                                case: json!({"ctx": ctx, "model": t.sexpr(), "raw": raw_all.sexpr()}),
                            });
                        } else {
                            bump(&mut cen, "substitute_full_ok");
                        }
                        for k in &pkh_keys {
                            let one: std::collections::BTreeMap<hash160::Hash, String> = [(hash_of(k), k.clone())].into_iter().collect();
                            let got = walk(&mr.substitute_raw_pkh(&one));
                            // expected: only k's occurrences resolved
                            let others: Vec<&String> = pkh_keys.iter().filter(|x| *x != k).collect();
                            let mut exp = t.clone();
                            for o in others {
                                exp = to_raw(&exp, &hash_of, Some(o));
                            }
                            if got != exp {
                                rep.violation(Violation {
                                    key: format!("C20|substitute-one|{}|{}|{}", ctx, t.sexpr(), k),
                                    class: format!("substitute_raw_pkh-partial-wrong-{}", t.tag()),
                                    what: format!("substituting only {} gives {} expected {}", k, got.sexpr(), exp.sexpr()),
                                    case: json!({"ctx": ctx, "model": t.sexpr()}),
                                });
                            }
                        }
                    }
                }
            }
            let tsx = t.sexpr();
            let mut viol = |class: &str, what: String| {
                rep.violation(Violation {
                    key: format!("C20|{}|{}|{}", class, ctx, tsx),
                    class: format!("{}-{}", class, t.tag()),
                    what,
                    case: json!({"ctx": ctx, "model": tsx, "miniscript": ms.to_string()}),
                });
            };
            // ---- structural accessors ----
            {
                let got: Vec<T> = ms.branches().into_iter().map(|b| walk(b)).collect();
                let exp: Vec<T> = t.children().into_iter().cloned().collect();
                if got != exp {
                    viol("branches", format!("branches() yields {} children, the term has {}", got.len(), exp.len()));
                }
                let raw = t.nodes().iter().any(|x| matches!(x, T::RawPkH(_)));
                if ms.contains_raw_pkh() != raw {
                    viol("contains_raw_pkh", format!("contains_raw_pkh() = {} but the term {} a raw key hash", ms.contains_raw_pkh(), if raw { "has" } else { "has no" }));
                }
                let n_iter = ms.iter().count();
                if n_iter != t.size() {
                    viol("iter-count", format!("iter() visits {} nodes of {}", n_iter, t.size()));
                }
            }
            // ---- iterators ----
            let keys = t.keys();
            match guard(|| ms.iter_pk().collect::<Vec<String>>()) {
                Ok(v) => {
                    if v != keys {
                        viol("iter_pk", format!("iter_pk yields {:?}, keys in string form are {:?}", v, keys));
                    } else {
                        bump(&mut cen, "iter_pk_ok");
                    }
                }
                Err(e) => viol("iter_pk-panic", e),
            }
            let mut seen: Vec<String> = vec![];
            let all_true = ms.for_each_key(|k| {
                seen.push(k.clone());
                true
            });
            let mut a = seen.clone();
            a.sort();
            let mut b = keys.clone();
            b.sort();
            if a != b || !all_true {
                viol("for_each_key", format!("for_each_key visits {:?} (returns {}), expected multiset {:?}", seen, all_true, keys));
            }
            // early exit: a predicate failing on key label L must make for_each_key false and
            // for_any_key true exactly for labels that occur
            for l in b.iter().chain(std::iter::once(&"NOPE".to_string())) {
                let occurs = keys.contains(l);
                let r = ms.for_each_key(|k| k != l);
                let any = ms.for_any_key(|k| k == l);
                if r != !occurs || any != occurs {
                    viol("for_each_key-predicate", format!("label {}: for_each_key(k != l) = {}, for_any_key(k == l) = {}, occurs = {}", l, r, any, occurs));
                }
            }
            // ---- translation ----
            // identity
            let idf = |s: &str| s.to_string();
            let mut tr = StrTr { f: &idf, fail_on: None, calls: vec![] };
            match guard(|| ms.translate_pk(&mut tr)) {
                Ok(Ok(m2)) => {
                    let w = walk(&m2);
                    if w != prime_hashes(t) {
                        viol("translate-identity-structure", format!("got {}", w.sexpr()));
                    }
                    if m2.ty != ms.ty || m2.ext != ms.ext {
                        viol("translate-identity-type", "type/ext changed under identity key mapping".into());
                    }
                    let mut c = tr.calls.clone();
                    c.sort();
                    if c != b {
                        viol("translate-calls", format!("translator called on {:?}, keys are {:?}", tr.calls, keys));
                    }
                    bump(&mut cen, "translations_ok");
                }
                Ok(Err(_)) => viol("translate-identity-fails", "identity translation failed".into()),
                Err(e) => viol("translate-panic", e),
            }
            // injective renaming and composition
            let f1 = |s: &str| format!("{}x", s);
            let f2 = |s: &str| format!("{}y", s);
            let f12 = |s: &str| format!("{}xy", s);
            let mut t1 = StrTr { f: &f1, fail_on: None, calls: vec![] };
            let mut t2 = StrTr { f: &f2, fail_on: None, calls: vec![] };
            let mut t12 = StrTr { f: &f12, fail_on: None, calls: vec![] };
            if let (Ok(Ok(m1)), Ok(Ok(m12))) = (guard(|| ms.translate_pk(&mut t1)), guard(|| ms.translate_pk(&mut t12))) {
                let exp1 = prime_hashes(&t.map_keys(&mut |k| format!("{}x", k)));
                if walk(&m1) != exp1 {
                    viol("translate-rename-structure", format!("got {} expected {}", walk(&m1).sexpr(), exp1.sexpr()));
                }
                match guard(|| m1.translate_pk(&mut t2)) {
                    Ok(Ok(m2)) => {
                        if walk(&m2) != walk(&m12) {
                            viol("translate-composition", format!("t2(t1(x)) = {} but (t2 o t1)(x) = {}", walk(&m2).sexpr(), walk(&m12).sexpr()));
                        } else {
                            bump(&mut cen, "compositions_ok");
                        }
                    }
                    _ => viol("translate-composition-fails", "second translation failed".into()),
                }
            }
            // failing translator: fails iff the failing label occurs
            for l in b.iter().chain(std::iter::once(&"NOPE".to_string())) {
                let mut tf = StrTr { f: &idf, fail_on: Some(l.clone()), calls: vec![] };
                let r = guard(|| ms.translate_pk(&mut tf));
                let occurs = keys.contains(l);
                match r {
                    Ok(Ok(_)) if occurs => viol("translate-ignores-failure", format!("translator fails on {} but translation succeeds", l)),
                    Ok(Err(TranslateErr::TranslatorErr(e))) => {
                        if !occurs || e != format!("fail:{}", l) {
                            viol("translate-wrong-failure", format!("unexpected translator error {}", e));
                        } else {
                            bump(&mut cen, "failures_propagated");
                        }
                    }
                    Ok(Err(TranslateErr::OuterError(e))) => viol("translate-outer-error", format!("translator failure reported as outer error {}", e)),
                    Ok(Ok(_)) => {}
                    Err(e) => viol("translate-panic", e),
                }
            }
            // String -> concrete keys: structure and script
            let script_ref = encode_ref(&t.map_hashes(&mut |_, h| h.to_string()), &RefEnc { form });
            if tap {
                match guard(|| ms.translate_pk(&mut ToX)) {
                    Ok(Ok(m2)) => {
                        let direct = build::<XOnlyPublicKey, Tap>(t, &XEnv).ok();
                        if direct.as_ref().map(|d| walk(d)) != Some(walk(&m2)) {
                            viol("translate-concrete-structure", "translated object differs from the one built from the mapped keys".into());
                        }
                        if let Some(d) = direct {
                            if d.encode().as_bytes() != &script_ref[..] {
                                viol("translate-concrete-script", "script of translated object differs from reference encoding with mapped keys".into());
                            } else {
                                bump(&mut cen, "concrete_scripts_ok");
                            }
                        }
                    }
                    Ok(Err(_)) => viol("translate-concrete-fails", "translation to x-only keys failed".into()),
                    Err(e) => viol("translate-panic", e),
                }
            } else {
                match guard(|| ms.translate_pk(&mut ToPk { form })) {
                    Ok(Ok(m2)) => {
                        if m2.encode().as_bytes() != &script_ref[..] {
                            viol("translate-concrete-script", "script of translated object differs from reference encoding with mapped keys".into());
                        } else {
                            bump(&mut cen, "concrete_scripts_ok");
                        }
                        if m2.ty != ms.ty {
                            viol("translate-concrete-type", "type changed".into());
                        }
                        // ... and of the same text parsed over the target keys (the parser builds leaves through
                        // the leaf constructors, translation rebuilds them through the type checker)
                        if let Ok(parsed) = Miniscript::<bitcoin::PublicKey, Ctx>::from_str_with_validation_params(&m2.to_string(), &miniscript::ValidationParams::MAX) {
                            if parsed.ext != m2.ext || parsed.ty != m2.ty {
                                viol("translate-concrete-ext-vs-parse", format!("type / extra data of the translated object differ from the parsed one: {:?} vs {:?}", m2.ext, parsed.ext));
                            }
                        }
                        // another key type with the same serializations (definite descriptor keys over the same
                        // raw keys): same script, same figures - what a key costs is its encoding, not its Rust type
                        {
                            struct ToDefinite(KeyForm);
                            impl Translator<String> for ToDefinite {
                                type TargetPk = miniscript::DefiniteDescriptorKey;
                                type Error = String;
                                fn pk(&mut self, pk: &String) -> Result<Self::TargetPk, String> { Ok(crate::keys::DefEnv { form: self.0, with_origin: false }.pk(pk)) }
                                fn sha256(&mut self, h: &String) -> Result<sha256::Hash, String> { Ok(bitcoin::hashes::Hash::from_slice(&hash_bytes('s', h)).unwrap()) }
                                fn hash256(&mut self, h: &String) -> Result<miniscript::hash256::Hash, String> { Ok(bitcoin::hashes::Hash::from_slice(&hash_bytes('d', h)).unwrap()) }
                                fn ripemd160(&mut self, h: &String) -> Result<ripemd160::Hash, String> { Ok(bitcoin::hashes::Hash::from_slice(&hash_bytes('r', h)).unwrap()) }
                                fn hash160(&mut self, h: &String) -> Result<hash160::Hash, String> { Ok(bitcoin::hashes::Hash::from_slice(&hash_bytes('h', h)).unwrap()) }
                            }
                            match guard(|| ms.translate_pk(&mut ToDefinite(form))) {
                                Ok(Ok(m3)) => {
                                    bump(&mut cen, "definite_key_translations");
                                    if m3.encode().as_bytes() != &script_ref[..] {
                                        viol("translate-definite-script", "script over definite descriptor keys differs from the reference encoding".into());
                                    }
                                    if m3.ext != m2.ext || m3.ty != m2.ty {
                                        viol("translate-definite-ext", format!("static figures over definite descriptor keys differ from those over the same raw keys: {:?} vs {:?}", m3.ext, m2.ext));
                                    }
                                }
                                Ok(Err(e)) => viol("translate-definite-fails", format!("translation to definite descriptor keys failed although raw keys of the same form are accepted: {:?}", e)),
                                Err(e) => viol("translate-panic", e),
                            }
                        }
                        // the translated object carries exactly the figures of the same term built directly over the target keys
                        if let Ok(direct) = build::<bitcoin::PublicKey, Ctx>(t, &PkEnv { form }) {
                            if direct.ext != m2.ext || direct.ty != m2.ty {
                                viol("translate-concrete-ext", format!("type / extra data of the translated object differ from the directly built one: {:?} vs {:?}", m2.ext, direct.ext));
                            }
                        }
                    }
                    Ok(Err(TranslateErr::OuterError(_)))
                        if build::<bitcoin::PublicKey, Ctx>(t, &PkEnv { form }).is_err() =>
                    {
                        // the structure with the mapped keys is itself illegal in the context
                        // (e.g. 8 uncompressed keys exceed the 520-byte P2SH limit)
                        bump(&mut cen, "translation_and_direct_build_both_refused");
                    }
                    Ok(Err(_)) => viol("translate-concrete-fails", "translation to concrete keys failed".into()),
                    Err(e) => viol("translate-panic", e),
                }
                // context-illegal keys: uncompressed into Segwitv0 must be an OuterError when a key is reached
                if ctx == "segwitv0" {
                    let has_direct_key = t.nodes().iter().any(|x| matches!(x, T::PkK(_) | T::Multi(..) | T::SortedMulti(..)));
                    match guard(|| ms.translate_pk(&mut ToPk { form: KeyForm::Uncompressed })) {
                        Ok(Ok(_)) if has_direct_key => viol("translate-illegal-key-accepted", "uncompressed keys translated into a Segwitv0 miniscript".into()),
                        Ok(Err(TranslateErr::TranslatorErr(_))) => viol("translate-illegal-key-wrong-kind", "reported as translator error".into()),
                        Ok(Err(TranslateErr::OuterError(_))) => bump(&mut cen, "illegal_keys_rejected"),
                        _ => {}
                    }
                }
            }
            // exactly one key mapped to an uncompressed key (contexts that forbid them): refused as an
            // outer error iff that key is pushed as a key somewhere (pk_k, multi, multi_a), whatever its position
            if ctx == "segwitv0" || ctx == "tap" {
                for l in b.iter() {
                    let direct = t.nodes().iter().any(|x| match x {
                        T::PkK(k) => k == l,
                        T::Multi(_, ks) | T::SortedMulti(_, ks) | T::MultiA(_, ks) | T::SortedMultiA(_, ks) => ks.contains(l),
                        _ => false,
                    });
                    let r = guard(|| ms.translate_pk(&mut OneUncompressed { label: l.clone() }));
                    match r {
                        Ok(Ok(_)) if direct => viol("translate-one-illegal-key-accepted", format!("key {} mapped to an uncompressed key is accepted in {}", l, ctx)),
                        Ok(Err(TranslateErr::OuterError(_))) if direct => bump(&mut cen, "illegal_keys_rejected"),
                        Ok(Err(TranslateErr::TranslatorErr(e))) => viol("translate-illegal-key-wrong-kind", e),
                        Err(e) => viol("translate-panic", e),
                        _ => {}
                    }
                }
            }
            cen
        })
        .reduce(Census::new, |mut a, b| {
            for (k, v) in b {
                *a.entry(k).or_insert(0) += v;
            }
            a
        });
    (cen, te.count() as u64, te.attempted)
}

/// Translation into BIP389 multipath keys: the mapped keys of one script are legal together only if
/// their path tuples have one length; every wrapper refuses the translation otherwise (and accepts it
/// when they agree).
fn multipath_translation(rep: &Report, cen: &mut Census) {
    use miniscript::DescriptorPublicKey as Dpk;
    use std::str::FromStr;
    let secp = bitcoin::secp256k1::Secp256k1::new();
    let xpubs: Vec<String> = (0..4u8)
        .map(|i| {
            let m = bitcoin::bip32::Xpriv::new_master(bitcoin::Network::Bitcoin, &[60 + i; 32]).unwrap();
            bitcoin::bip32::Xpub::from_priv(&secp, &m).to_string()
        })
        .collect();
    struct ToMp<'a> {
        xpubs: &'a [String],
        lens: [usize; 4],
    }
    impl<'a> Translator<String> for ToMp<'a> {
        type TargetPk = miniscript::DescriptorPublicKey;
        type Error = String;
        fn pk(&mut self, pk: &String) -> Result<Self::TargetPk, String> {
            let i: usize = pk.trim_start_matches('K').parse::<usize>().map_err(|e| e.to_string())? % 4;
            let step = match self.lens[i] {
                1 => "/0/*".to_string(),
                n => format!("/<{}>/*", (0..n).map(|j| j.to_string()).collect::<Vec<_>>().join(";")),
            };
            Dpk::from_str(&format!("{}{}", self.xpubs[i], step)).map_err(|e| e.to_string())
        }
        fn sha256(&mut self, h: &String) -> Result<sha256::Hash, String> { Ok(bitcoin::hashes::Hash::from_slice(&hash_bytes('s', h)).unwrap()) }
        fn hash256(&mut self, h: &String) -> Result<miniscript::hash256::Hash, String> { Ok(bitcoin::hashes::Hash::from_slice(&hash_bytes('d', h)).unwrap()) }
        fn ripemd160(&mut self, h: &String) -> Result<ripemd160::Hash, String> { Ok(bitcoin::hashes::Hash::from_slice(&hash_bytes('r', h)).unwrap()) }
        fn hash160(&mut self, h: &String) -> Result<hash160::Hash, String> { Ok(bitcoin::hashes::Hash::from_slice(&hash_bytes('h', h)).unwrap()) }
    }
    let ks = |v: &[usize]| -> Vec<String> { v.iter().map(|i| format!("K{}", i)).collect() };
    let pk = |i: usize| T::Check(Box::new(T::PkK(format!("K{}", i))));
    // (descriptor, key indices of each single script)
    let models: Vec<(D, Vec<Vec<usize>>)> = vec![
        (D::Wsh(T::Multi(2, ks(&[1, 2, 3]))), vec![vec![1, 2, 3]]),
        (D::ShWsh(T::SortedMulti(2, ks(&[1, 2, 3]))), vec![vec![1, 2, 3]]),
        (D::Sh(T::Multi(1, ks(&[1, 2, 3]))), vec![vec![1, 2, 3]]),
        (D::Bare(T::Multi(1, ks(&[1, 2, 3]))), vec![vec![1, 2, 3]]),
        (D::Wsh(T::AndV(Box::new(T::Verify(Box::new(pk(1)))), Box::new(T::OrD(Box::new(pk(2)), Box::new(pk(3)))))), vec![vec![1, 2, 3]]),
        (D::Tr("K0".into(), vec![(0, T::MultiA(2, ks(&[1, 2, 3])))]), vec![vec![1, 2, 3]]),
        (D::Tr("K0".into(), vec![(1, pk(1)), (1, T::AndV(Box::new(T::Verify(Box::new(pk(2)))), Box::new(pk(3))))]), vec![vec![1], vec![2, 3]]),
    ];
    for (d, scripts) in &models {
        let real = match build_desc::<String>(d, &StrEnv) {
            Ok(r) => r,
            Err(_) => continue,
        };
        for code in 0..81usize {
            // lengths 1..3 for keys 0..3
            let lens = [1 + code % 3, 1 + (code / 3) % 3, 1 + (code / 9) % 3, 1 + (code / 27) % 3];
            let mismatch = scripts.iter().any(|pos| {
                let ls: std::collections::BTreeSet<usize> = pos.iter().map(|i| lens[*i % 4]).filter(|l| *l > 1).collect();
                ls.len() > 1
            });
            bump(cen, "multipath_translations");
            let r = guard(|| real.translate_pk(&mut ToMp { xpubs: &xpubs, lens }));
            let bad = match (&r, mismatch) {
                (Ok(Ok(_)), true) => Some("accepted although one script mixes path tuples of different lengths".to_string()),
                (Ok(Err(e)), false) => Some(format!("refused although every script's path tuples agree: {:?}", e)),
                (Err(p), _) => Some(format!("panicked: {}", p)),
                _ => None,
            };
            if let Some(b) = bad {
                rep.violation(Violation {
                    key: format!("C20|multipath-translation|{}|{:?}", d.sexpr(), lens),
                    class: "translate-into-multipath-keys".into(),
                    what: format!("translation of {} into keys with path-tuple lengths {:?} is {}", real, lens, b),
                    case: json!({"model": d.sexpr(), "lengths": format!("{:?}", lens)}),
                });
            }
        }
    }
}

fn desc_and_policy_checks(rep: &Report, cen: &mut Census) {
    multipath_translation(rep, cen);
    // descriptors: family of C19 (all wrappings, tap trees)
    for d in crate::c19b::desc_family() {
        let real = match build_desc::<String>(&d, &StrEnv) {
            Ok(r) => r,
            Err(_) => continue,
        };
        bump(cen, "descriptors");
        let dsx = d.sexpr();
        let mut viol = |class: &str, what: String| {
            rep.violation(Violation {
                key: format!("C20|desc-{}|{}", class, dsx),
                class: format!("descriptor-{}", class),
                what,
                case: json!({"model": dsx, "descriptor": real.to_string()}),
            });
        };
        let keys = d.keys();
        match guard(|| real.iter_pk().collect::<Vec<String>>()) {
            Ok(v) => {
                let mut a = v.clone();
                a.sort();
                let mut b = keys.clone();
                b.sort();
                if a != b {
                    viol("iter_pk", format!("iter_pk yields {:?} keys are {:?}", v, keys));
                } else {
                    bump(cen, "iter_pk_ok");
                }
            }
            Err(e) => viol("iter_pk-panic", e),
        }
        let mut seen = vec![];
        real.for_each_key(|k| {
            seen.push(k.clone());
            true
        });
        seen.sort();
        let mut b = keys.clone();
        b.sort();
        if seen != b {
            viol("for_each_key", format!("visits {:?} expected {:?}", seen, b));
        }
        let f1 = |s: &str| format!("{}x", s);
        let mut t1 = StrTr { f: &f1, fail_on: None, calls: vec![] };
        match guard(|| real.translate_pk(&mut t1)) {
            Ok(Ok(d2)) => {
                let exp = {
                    let m = d.map_keys(&mut |k| format!("{}x", k));
                    match m {
                        D::Bare(t) => D::Bare(prime_hashes(&t)),
                        D::Sh(t) => D::Sh(prime_hashes(&t)),
                        D::Wsh(t) => D::Wsh(prime_hashes(&t)),
                        D::ShWsh(t) => D::ShWsh(prime_hashes(&t)),
                        D::Tr(k, l) => D::Tr(k, l.iter().map(|(dp, t)| (*dp, prime_hashes(t))).collect()),
                        o => o,
                    }
                };
                if walk_desc(&d2) != exp {
                    viol("translate-structure", format!("got {} expected {}", walk_desc(&d2).sexpr(), exp.sexpr()));
                } else {
                    bump(cen, "translations_ok");
                }
            }
            Ok(Err(_)) => viol("translate-fails", "renaming translation failed".into()),
            Err(e) => viol("translate-panic", e),
        }
        for l in b.iter() {
            let idf = |s: &str| s.to_string();
            let mut tf = StrTr { f: &idf, fail_on: Some(l.clone()), calls: vec![] };
            match guard(|| real.translate_pk(&mut tf)) {
                Ok(Err(TranslateErr::TranslatorErr(_))) => bump(cen, "failures_propagated"),
                Ok(Ok(_)) => viol("translate-ignores-failure", format!("translator fails on {} but translation succeeds", l)),
                Ok(Err(TranslateErr::OuterError(e))) => viol("translate-outer-error", e.to_string()),
                Err(e) => viol("translate-panic", e),
            }
        }
        // x-only keys into non-taproot descriptors must be rejected as outer error
        if !matches!(d, D::Tr(..)) {
            struct ToDef(KeyForm);
            impl Translator<String> for ToDef {
                type TargetPk = miniscript::DefiniteDescriptorKey;
                type Error = String;
                fn pk(&mut self, pk: &String) -> Result<Self::TargetPk, String> {
                    Ok(crate::keys::DefEnv { form: self.0, with_origin: false }.pk(pk))
                }
                fn sha256(&mut self, h: &String) -> Result<sha256::Hash, String> { Ok(sha256::Hash::from_slice_delegated(&hash_bytes('s', h))) }
                fn hash256(&mut self, h: &String) -> Result<miniscript::hash256::Hash, String> {
                    use bitcoin::hashes::Hash;
                    Ok(miniscript::hash256::Hash::from_slice(&hash_bytes('d', h)).unwrap())
                }
                fn ripemd160(&mut self, h: &String) -> Result<ripemd160::Hash, String> {
                    use bitcoin::hashes::Hash;
                    Ok(ripemd160::Hash::from_slice(&hash_bytes('r', h)).unwrap())
                }
                fn hash160(&mut self, h: &String) -> Result<hash160::Hash, String> {
                    use bitcoin::hashes::Hash;
                    Ok(hash160::Hash::from_slice(&hash_bytes('h', h)).unwrap())
                }
            }
            trait FromSliceDelegated {
                fn from_slice_delegated(b: &[u8]) -> Self;
            }
            impl FromSliceDelegated for sha256::Hash {
                fn from_slice_delegated(b: &[u8]) -> Self {
                    use bitcoin::hashes::Hash;
                    sha256::Hash::from_slice(b).unwrap()
                }
            }
            let has_direct_key = match &d {
                D::Pkh(_) | D::Wpkh(_) | D::ShWpkh(_) => true,
                o => o.scripts().iter().any(|t| t.nodes().iter().any(|x| matches!(x, T::PkK(_) | T::Multi(..) | T::SortedMulti(..)))),
            };
            match guard(|| real.translate_pk(&mut ToDef(KeyForm::XOnly))) {
                Ok(Ok(_)) if has_direct_key => viol("translate-illegal-key-accepted", "x-only keys translated into a non-taproot descriptor".into()),
                Ok(Err(TranslateErr::OuterError(_))) => bump(cen, "illegal_keys_rejected"),
                Ok(Err(TranslateErr::TranslatorErr(e))) => viol("translate-illegal-key-wrong-kind", e),
                _ => {}
            }
        }
    }
    // policies
    let atoms = [P::Key("A".into()), P::Key("B".into()), P::After(10), P::Sha256("H".into())];
    let mut pols: Vec<P> = vec![];
    for a in &atoms {
        for b in &atoms {
            pols.push(P::And(vec![a.clone(), b.clone()]));
            pols.push(P::Or(vec![(1, a.clone()), (3, b.clone())]));
            pols.push(P::Thresh(2, vec![a.clone(), b.clone(), P::Key("C".into())]));
            pols.push(P::And(vec![a.clone(), P::Or(vec![(1, b.clone()), (1, P::Key("A".into()))])]));
        }
    }
    for p in &pols {
        bump(cen, "policies");
        let real: Concrete<String> = p.to_concrete();
        let keys = p.keys();
        let got: Vec<String> = real.keys().into_iter().cloned().collect();
        let mut viol = |class: &str, what: String| {
            rep.violation(Violation {
                key: format!("C20|policy-{}|{}", class, p.sexpr()),
                class: format!("policy-{}", class),
                what,
                case: json!({"model": p.sexpr()}),
            });
        };
        if got != keys {
            viol("keys", format!("Concrete::keys {:?} expected {:?}", got, keys));
        }
        let mut seen = vec![];
        real.for_each_key(|k| {
            seen.push(k.clone());
            true
        });
        if seen != keys {
            viol("for_each_key", format!("{:?} vs {:?}", seen, keys));
        }
        let f1 = |s: &str| format!("{}x", s);
        let mut t1 = StrTr { f: &f1, fail_on: None, calls: vec![] };
        match guard(|| real.translate_pk(&mut t1)) {
            Ok(Ok(q)) => {
                let exp = map_p(p, &|k| format!("{}x", k));
                if walk_concrete(&q) != exp {
                    viol("translate-structure", format!("got {}", walk_concrete(&q).sexpr()));
                } else {
                    bump(cen, "translations_ok");
                }
            }
            _ => viol("translate-fails", "translation failed".into()),
        }
        if let Ok(sem) = guard(|| {
            use miniscript::policy::Liftable;
            real.lift()
        }) {
            if let Ok(sem) = sem {
                let mut t1 = StrTr { f: &f1, fail_on: None, calls: vec![] };
                if let Ok(Ok(q)) = guard(|| sem.translate_pk(&mut t1)) {
                    let exp = map_p(&walk_semantic(&sem), &|k| format!("{}x", k));
                    if walk_semantic(&q) != exp {
                        viol("semantic-translate-structure", format!("got {}", walk_semantic(&q).sexpr()));
                    } else {
                        bump(cen, "translations_ok");
                    }
                }
                let mut seen = vec![];
                sem.for_each_key(|k| {
                    seen.push(k.clone());
                    true
                });
                let mut a = seen.clone();
                a.sort();
                let mut b = walk_semantic(&sem).keys();
                b.sort();
                if a != b {
                    viol("semantic-for_each_key", format!("{:?} vs {:?}", a, b));
                }
                let _ = Semantic::<String>::Trivial;
            }
        }
    }
}

fn map_p(p: &P, f: &dyn Fn(&str) -> String) -> P {
    let h = |s: &String| format!("{}'", s).replace("''", "'");
    match p {
        P::Key(k) => P::Key(f(k)),
        P::Sha256(x) => P::Sha256(h(x)),
        P::Hash256(x) => P::Hash256(h(x)),
        P::Ripemd160(x) => P::Ripemd160(h(x)),
        P::Hash160(x) => P::Hash160(h(x)),
        P::And(v) => P::And(v.iter().map(|c| map_p(c, f)).collect()),
        P::Or(v) => P::Or(v.iter().map(|(w, c)| (*w, map_p(c, f))).collect()),
        P::Thresh(k, v) => P::Thresh(*k, v.iter().map(|c| map_p(c, f)).collect()),
        o => o.clone(),
    }
}

/// substitute_raw_pkh over concrete keys: a script decoded from bytes (key hashes only) with every
/// key substituted back is the object built directly over those keys - same structure, same type,
/// same static figures. (The PSBT finalizer builds its miniscripts this way.)
fn substitute_concrete<Ctx: Cx>(rep: &Report, ctx: &'static str, n: usize, forms: &[KeyForm]) -> Census
where
    Ctx: miniscript::ScriptContext<Key = bitcoin::PublicKey>,
{
    use crate::keys::PkEnv;
    use miniscript::ForEachKey;
    let mut cen = Census::new();
    let te = explore::<Ctx>(n, Alphabet::Small, false);
    for m in te.all() {
        let t = walk(m).relabel_distinct();
        if !t.nodes().iter().any(|x| matches!(x, T::PkH(_))) {
            continue;
        }
        for &form in forms {
            let a = match build::<bitcoin::PublicKey, Ctx>(&t, &PkEnv { form }) {
                Ok(a) => a,
                Err(_) => continue,
            };
            let raw = match Miniscript::<bitcoin::PublicKey, Ctx>::decode_consensus(&a.encode()) {
                Ok(r) => r,
                Err(_) => continue,
            };
            let mut map = std::collections::BTreeMap::new();
            a.for_each_key(|k| {
                map.insert(k.to_pubkeyhash(miniscript::SigType::Ecdsa), *k);
                true
            });
            let back = raw.substitute_raw_pkh(&map);
            bump(&mut cen, "substitute_concrete");
            let mut bad = vec![];
            if walk(&back) != walk(&a) {
                // sortedmulti decodes as multi: not this check's business
                bump(&mut cen, "substitute_concrete_other_structure");
                continue;
            }
            if back.ty != a.ty {
                bad.push(format!("type {:?} vs {:?}", back.ty, a.ty));
            }
            if back.ext != a.ext {
                bad.push(format!("static figures differ: max_satisfaction_size {:?} vs {:?}", back.max_satisfaction_size().ok(), a.max_satisfaction_size().ok()));
            }
            if !bad.is_empty() {
                rep.violation(Violation {
                    key: format!("C20|substitute-concrete|{}|{:?}|{}", ctx, form, t.sexpr()),
                    class: format!("substitute_raw_pkh-stale-figures-{}", ctx),
                    what: format!("decode + substitute_raw_pkh of {} differs from the directly built object: {}", a, bad.join("; ")),
                    case: json!({"ctx": ctx, "key_form": format!("{:?}", form), "miniscript": a.to_string(), "script": hex(a.encode().as_bytes())}),
                });
            }
        }
    }
    cen
}

pub fn run(tier: Tier) -> i32 {
    let rep = Report::new("C20", tier);
    {
        let n = tier.pick(4, 5);
        let c = substitute_concrete::<Segwitv0>(&rep, "segwitv0", n, &[KeyForm::Compressed]);
        rep.merge_counts(&c);
        let c = substitute_concrete::<Legacy>(&rep, "legacy", n, &[KeyForm::Compressed, KeyForm::Uncompressed, KeyForm::Mixed]);
        rep.merge_counts(&c);
        let c = substitute_concrete::<BareCtx>(&rep, "bare", n, &[KeyForm::Compressed, KeyForm::Uncompressed]);
        rep.merge_counts(&c);
    }
    let n = tier.pick(6, 7);
    rep.extra("bounds", json!({"nodes": n}));
    let mut states = 0;
    let mut transitions = 0;
    for (cen, s, t) in [
        ms_checks::<Segwitv0>(&rep, "segwitv0", n, false, KeyForm::Compressed),
        ms_checks::<Tap>(&rep, "tap", n, true, KeyForm::XOnly),
        ms_checks::<Legacy>(&rep, "legacy", n, false, KeyForm::Uncompressed),
        ms_checks::<BareCtx>(&rep, "bare", n - 1, false, KeyForm::Compressed),
    ] {
        rep.merge_counts(&cen);
        states += s;
        transitions += t;
    }
    let mut cen = Census::new();
    desc_and_policy_checks(&rep, &mut cen);
    rep.merge_counts(&cen);
    rep.sample(json!({"translators": ["identity", "injective renaming k -> kx", "composition kx -> kxy vs k -> kxy", "fails on label L (for every label L and an absent label)", "String -> concrete keys of the context (script compared with the reference encoder)", "context-illegal keys (uncompressed into Segwitv0, x-only into non-taproot descriptors)"]}));
    rep.assume("key call order of translators is logged but not constrained");
    let ok = rep.get("translations_ok") + rep.get("compositions_ok") + rep.get("failures_propagated") + rep.get("concrete_scripts_ok") + rep.get("iter_pk_ok");
    rep.finish(
        states,
        transitions,
        ok,
        rep.get("miniscripts") + rep.get("descriptors") + rep.get("policies"),
        rep.get("failures_propagated").min(rep.get("concrete_scripts_ok")),
        "every well-typed term up to the node bound (4 contexts) + descriptor family (all wrappings, tap trees) + policies x translators {identity, renaming, composition, failing on each label, String->concrete, context-illegal keys}: structure preserved with keys substituted, identity keeps type/ext, composition commutes, script equals reference encoding with mapped keys, failure iff the translator failed on an occurring key (TranslatorErr) or the mapped key is illegal (OuterError); iter_pk / for_each_key / for_any_key / Concrete::keys visit exactly the keys of the string form; clone() and substitute_raw_pkh (empty, full and single-key maps) rebuild exactly the expected structure; all of it also on two nested context levels around every fragment of up to three nodes. non-trivial = min(failing translations propagated, concrete scripts compared)",
        true,
    )
}

//! C15 — taproot outputs commit to exactly the described script tree.

use std::collections::BTreeMap;
use std::str::FromStr;

use bitcoin::secp256k1::XOnlyPublicKey;
use bitcoin::Network;
use miniscript::descriptor::{TapTree, Tr};
use miniscript::{Descriptor, Miniscript, Tap};
use rayon::prelude::*;
use serde_json::json;

use crate::ast::{build, walk, StrEnv, T};
use crate::c20::ToX;
use crate::common::*;
use crate::desc::{build_desc, build_taptree, walk_desc, Shape, D};
use crate::keys::{key, XEnv};
use crate::rsm::{tapbranch_hash, tapleaf_hash, taproot_tweak};
use crate::sat::ref_control_block;
use crate::world::{ref_merkle_root, ref_taproot_output};

type Census = BTreeMap<&'static str, u64>;
fn bump(c: &mut Census, k: &'static str) { *c.entry(k).or_insert(0) += 1; }

fn tree_leaves(d: &D) -> usize {
    match d {
        D::Tr(_, l) => l.len(),
        _ => 0,
    }
}

fn leaf_pool() -> Vec<T> {
    let pk = |k: &str| T::Check(Box::new(T::PkK(k.into())));
    vec![
        pk("K1"),
        pk("K2"),
        T::Check(Box::new(T::PkH("K3".into()))),
        T::AndV(Box::new(T::Verify(Box::new(pk("K4")))), Box::new(T::Older(5))),
        T::MultiA(2, vec!["K5".into(), "K6".into(), "K7".into()]),
        T::AndV(Box::new(T::Verify(Box::new(pk("K8")))), Box::new(T::Sha256("H1".into()))),
        T::OrD(Box::new(pk("K9")), Box::new(T::AndV(Box::new(T::Verify(Box::new(pk("K10")))), Box::new(T::After(10))))),
        // two keys whose x-only order differs from the order of their 33-byte serializations
        {
            let pool: Vec<String> = (14..60).map(|i| format!("K{}", i)).collect();
            let mut pick = ("K11".to_string(), "K12".to_string());
            'outer: for a in &pool {
                for b in &pool {
                    let (ka, kb) = (key(a), key(b));
                    if ka.x32() < kb.x32() && ka.compressed() > kb.compressed() {
                        pick = (b.clone(), a.clone());
                        break 'outer;
                    }
                }
            }
            T::SortedMultiA(1, vec![pick.0, pick.1])
        },
        pk("K13"),
        // the other hash kinds (digests that are not byte palindromes)
        T::AndV(Box::new(T::Verify(Box::new(pk("K61")))), Box::new(T::Hash256("H2".into()))),
        T::AndV(Box::new(T::Verify(Box::new(pk("K62")))), Box::new(T::AndV(Box::new(T::Verify(Box::new(T::Ripemd160("H3".into())))), Box::new(T::Hash160("H4".into()))))),
    ]
}

fn chain(depth: usize, left: bool, zigzag: bool) -> Shape { chain_over(Shape::Leaf, depth, left, zigzag) }

/// a chain with `depth` internal nodes above `bottom`
fn chain_over(bottom: Shape, depth: usize, left: bool, zigzag: bool) -> Shape {
    let mut s = bottom;
    for i in 0..depth {
        let l = if zigzag { i % 2 == 0 } else { left };
        s = if l { Shape::Node(Box::new(s), Box::new(Shape::Leaf)) } else { Shape::Node(Box::new(Shape::Leaf), Box::new(s)) };
    }
    s
}

fn check_tree(rep: &Report, cen: &mut Census, ik: &str, shape: &Shape, leaves_t: &[T], tag: &str) {
    let depths = shape.depths();
    let model: Vec<(u8, T)> = depths.iter().zip(leaves_t.iter()).map(|(d, t)| (*d, t.clone())).collect();
    let d = D::Tr(ik.into(), model.clone());
    let key_id = format!("{}|{}|{:?}", tag, ik, depths);
    let mut viol = |class: &str, what: String| {
        rep.violation(Violation {
            key: format!("C15|{}|{}", class, key_id),
            class: format!("{}-{}", class, tag),
            what,
            case: json!({"internal_key": ik, "depths": depths, "n_leaves": depths.len()}),
        });
    };
    bump(cen, "trees");
    // build 1: leaf/combine with concrete keys
    let b1 = match guard(|| build_desc::<XOnlyPublicKey>(&d, &XEnv)) {
        Ok(Ok(x)) => x,
        Ok(Err(e)) => {
            viol("constructor-refuses", e);
            return;
        }
        Err(p) => {
            viol("constructor-panics", p);
            return;
        }
    };
    // build 2: parse the reference string over String keys, then translate
    let s = d.print();
    let b2 = match guard(|| Descriptor::<String>::from_str(&s)) {
        Ok(Ok(x)) => x,
        Ok(Err(e)) => {
            viol("parser-refuses", format!("'{}': {}", if s.len() > 200 { &s[..200] } else { &s }, e));
            return;
        }
        Err(p) => {
            viol("parser-panics", p);
            return;
        }
    };
    if walk_desc(&b2) != d {
        viol("parse-shape", "parsed tree differs from the described one".into());
    }
    let b3 = match guard(|| b2.translate_pk(&mut ToX)) {
        Ok(Ok(x)) => x,
        _ => {
            viol("translate-fails", "String -> x-only translation failed".into());
            return;
        }
    };
    // build 4: the same tree over full (33-byte, parity-carrying) keys commits to the same output:
    // taproot scripts only ever see the x coordinate
    match guard(|| build_desc::<bitcoin::PublicKey>(&d, &crate::keys::PkEnv { form: crate::keys::KeyForm::Compressed })) {
        Ok(Ok(b4)) => {
            if b4.script_pubkey() != b1.script_pubkey() {
                viol("full-key-build-differs", format!("built over 33-byte keys the output is {} but over x-only keys {}", b4.script_pubkey(), b1.script_pubkey()));
            } else {
                bump(cen, "full_key_builds_equal");
            }
        }
        Ok(Err(e)) => viol("full-key-build-refused", e),
        Err(p) => viol("full-key-build-panics", p),
    }
    // build 5: the printed concrete descriptor through both descriptor parsers (the one that accepts
    // secret keys translates keys and hashes itself) commits to the same output
    if tree_leaves(&d) <= 16 {
        if let Ok(Ok(b4)) = guard(|| build_desc::<bitcoin::PublicKey>(&d, &crate::keys::PkEnv { form: crate::keys::KeyForm::Compressed })) {
            let text = b4.to_string();
            let secp = bitcoin::secp256k1::Secp256k1::new();
            let via_from_str = guard(|| Descriptor::<miniscript::DescriptorPublicKey>::from_str(&text).map_err(|e| e.to_string()));
            let via_parse = guard(|| Descriptor::<miniscript::DescriptorPublicKey>::parse_descriptor(&secp, &text).map(|x| x.0).map_err(|e| e.to_string()));
            for (name, r) in [("from_str", via_from_str), ("parse_descriptor", via_parse)] {
                match r {
                    Ok(Ok(x)) => match guard(|| x.at_derivation_index(0).map(|y| y.script_pubkey())) {
                        Ok(Ok(spk)) => {
                            if spk != b1.script_pubkey() {
                                viol("parsed-concrete-build-differs", format!("{} of the printed descriptor commits to {} instead of {}", name, spk, b1.script_pubkey()));
                            } else {
                                bump(cen, "parsed_concrete_builds_equal");
                            }
                        }
                        _ => viol("parsed-concrete-build-fails", format!("{}: no output script", name)),
                    },
                    Ok(Err(e)) => viol("parsed-concrete-build-refused", format!("{} refuses the printed descriptor: {}", name, e)),
                    Err(p) => viol("parsed-concrete-build-panics", p),
                }
            }
        }
    }
    // Display -> FromStr
    match guard(|| Descriptor::<String>::from_str(&b2.to_string())) {
        Ok(Ok(x)) => {
            if walk_desc(&x) != d {
                viol("display-roundtrip-shape", "Display -> FromStr changed the tree".into());
            }
        }
        _ => viol("display-roundtrip-fails", "Display -> FromStr failed".into()),
    }
    // reference values
    let mut ix = [0u8; 32];
    ix.copy_from_slice(&key(ik).x32());
    let ref_leaves: Vec<(u8, Vec<u8>)> = model
        .iter()
        .map(|(dp, t)| (*dp, crate::ast::encode_ref(t, &crate::keys::RefEnc { form: crate::keys::KeyForm::XOnly })))
        .collect();
    let root = ref_merkle_root(&ref_leaves);
    let (outkey, parity) = ref_taproot_output(&ix, root);
    let mut spk_ref = vec![0x51, 0x20];
    spk_ref.extend_from_slice(&outkey);
    for (bi, b) in [(1, &b1), (3, &b3)] {
        let tr: &Tr<XOnlyPublicKey> = match b {
            Descriptor::Tr(t) => t,
            _ => unreachable!(),
        };
        let r = guard(|| {
            let si = tr.spend_info();
            let leaves: Vec<(u8, Vec<u8>, Vec<u8>, Vec<u8>)> = si
                .leaves()
                .map(|l| (l.depth(), l.script().as_bytes().to_vec(), l.control_block().serialize(), { use bitcoin::hashes::Hash; l.leaf_hash().to_byte_array().to_vec() }))
                .collect();
            let tl: Vec<(u8, Vec<u8>)> = tr.leaves().map(|l| (l.depth(), l.miniscript().encode().into_bytes())).collect();
            // the item accessors agree with each other (script / hash / version / owned control block)
            let mut accessor_mismatch: Option<String> = None;
            for (a, b) in si.leaves().zip(tr.leaves()) {
                use bitcoin::hashes::Hash;
                if a.miniscript().encode() != *a.script() || a.miniscript() != b.miniscript() {
                    accessor_mismatch = Some("spend-info leaf miniscript() / script() / tree leaf disagree".into());
                }
                if b.compute_script() != *a.script() || b.compute_tap_leaf_hash() != a.leaf_hash() {
                    accessor_mismatch = Some("TapTree leaf compute_script / compute_tap_leaf_hash differ from the spend info".into());
                }
                if a.leaf_hash().to_byte_array() != crate::rsm::tapleaf_hash(0xc0, a.script().as_bytes()) {
                    accessor_mismatch = Some("leaf_hash() is not the BIP341 leaf hash of script()".into());
                }
                if a.leaf_version() != b.leaf_version() || a.leaf_version() != bitcoin::taproot::LeafVersion::TapScript {
                    accessor_mismatch = Some("leaf_version differs".into());
                }
                let cb = a.control_block().clone();
                if a.into_control_block() != cb {
                    accessor_mismatch = Some("into_control_block differs from control_block()".into());
                }
            }
            if si.leaves().count() != tr.leaves().count() {
                accessor_mismatch = Some("spend-info leaves and tree leaves differ in number".into());
            }
            if let Some(m) = accessor_mismatch {
                panic!("ACCESSOR: {}", m);
            }
            (
                si.merkle_root().map(|h| { use bitcoin::hashes::Hash; h.to_byte_array().to_vec() }),
                si.output_key().serialize().to_vec(),
                si.output_key_parity() == bitcoin::secp256k1::Parity::Odd,
                si.internal_key().serialize().to_vec(),
                leaves,
                tl,
                tr.script_pubkey().into_bytes(),
                tr.address(Network::Bitcoin).script_pubkey().into_bytes(),
                si.to_tap_tree().map(|t| t.script_leaves().map(|l| (l.merkle_branch().len() as u8, l.script().as_bytes().to_vec())).collect::<Vec<_>>()),
            )
        });
        let (mr, ok, par, ikb, leaves, tl, spk, addr_spk, btt) = match r {
            Ok(x) => x,
            Err(p) => {
                viol("spend_info-panics", p);
                return;
            }
        };
        if mr != root.map(|r| r.to_vec()) {
            viol("merkle-root", format!("build {}: merkle root differs from BIP341 reference", bi));
        }
        if ok != outkey.to_vec() || par != (parity == 1) {
            viol("output-key", format!("build {}: output key / parity differ from reference", bi));
        }
        if ikb != ix.to_vec() {
            viol("internal-key", format!("build {}", bi));
        }
        if spk != spk_ref || addr_spk != spk_ref {
            viol("script-pubkey", format!("build {}: scriptPubKey / address do not encode the reference output key", bi));
        }
        let seq: Vec<(u8, Vec<u8>)> = leaves.iter().map(|l| (l.0, l.1.clone())).collect();
        if seq != ref_leaves {
            viol("leaf-sequence", format!("build {}: spend_info().leaves() (depth, script) sequence differs from the described tree", bi));
        }
        if tl != ref_leaves {
            viol("tr-leaves", format!("build {}: Tr::leaves() sequence differs from the described tree", bi));
        }
        if let Some(b) = btt {
            let mut a = b.clone();
            a.sort();
            let mut c = ref_leaves.clone();
            c.sort();
            if a != c {
                viol("to_tap_tree", format!("build {}: bitcoin::taproot::TapTree has different (depth, script) leaves", bi));
            }
        } else if !ref_leaves.is_empty() {
            viol("to_tap_tree-none", format!("build {}", bi));
        }
        for (i, l) in leaves.iter().enumerate() {
            bump(cen, "control_blocks");
            let cb_ref = ref_control_block(&ref_leaves, i, &ix);
            if l.2 != cb_ref {
                viol("control-block", format!("build {}: control block of leaf {} differs from reference", bi, i));
            }
            if l.3 != tapleaf_hash(0xc0, &l.1).to_vec() {
                viol("leaf-hash", format!("build {}: leaf hash of leaf {}", bi, i));
            }
            // independent verification of the library's control block against the spk
            let cb = &l.2;
            let mut k = tapleaf_hash(cb[0] & 0xfe, &l.1);
            for c in cb[33..].chunks(32) {
                let mut n = [0u8; 32];
                n.copy_from_slice(c);
                k = tapbranch_hash(&k, &n);
            }
            let mut p = [0u8; 32];
            p.copy_from_slice(&cb[1..33]);
            match taproot_tweak(&p, Some(&k)) {
                Some((q, par)) if q.to_vec() == spk[2..].to_vec() && par == (cb[0] & 1) => bump(cen, "control_blocks_verified"),
                _ => viol("control-block-does-not-verify", format!("build {}: leaf {} does not prove against the output key", bi, i)),
            }
        }
        // repeated / cloned spend info
        let again = guard(|| {
            let c = tr.clone();
            (c.spend_info().output_key().serialize().to_vec(), tr.spend_info().leaves().map(|l| l.control_block().serialize()).collect::<Vec<_>>())
        });
        if let Ok((o2, cbs)) = again {
            if o2 != ok || cbs != leaves.iter().map(|l| l.2.clone()).collect::<Vec<_>>() {
                viol("spend_info-unstable", format!("build {}: repeated / cloned spend_info differs", bi));
            }
        }
    }
    bump(cen, "trees_ok");
}

pub fn run(tier: Tier) -> i32 {
    let rep = Report::new("C15", tier);
    let pool = leaf_pool();
    let max_leaves = tier.pick(8, 10);
    let mut jobs: Vec<(String, Shape, Vec<T>, String)> = vec![];
    let mut n_shapes = 0u64;
    for n in 1..=max_leaves {
        for (si, sh) in Shape::all(n).into_iter().enumerate() {
            n_shapes += 1;
            let ls: Vec<T> = (0..n).map(|i| pool[(i + si) % pool.len()].clone()).collect();
            for ik in ["KI", "KJ"] {
                jobs.push((ik.into(), sh.clone(), ls.clone(), "shape".into()));
            }
            // repeated leaves
            if n <= 4 {
                jobs.push(("KI".into(), sh.clone(), vec![pool[0].clone(); n], "repeated-leaves".into()));
            }
        }
    }
    // chains of every depth 1..=128 (left, right, zig-zag)
    for depth in 1..=128usize {
        for (l, z, name) in [(true, false, "left-chain"), (false, false, "right-chain"), (true, true, "zigzag-chain")] {
            let sh = chain(depth, l, z);
            let ls: Vec<T> = (0..depth + 1).map(|i| T::Check(Box::new(T::PkK(format!("K{}", i + 1))))).collect();
            jobs.push(("KI".into(), sh, ls, name.into()));
        }
    }
    // deep bushes: every shape of up to `bush` leaves hanging below a spine so that the deepest
    // leaves sit at depth 126..=128 (several sibling pairs at the maximum depth, pairs next to
    // single leaves, ...); the ones that would exceed depth 128 are probed for refusal below.
    let bush = tier.pick(5, 7);
    let mut too_deep: Vec<Shape> = vec![];
    let shape_depth = |sh: &Shape| *sh.depths().iter().max().unwrap() as usize;
    for n in 2..=bush {
        for b in Shape::all(n) {
            let bd = shape_depth(&b);
            for total in [126usize, 127, 128, 129] {
                if total < bd {
                    continue;
                }
                let spine = total - bd;
                for (l, z, name) in [(true, false, "deep-bush-left"), (false, false, "deep-bush-right"), (true, true, "deep-bush-zigzag")] {
                    let sh = chain_over(b.clone(), spine, l, z);
                    if total <= 128 {
                        let ls: Vec<T> = (0..sh.n_leaves()).map(|i| T::Check(Box::new(T::PkK(format!("K{}", i + 1))))).collect();
                        jobs.push(("KI".into(), sh, ls, name.into()));
                    } else if n <= 4 {
                        too_deep.push(sh);
                    }
                }
            }
        }
    }
    // single leaf, and key-only
    let cen = jobs
        .par_iter()
        .fold(Census::new, |mut cen, (ik, sh, ls, tag)| {
            check_tree(&rep, &mut cen, ik, sh, ls, tag);
            cen
        })
        .reduce(Census::new, |mut a, b| {
            for (k, v) in b {
                *a.entry(k).or_insert(0) += v;
            }
            a
        });
    rep.merge_counts(&cen);
    // key-only
    for ik in ["KI", "KJ"] {
        let d = D::Tr(ik.into(), vec![]);
        if let Ok(Descriptor::Tr(tr)) = build_desc::<XOnlyPublicKey>(&d, &XEnv) {
            let mut ix = [0u8; 32];
            ix.copy_from_slice(&key(ik).x32());
            let (outkey, _) = ref_taproot_output(&ix, None);
            if tr.script_pubkey().as_bytes()[2..] != outkey[..] || tr.spend_info().merkle_root().is_some() {
                rep.violation(Violation {
                    key: format!("C15|key-only|{}", ik),
                    class: "key-only-output-key".into(),
                    what: "key-only taproot output key differs from reference".into(),
                    case: json!({"internal_key": ik}),
                });
            }
            rep.count("key_only", 1);
        }
    }
    // depth 129 must be rejected by combine and by the parser
    for (l, z) in [(true, false), (false, false), (true, true)] {
        too_deep.push(chain(129, l, z));
    }
    for sh in too_deep {
        let (l, z) = (sh.n_leaves(), fnv64(format!("{:?}", sh.depths()).as_bytes()));
        let ls: Vec<(u8, T)> = sh.depths().iter().enumerate().map(|(i, d)| (*d, T::Check(Box::new(T::PkK(format!("K{}", i + 1)))))).collect();
        let r1 = guard(|| build_taptree::<String>(&ls, &StrEnv).is_ok());
        let s = D::Tr("KI".into(), ls.clone()).print();
        let r2 = guard(|| Descriptor::<String>::from_str(&s).is_ok());
        rep.count("depth_129_probes", 2);
        for (name, r) in [("TapTree::combine", r1), ("Descriptor::from_str", r2)] {
            match r {
                Ok(false) => {}
                Ok(true) => rep.violation(Violation {
                    key: format!("C15|depth129|{}|{}{}", name, l, z),
                    class: "accepts-depth-129".into(),
                    what: format!("{} accepts a tree of depth 129", name),
                    case: json!({"entry": name}),
                }),
                Err(p) => rep.violation(Violation {
                    key: format!("C15|depth129-panic|{}|{}{}", name, l, z),
                    class: format!("depth-129-panic@{}", panic_site(&p)),
                    what: p,
                    case: json!({"entry": name}),
                }),
            }
        }
    }
    let _ = (walk::<String, Tap>, build::<String, Tap>, TapTree::<String>::leaf::<std::sync::Arc<Miniscript<String, Tap>>>);
    rep.extra("bounds", json!({"all_shapes_up_to_leaves": max_leaves, "shapes": n_shapes, "chains": "left/right/zig-zag, every depth 1..=128", "deep_bush_leaves": bush, "internal_keys": 2}));
    rep.sample(json!({"tree": "every binary tree shape up to the leaf bound, leaves = 9 distinct tapscripts rotated per shape"}));
    rep.sample(json!({"oracle": "recursive BIP341 reference: TapLeaf/TapBranch/TapTweak tagged hashes, output key + parity, control block bytes; each library control block is additionally verified against the scriptPubKey"}));
    rep.assume("secp256k1 point arithmetic and SHA256 are correct");
    rep.finish(
        n_shapes + 3 * 128,
        rep.get("control_blocks"),
        rep.get("control_blocks_verified"),
        rep.get("trees"),
        rep.get("trees_ok").min(rep.get("control_blocks_verified")),
        "ALL binary tree shapes up to the leaf bound x 2 internal keys (+ repeated leaves), left/right/zig-zag chains of every depth 1..128, every shape up to the bush bound below a spine reaching depth 126..128 (several sibling pairs at the maximum depth), depth 129 refused for chains and bushes; each tree built by leaf/combine, by parsing the reference string and by key translation; merkle root, output key, parity, every control block, leaf order/depth, scriptPubKey/address, bitcoin::TapTree and Display->FromStr compared with a recursive BIP341 reference. non-trivial = min(trees fully agreeing, control blocks independently verified)",
        true,
    )
}

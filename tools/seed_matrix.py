#!/usr/bin/env python3
"""Re-run every seeded change against the checks recorded as catching it (regression of the
detection table). Usage: seed_matrix.py [seed-id ...]; writes /verif/seeded/MATRIX.json."""
import json, os, subprocess, sys
base = '/verif/seeded'
ids = sys.argv[1:] or sorted(d for d in os.listdir(base) if os.path.exists(f'{base}/{d}/meta.json'))
out = {}
for sid in ids:
    m = json.load(open(f'{base}/{sid}/meta.json'))
    # one catching check per seed (its own property's check when that one catches it)
    cb = m['caught_by']
    checks = [m['property']] if m['property'] in cb or not cb else [cb[0]]
    r = subprocess.run(['python3', '/verif/tools/seed_eval.py', 'detect', sid] + checks, capture_output=True, text=True)
    det = json.load(open(f'{base}/{sid}/detection.json'))['quick']
    out[sid] = {c: {'exit': det[c]['exit'], 'violations': det[c]['violations']} for c in checks}
    caught = [c for c in checks if det[c]['exit'] == 1]
    print(sid, 'caught by', caught, flush=True)
    json.dump(out, open(f'{base}/MATRIX.json', 'w'), indent=1)

//! C19 part 2: descriptors, tap trees and policies — all ordered pairs of an enumerated family.

use std::cmp::Ordering;
use std::collections::hash_map::DefaultHasher;
use std::hash::{Hash, Hasher};

use miniscript::policy::{Concrete, Semantic};
use miniscript::Descriptor;
use serde_json::json;

use crate::ast::{StrEnv, T};
use crate::common::*;
use crate::desc::{build_desc, walk_desc, Shape, D};
use crate::policy::{enum_semantic, walk_concrete, walk_semantic, P};

fn h64<X: Hash>(x: &X) -> u64 {
    let mut h = DefaultHasher::new();
    x.hash(&mut h);
    h.finish()
}

fn pk(k: &str) -> T { T::Check(Box::new(T::PkK(k.into()))) }

pub fn desc_family() -> Vec<D> {
    let leaves: Vec<T> = vec![
        pk("A"),
        pk("B"),
        T::Check(Box::new(T::PkH("A".into()))),
        T::AndV(Box::new(T::Verify(Box::new(pk("A")))), Box::new(T::After(10))),
        T::AndV(Box::new(T::Verify(Box::new(pk("A")))), Box::new(T::After(11))),
        T::Thresh(1, vec![pk("A"), T::Swap(Box::new(pk("B")))]),
        T::Thresh(2, vec![pk("A"), T::Swap(Box::new(pk("B")))]),
        T::Thresh(1, vec![pk("A"), T::Swap(Box::new(pk("B"))), T::Swap(Box::new(pk("C")))]),
    ];
    let mut out = vec![];
    for k in ["A", "B"] {
        out.push(D::Pkh(k.into()));
        out.push(D::Wpkh(k.into()));
        out.push(D::ShWpkh(k.into()));
        out.push(D::Tr(k.into(), vec![]));
        out.push(D::Bare(pk(k)));
    }
    let multis = vec![
        T::Multi(1, vec!["A".into(), "B".into()]),
        T::Multi(2, vec!["A".into(), "B".into()]),
        T::Multi(1, vec!["A".into(), "B".into(), "C".into()]),
        T::Multi(1, vec!["B".into(), "A".into()]),
        T::SortedMulti(1, vec!["A".into(), "B".into()]),
        T::SortedMulti(1, vec!["A".into(), "B".into(), "C".into()]),
        T::SortedMulti(2, vec!["A".into(), "B".into()]),
    ];
    for t in leaves.iter().chain(multis.iter()) {
        out.push(D::Sh(t.clone()));
        out.push(D::Wsh(t.clone()));
        out.push(D::ShWsh(t.clone()));
    }
    out.push(D::Bare(T::Multi(1, vec!["A".into(), "B".into()])));
    out.push(D::Bare(T::Multi(1, vec!["A".into(), "B".into(), "C".into()])));
    // taproot: every shape with <= 3 leaves, leaves drawn from the first 4 tap leaves + multi_a
    let mut tl: Vec<T> = leaves[..4].to_vec();
    tl.push(T::MultiA(1, vec!["A".into(), "B".into()]));
    tl.push(T::MultiA(2, vec!["A".into(), "B".into()]));
    tl.push(T::MultiA(1, vec!["A".into(), "B".into(), "C".into()]));
    // leaves without any key (key iterators have to step over them)
    tl.push(T::Older(5));
    tl.push(T::Sha256("H".into()));
    for n in 1..=3usize {
        for sh in Shape::all(n) {
            let depths = sh.depths();
            // all assignments of leaves for n<=2, a diagonal for n=3
            let total = tl.len().pow(n as u32);
            for mut code in 0..total {
                let mut ls = vec![];
                for d in &depths {
                    ls.push((*d, tl[code % tl.len()].clone()));
                    code /= tl.len();
                }
                if n == 3 && !(ls[0].1 == tl[0] || ls[1].1 == tl[1] || ls.iter().any(|l| l.1.keys().is_empty())) {
                    continue;
                }
                out.push(D::Tr("I".into(), ls.clone()));
                if n == 1 {
                    out.push(D::Tr("J".into(), ls));
                }
            }
        }
    }
    out
}

fn pair_checks<X: PartialEq + Ord + Hash>(
    rep: &Report,
    kind: &str,
    items: &[(X, String)],
    hashable: bool,
) -> u64 {
    let mut n = 0u64;
    for (a, sa) in items {
        for (b, sb) in items {
            n += 1;
            let same = sa == sb;
            let mut viol = |class: &str, what: String| {
                rep.violation(Violation {
                    key: format!("{}|{}|{}|{}", class, kind, sa, sb),
                    class: format!("{}-{}", kind, class),
                    what,
                    case: json!({"kind": kind, "a": sa, "b": sb}),
                });
            };
            match guard(|| a == b) {
                Ok(eq) => {
                    if eq != same {
                        viol("eq-not-structural", format!("== is {} structural identity is {}", eq, same));
                    }
                    if hashable && eq && h64(a) != h64(b) {
                        viol("hash-inconsistent", "equal but hashes differ".into());
                    }
                }
                Err(e) => viol(&format!("eq-panic@{}", panic_site(&e)), e),
            }
            match guard(|| (a.cmp(b), b.cmp(a))) {
                Ok((ab, ba)) => {
                    if (ab == Ordering::Equal) != same {
                        viol("cmp-equal-not-structural", format!("cmp = {:?}, structural identity {}", ab, same));
                    }
                    if ab != ba.reverse() {
                        viol("cmp-not-antisymmetric", format!("{:?} vs {:?}", ab, ba));
                    }
                    // the partial order is the total one, and a clone is the same value
                    match guard(|| a.partial_cmp(b)) {
                        Ok(p) => {
                            if p != Some(ab) {
                                viol("partial_cmp-differs-from-cmp", format!("partial_cmp = {:?}, cmp = {:?}", p, ab));
                            }
                        }
                        Err(e) => viol(&format!("cmp-panic@{}", panic_site(&e)), e),
                    }
                }
                Err(e) => viol(&format!("cmp-panic@{}", panic_site(&e)), e),
            }
        }
    }
    n
}

struct NoHash<X>(X);
impl<X: PartialEq> PartialEq for NoHash<X> {
    fn eq(&self, o: &Self) -> bool { self.0 == o.0 }
}
impl<X: Eq> Eq for NoHash<X> {}
impl<X: Ord> PartialOrd for NoHash<X> {
    fn partial_cmp(&self, o: &Self) -> Option<Ordering> { Some(self.0.cmp(&o.0)) }
}
impl<X: Ord> Ord for NoHash<X> {
    fn cmp(&self, o: &Self) -> Ordering { self.0.cmp(&o.0) }
}
impl<X> Hash for NoHash<X> {
    fn hash<H: Hasher>(&self, _: &mut H) {}
}

pub fn run_desc_policy(rep: &Report) -> u64 {
    let mut total = 0;
    // descriptors
    let fam = desc_family();
    let mut items: Vec<(Descriptor<String>, String)> = vec![];
    let mut seen = std::collections::BTreeSet::new();
    for d in &fam {
        match build_desc::<String>(d, &StrEnv) {
            Ok(real) => {
                let w = walk_desc(&real);
                if w != *d {
                    rep.violation(Violation {
                        key: format!("desc-walk|{}", d.sexpr()),
                        class: "machinery-desc-walk".into(),
                        what: "walk(build(d)) != d".into(),
                        case: json!({"d": d.sexpr(), "got": w.sexpr()}),
                    });
                }
                let c = real.clone();
                if walk_desc(&c) != w {
                    rep.violation(Violation {
                        key: format!("desc-clone|{}", d.sexpr()),
                        class: "desc-clone-differs".into(),
                        what: "clone differs".into(),
                        case: json!({"d": d.sexpr()}),
                    });
                }
                if seen.insert(w.sexpr()) {
                    items.push((real, w.sexpr()));
                }
            }
            Err(_) => {}
        }
    }
    rep.count("descriptors_in_family", items.len() as u64);
    total += pair_checks(rep, "descriptor", &items, true);
    if let Some(l) = items.last() {
        rep.sample(json!({"descriptor": l.1}));
    }

    // semantic policies
    let atoms = vec![
        P::Key("A".into()),
        P::Key("B".into()),
        P::After(10),
        P::After(500000010),
        P::Older(5),
        P::Sha256("H".into()),
        P::Trivial,
        P::Unsat,
    ];
    let lv = enum_semantic(rep.tier.pick(4, 5), &atoms, 3);
    let mut sem: Vec<(NoHash<Semantic<String>>, String)> = vec![];
    for p in lv.iter().flatten() {
        let real = p.to_semantic();
        let w = walk_semantic(&real);
        assert_eq!(&w, p);
        sem.push((NoHash(real), p.sexpr()));
    }
    // cap the all-pairs universe
    let cap = rep.tier.pick(1500, 4000);
    if sem.len() > cap {
        let step = sem.len() / cap + 1;
        sem = sem.into_iter().step_by(step).collect();
    }
    rep.count("semantic_policies_in_family", sem.len() as u64);
    total += pair_checks(rep, "semantic", &sem, false);

    // concrete policies: and/or/thresh over a few atoms, <= 3 leaves
    let catoms = vec![P::Key("A".into()), P::Key("B".into()), P::After(10), P::Older(5), P::Sha256("H".into())];
    let mut conc: Vec<P> = catoms.clone();
    for a in &catoms {
        for b in &catoms {
            conc.push(P::And(vec![a.clone(), b.clone()]));
            conc.push(P::Or(vec![(1, a.clone()), (1, b.clone())]));
            conc.push(P::Or(vec![(9, a.clone()), (1, b.clone())]));
            conc.push(P::Thresh(1, vec![a.clone(), b.clone()]));
            conc.push(P::Thresh(2, vec![a.clone(), b.clone()]));
            conc.push(P::Thresh(1, vec![a.clone(), b.clone(), P::Key("C".into())]));
            conc.push(P::Thresh(2, vec![a.clone(), b.clone(), P::Key("C".into())]));
            conc.push(P::And(vec![a.clone(), P::Or(vec![(1, b.clone()), (1, P::Key("C".into()))])]));
        }
    }
    let citems: Vec<(Concrete<String>, String)> = conc
        .iter()
        .map(|p| {
            let real = p.to_concrete();
            assert_eq!(&walk_concrete(&real), p);
            (real, p.sexpr())
        })
        .collect();
    rep.count("concrete_policies_in_family", citems.len() as u64);
    total += pair_checks(rep, "concrete", &citems, true);
    total
}

//! C14 — PSBT finalization: valid, atomic, idempotent, order independent.
//! Explicit-state BFS over operation histories on real two-input `Psbt` values.

use std::collections::{BTreeMap, BTreeSet, HashMap, VecDeque};

use bitcoin::absolute::LockTime;
use bitcoin::hashes::Hash;
use bitcoin::psbt::Psbt;
use bitcoin::sighash::SighashCache;
use bitcoin::taproot::TapLeafHash;
use bitcoin::{Amount, OutPoint, ScriptBuf, Sequence, Transaction, TxIn, TxOut, Txid, Witness};
use miniscript::psbt::{PsbtExt, PsbtSighashMsg};
use rayon::prelude::*;
use secp256k1::SECP256K1;
use serde_json::json;

use crate::ast::T;
use crate::common::*;
use crate::desc::D;
use crate::keys::{hash_bytes, key, preimage, KeyForm};
use crate::rsm::{ecdsa_digest, tapbranch_hash, tapleaf_hash, taproot_digest, taproot_tweak, verify_input, SigVer, Spend};
use crate::sat::{prepare, DescCase};
use crate::world::{ecdsa_sig_for, schnorr_key_sig_for, schnorr_leaf_sig_for, SignCtx};

type Census = BTreeMap<&'static str, u64>;
fn bump(c: &mut Census, k: &'static str) { *c.entry(k).or_insert(0) += 1; }

fn pk(k: &str) -> T { T::Check(Box::new(T::PkK(k.into()))) }
fn v(t: T) -> Box<T> { Box::new(T::Verify(Box::new(t))) }

/// The descriptor family (keys are relabelled per input so the two inputs share none).
pub fn family() -> Vec<(&'static str, D)> {
    vec![
        ("pkh", D::Pkh("K1".into())),
        ("wpkh", D::Wpkh("K1".into())),
        ("sh-wpkh", D::ShWpkh("K1".into())),
        ("sh-multi", D::Sh(T::Multi(2, vec!["K1".into(), "K2".into(), "K3".into()]))),
        ("wsh-multi", D::Wsh(T::Multi(1, vec!["K1".into(), "K2".into()]))),
        ("sh-wsh-sortedmulti", D::ShWsh(T::SortedMulti(2, vec!["K1".into(), "K2".into()]))),
        ("wsh-hash-older", D::Wsh(T::AndV(v(pk("K1")), Box::new(T::AndV(v(T::Sha256("H1".into())), Box::new(T::Older(5))))))),
        ("wsh-after", D::Wsh(T::AndV(v(pk("K1")), Box::new(T::After(10))))),
        ("wsh-pkh", D::Wsh(T::OrD(Box::new(T::Check(Box::new(T::PkH("K1".into())))), Box::new(T::Check(Box::new(T::PkH("K2".into()))))))),
        ("tr-key", D::Tr("K1".into(), vec![])),
        ("tr-1leaf", D::Tr("K1".into(), vec![(0, pk("K2"))])),
        (
            "tr-3leaves",
            D::Tr(
                "K1".into(),
                vec![(1, pk("K2")), (2, T::MultiA(1, vec!["K3".into(), "K4".into()])), (2, T::AndV(v(pk("K2")), Box::new(T::Sha256("H1".into()))))],
            ),
        ),
        ("bare-pk", D::Bare(pk("K1"))),
        ("bare-multi", D::Bare(T::Multi(1, vec!["K1".into(), "K2".into()]))),
        ("wsh-or-malleable", D::Wsh(T::OrB(Box::new(T::Sha256("H1".into())), Box::new(T::Alt(Box::new(T::Sha256("H2".into()))))))),
        // a key branch next to a time-locked branch: whether the locked branch may be taken depends on the transaction
        ("wsh-or-older", D::Wsh(T::OrD(Box::new(pk("K1")), Box::new(T::AndV(v(pk("K2")), Box::new(T::Older(5))))))),
        ("wsh-or-after", D::Wsh(T::OrD(Box::new(pk("K1")), Box::new(T::AndV(v(pk("K2")), Box::new(T::After(10))))))),
        ("tr-leaf-older", D::Tr("K1".into(), vec![(0, T::AndV(v(pk("K2")), Box::new(T::Older(5))))])),
        // a key hash that has to be DISsatisfied when only the other branch signs (the finalizer must know the key)
        ("tr-leaf-pkh-or", D::Tr("K1".into(), vec![(1, pk("K2")), (1, T::OrD(Box::new(T::Check(Box::new(T::PkH("K3".into())))), Box::new(pk("K4"))))])),
        ("wsh-pkh-or", D::Wsh(T::OrD(Box::new(T::Check(Box::new(T::PkH("K3".into())))), Box::new(pk("K4"))))),
        ("wsh-andor-after", D::Wsh(T::AndOr(Box::new(pk("K1")), Box::new(T::After(10)), Box::new(pk("K2"))))),
        ("wsh-thresh-pkh", D::Wsh(T::Thresh(2, vec![T::Check(Box::new(T::PkH("K1".into()))), T::Alt(Box::new(pk("K2"))), T::Alt(Box::new(pk("K3")))]))),
        // one preimage of each other hash kind (the PSBT keeps a map per kind)
        (
            "wsh-hash-kinds",
            D::Wsh(T::AndV(v(pk("K1")), Box::new(T::AndV(v(T::Hash256("H1".into())), Box::new(T::AndV(v(T::Ripemd160("H2".into())), Box::new(T::Hash160("H3".into())))))))),
        ),
        ("tr-leaf-hash160", D::Tr("K1".into(), vec![(0, T::AndV(v(pk("K2")), Box::new(T::Hash160("H1".into()))))])),
        // a signed branch next to a signature-free one that needs a key only known by its hash
        (
            "wsh-pk-pkh-older",
            D::Wsh(T::AndV(v(pk("K1")), Box::new(T::OrD(Box::new(pk("K3")), Box::new(T::OrD(Box::new(T::Check(Box::new(T::PkH("K2".into())))), Box::new(T::Older(5)))))))),
        ),
    ]
}

fn relabel(d: &D, input: usize) -> D {
    let d2 = d.map_keys(&mut |k| format!("P{}{}", input, k));
    let mh = |t: &T| t.map_hashes(&mut |_, h| format!("Q{}{}", input, h));
    match d2 {
        D::Bare(t) => D::Bare(mh(&t)),
        D::Sh(t) => D::Sh(mh(&t)),
        D::Wsh(t) => D::Wsh(mh(&t)),
        D::ShWsh(t) => D::ShWsh(mh(&t)),
        D::Tr(k, l) => D::Tr(k, l.iter().map(|(dp, t)| (*dp, mh(t))).collect()),
        o => o,
    }
}

#[derive(Clone, Debug, PartialEq, Eq, Hash, PartialOrd, Ord)]
enum Act {
    Update(usize),
    /// update from the descriptor, then drop every key-origin record (scripts known, keys behind hashes not)
    UpdateNoOrigins(usize),
    AddSig(usize, String, Option<usize>), // input, key label, tap leaf index (None = ecdsa / key path)
    AddPreimage(usize, char, String),
    Finalize,
    FinalizeMall,
    FinalizeInp(usize),
    FinalizeInpMall(usize),
}

impl Act {
    fn is_finalize(&self) -> bool { matches!(self, Act::Finalize | Act::FinalizeMall | Act::FinalizeInp(_) | Act::FinalizeInpMall(_)) }
}

/// The unsigned transaction's own parameters: the time-lock opcodes are judged against them.
#[derive(Clone, Copy, Debug)]
pub struct TxCfg {
    pub name: &'static str,
    pub version: i32,
    pub lock_time: u32,
    /// nSequence of inputs whose descriptor contains older()
    pub seq_older: u32,
    pub seq_other: u32,
    /// input 0 gets a final sequence whatever its descriptor (the other input keeps nLockTime enabled)
    pub seq0_final: bool,
}

pub const CFG_DEFAULT: TxCfg = TxCfg { name: "v2", version: 2, lock_time: 10, seq_older: 5, seq_other: 0xffff_fffe, seq0_final: false };
/// Transactions in which some time-locked branch must NOT be taken (BIP65 / BIP68 / BIP112 rules).
pub const CFGS_LOCKS: [TxCfg; 9] = [
    CFG_DEFAULT,
    TxCfg { name: "version1", version: 1, lock_time: 10, seq_older: 5, seq_other: 0xffff_fffe, seq0_final: false },
    TxCfg { name: "version0", version: 0, lock_time: 10, seq_older: 5, seq_other: 0xffff_fffe, seq0_final: false },
    TxCfg { name: "version3", version: 3, lock_time: 10, seq_older: 5, seq_other: 0xffff_fffe, seq0_final: false },
    TxCfg { name: "sequence4", version: 2, lock_time: 10, seq_older: 4, seq_other: 0xffff_fffe, seq0_final: false },
    TxCfg { name: "locktime9", version: 2, lock_time: 9, seq_older: 5, seq_other: 0xffff_fffe, seq0_final: false },
    TxCfg { name: "final-sequences", version: 2, lock_time: 10, seq_older: 0xffff_ffff, seq_other: 0xffff_ffff, seq0_final: false },
    TxCfg { name: "disable-flag", version: 2, lock_time: 10, seq_older: 0x8000_0005, seq_other: 0xffff_fffe, seq0_final: false },
    TxCfg { name: "time-units", version: 2, lock_time: 500_000_010, seq_older: 0x0040_0005, seq_other: 0xffff_fffe, seq0_final: false },
];

struct Setup {
    /// every signature is made for another transaction (same inputs, nLockTime + 1): well-formed, invalid here
    stale_sigs: bool,
    /// the signer works from the PSBT's own fields (sighash_msg) instead of the real previous outputs
    sign_from_psbt: bool,
    cases: Vec<DescCase>,
    psbt0: Psbt,
    tx: Transaction,
    prevouts: Vec<TxOut>,
    actions: Vec<Act>,
}

fn setup(pair: &[D; 2], cfg: TxCfg) -> Option<Setup> { setup_opt(pair, cfg, false) }

fn setup_opt(pair: &[D; 2], cfg: TxCfg, partial_updates: bool) -> Option<Setup> {
    let cases: Vec<DescCase> = pair.iter().map(|d| prepare(d, KeyForm::Compressed).ok()).collect::<Option<Vec<_>>>()?;
    let mut inputs = vec![];
    let mut prevouts = vec![];
    let mut funding = vec![];
    for (i, c) in cases.iter().enumerate() {
        // a funding transaction per input (so non_witness_utxo can be provided)
        let ftx = Transaction {
            version: bitcoin::transaction::Version(2),
            lock_time: LockTime::ZERO,
            input: vec![TxIn { previous_output: OutPoint { txid: Txid::from_byte_array([0x20 + i as u8; 32]), vout: 0 }, script_sig: ScriptBuf::new(), sequence: Sequence::MAX, witness: Witness::new() }],
            output: vec![
                TxOut { value: Amount::from_sat(1000), script_pubkey: ScriptBuf::from_bytes(vec![0x51]) },
                TxOut { value: Amount::from_sat(100_000 + i as u64), script_pubkey: c.spk.clone() },
            ],
        };
        let seq = if cfg.seq0_final && i == 0 { 0xffff_ffff } else if c.olders.is_empty() { cfg.seq_other } else { cfg.seq_older };
        // "forged-vout": the transaction references an output the funding transaction does not have
        let vout = if cfg.name == "forged-vout" { 2 } else { 1 };
        inputs.push(TxIn { previous_output: OutPoint { txid: ftx.compute_txid(), vout }, script_sig: ScriptBuf::new(), sequence: Sequence(seq), witness: Witness::new() });
        prevouts.push(ftx.output[1].clone());
        funding.push(ftx);
    }
    let tx = Transaction {
        version: bitcoin::transaction::Version(cfg.version),
        lock_time: LockTime::from_consensus(cfg.lock_time),
        input: inputs,
        output: vec![TxOut { value: Amount::from_sat(150_000), script_pubkey: ScriptBuf::from_bytes(vec![0x51]) }],
    };
    let mut psbt0 = Psbt::from_unsigned_tx(tx.clone()).ok()?;
    for i in 0..2 {
        let segwit = matches!(cases[i].d, D::Wpkh(_) | D::Wsh(_) | D::Tr(..) | D::ShWpkh(_) | D::ShWsh(_));
        if cfg.name == "forged-utxo" {
            // both utxo fields, the witness one with a forged amount: the amount is what segwit signatures commit to
            let mut forged = prevouts[i].clone();
            forged.value = Amount::from_sat(forged.value.to_sat() + 1);
            psbt0.inputs[i].witness_utxo = Some(forged);
            psbt0.inputs[i].non_witness_utxo = Some(funding[i].clone());
        } else if cfg.name == "forged-vout" {
            // both utxo fields: the genuine funding transaction (whose txid the outpoint names) and a
            // witness_utxo that claims the descriptor's output for the non-existent index
            psbt0.inputs[i].witness_utxo = Some(prevouts[i].clone());
            psbt0.inputs[i].non_witness_utxo = Some(funding[i].clone());
        } else if segwit {
            psbt0.inputs[i].witness_utxo = Some(prevouts[i].clone());
        } else {
            psbt0.inputs[i].non_witness_utxo = Some(funding[i].clone());
        }
    }
    let mut actions = vec![];
    for (i, c) in cases.iter().enumerate() {
        actions.push(Act::Update(i));
        if partial_updates {
            actions.push(Act::UpdateNoOrigins(i));
        }
        for kl in &c.keys {
            match &c.d {
                D::Tr(ik, leaves) => {
                    if kl == ik {
                        actions.push(Act::AddSig(i, kl.clone(), None));
                    }
                    for (li, (_, t)) in leaves.iter().enumerate() {
                        if t.keys().contains(kl) {
                            actions.push(Act::AddSig(i, kl.clone(), Some(li)));
                        }
                    }
                }
                _ => actions.push(Act::AddSig(i, kl.clone(), None)),
            }
        }
        for (kind, hl) in &c.hashes {
            actions.push(Act::AddPreimage(i, *kind, hl.clone()));
        }
        actions.push(Act::FinalizeInp(i));
        actions.push(Act::FinalizeInpMall(i));
    }
    actions.push(Act::Finalize);
    actions.push(Act::FinalizeMall);
    Some(Setup { stale_sigs: cfg.name == "stale-signatures", sign_from_psbt: cfg.name == "forged-utxo" || cfg.name == "forged-vout", cases, psbt0, tx, prevouts, actions })
}

fn spend_of(s: &Setup, idx: usize) -> Spend { Spend { tx: s.tx.clone(), idx, prevouts: s.prevouts.clone() } }

fn apply(s: &Setup, p: &Psbt, a: &Act) -> Result<(Psbt, Result<(), String>), String> {
    let mut q = p.clone();
    let r = guard(|| -> Result<(), String> {
        match a {
            Act::Update(i) => q.update_input_with_descriptor(*i, &s.cases[*i].desc).map_err(|e| e.to_string()),
            Act::UpdateNoOrigins(i) => {
                let r = q.update_input_with_descriptor(*i, &s.cases[*i].desc).map_err(|e| e.to_string());
                q.inputs[*i].bip32_derivation.clear();
                q.inputs[*i].tap_key_origins.clear();
                r
            }
            Act::AddSig(i, kl, leaf) => {
                let c = &s.cases[*i];
                let mut sp = spend_of(s, *i);
                if s.stale_sigs {
                    sp.tx.lock_time = LockTime::from_consensus(sp.tx.lock_time.to_consensus_u32() + 1);
                }
                let k = key(kl);
                match (&c.sign, leaf) {
                    (SignCtx::Ecdsa { script_code, sigver }, _) => {
                        // a real signer signs what the PSBT tells it to sign
                        let from_psbt = if s.sign_from_psbt {
                            let mut cache = SighashCache::new(&s.tx);
                            match q.sighash_msg(*i, &mut cache, None) {
                                Ok(PsbtSighashMsg::LegacySighash(h)) => Some(h.to_byte_array()),
                                Ok(PsbtSighashMsg::SegwitV0Sighash(h)) => Some(h.to_byte_array()),
                                _ => None,
                            }
                        } else {
                            None
                        };
                        let raw = match from_psbt {
                            Some(d) => crate::world::sign_ecdsa(k, d, 1),
                            None => ecdsa_sig_for(k, &sp, script_code, *sigver),
                        };
                        let sig = bitcoin::ecdsa::Signature::from_slice(&raw).unwrap();
                        q.inputs[*i].partial_sigs.insert(bitcoin::PublicKey::new(k.pk), sig);
                    }
                    (SignCtx::Taproot { merkle_root, .. }, None) => {
                        let raw = schnorr_key_sig_for(k, &sp, *merkle_root, 0);
                        q.inputs[*i].tap_key_sig = Some(bitcoin::taproot::Signature::from_slice(&raw).unwrap());
                    }
                    (SignCtx::Taproot { .. }, Some(li)) => {
                        let leaves = c.tap_leaves();
                        let lh = TapLeafHash::from_byte_array(tapleaf_hash(0xc0, &leaves[*li].1));
                        let raw = schnorr_leaf_sig_for(k, &sp, lh, 0);
                        q.inputs[*i].tap_script_sigs.insert((k.xonly, lh), bitcoin::taproot::Signature::from_slice(&raw).unwrap());
                    }
                }
                Ok(())
            }
            Act::AddPreimage(i, kind, hl) => {
                let pre = preimage(hl).to_vec();
                let hb = hash_bytes(*kind, hl);
                match kind {
                    's' => {
                        q.inputs[*i].sha256_preimages.insert(bitcoin::hashes::sha256::Hash::from_slice(&hb).unwrap(), pre);
                    }
                    'd' => {
                        q.inputs[*i].hash256_preimages.insert(bitcoin::hashes::sha256d::Hash::from_slice(&hb).unwrap(), pre);
                    }
                    'r' => {
                        q.inputs[*i].ripemd160_preimages.insert(bitcoin::hashes::ripemd160::Hash::from_slice(&hb).unwrap(), pre);
                    }
                    _ => {
                        q.inputs[*i].hash160_preimages.insert(bitcoin::hashes::hash160::Hash::from_slice(&hb).unwrap(), pre);
                    }
                }
                Ok(())
            }
            Act::Finalize => q.finalize_mut(SECP256K1).map_err(|e| format!("{:?}", e.iter().map(|x| x.to_string()).collect::<Vec<_>>())),
            Act::FinalizeMall => q.finalize_mall_mut(SECP256K1).map_err(|e| format!("{:?}", e.iter().map(|x| x.to_string()).collect::<Vec<_>>())),
            Act::FinalizeInp(i) => q.finalize_inp_mut(SECP256K1, *i).map_err(|e| e.to_string()),
            Act::FinalizeInpMall(i) => q.finalize_inp_mall_mut(SECP256K1, *i).map_err(|e| e.to_string()),
        }
    })?;
    Ok((q, r))
}

/// What input `i` of the PSBT itself offers to a finalizer: a key counts as available only if its
/// signature is present for every place the descriptor uses it (under-approximation).
fn world_of_input(s: &Setup, p: &Psbt, i: usize) -> crate::world::World {
    let c = &s.cases[i];
    let inp = &p.inputs[i];
    let mut sigs = BTreeSet::new();
    for kl in &c.keys {
        let k = key(kl);
        let have = match &c.d {
            D::Tr(ik, leaves) => {
                let mut ok = true;
                let mut used = false;
                if kl == ik {
                    used = true;
                    ok &= inp.tap_key_sig.is_some();
                }
                let tl = c.tap_leaves();
                for (li, (_, t)) in leaves.iter().enumerate() {
                    if t.keys().contains(kl) {
                        used = true;
                        let lh = TapLeafHash::from_byte_array(tapleaf_hash(0xc0, &tl[li].1));
                        ok &= inp.tap_script_sigs.contains_key(&(k.xonly, lh));
                    }
                }
                used && ok
            }
            _ => inp.partial_sigs.contains_key(&bitcoin::PublicKey::new(k.pk)),
        };
        if have {
            sigs.insert(kl.clone());
        }
    }
    let mut pre = BTreeSet::new();
    for (kind, hl) in &c.hashes {
        let hb = hash_bytes(*kind, hl);
        let have = match kind {
            's' => inp.sha256_preimages.contains_key(&bitcoin::hashes::sha256::Hash::from_slice(&hb).unwrap()),
            'd' => inp.hash256_preimages.contains_key(&bitcoin::hashes::sha256d::Hash::from_slice(&hb).unwrap()),
            'r' => inp.ripemd160_preimages.contains_key(&bitcoin::hashes::ripemd160::Hash::from_slice(&hb).unwrap()),
            _ => inp.hash160_preimages.contains_key(&bitcoin::hashes::hash160::Hash::from_slice(&hb).unwrap()),
        };
        if have {
            pre.insert(hl.clone());
        }
    }
    crate::world::World { sigs, pre, locktime: s.tx.lock_time.to_consensus_u32(), sequence: s.tx.input[i].sequence.0 }
}

fn is_final(p: &Psbt, i: usize) -> bool { p.inputs[i].final_script_sig.is_some() || p.inputs[i].final_script_witness.is_some() }

fn input_bytes(p: &Psbt, i: usize) -> Vec<u8> {
    // serialise one input by serialising a psbt whose other inputs are blanked
    let mut q = p.clone();
    for (j, inp) in q.inputs.iter_mut().enumerate() {
        if j != i {
            *inp = Default::default();
        }
    }
    q.serialize()
}

fn check_update_invariants(rep: &Report, s: &Setup, p: &Psbt, i: usize, pairname: &str, cen: &mut Census) {
    let c = &s.cases[i];
    let inp = &p.inputs[i];
    let mut viol = |class: &str, what: String| {
        rep.violation(Violation {
            key: format!("C14|update-{}|{}|{}", class, pairname, i),
            class: format!("update-{}-{}", class, c.kind()),
            what,
            case: json!({"pair": pairname, "input": i, "descriptor": c.desc.to_string()}),
        });
    };
    bump(cen, "update_invariant_checks");
    // scripts hash to the spk
    match &c.d {
        D::Wsh(_) => {
            if inp.witness_script.as_ref().map(|w| w.to_p2wsh()) != Some(c.spk.clone()) {
                viol("witness_script", "witness_script does not hash to the scriptPubKey".into());
            }
        }
        D::ShWsh(_) => {
            let ok = inp.witness_script.as_ref().map(|w| w.to_p2wsh()) == inp.redeem_script.clone() && inp.redeem_script.as_ref().map(|r| r.to_p2sh()) == Some(c.spk.clone());
            if !ok {
                viol("scripts", "witness/redeem scripts do not hash to the scriptPubKey".into());
            }
        }
        D::Sh(_) | D::ShWpkh(_) => {
            if inp.redeem_script.as_ref().map(|r| r.to_p2sh()) != Some(c.spk.clone()) {
                viol("redeem_script", "redeem_script does not hash to the scriptPubKey".into());
            }
        }
        _ => {}
    }
    // key origins
    if let D::Tr(ik, _) = &c.d {
        let x = key(ik).xonly;
        if inp.tap_internal_key != Some(x) {
            viol("tap_internal_key", "tap_internal_key differs from the descriptor's internal key".into());
        }
        let leaves = c.tap_leaves();
        let root = crate::world::ref_merkle_root(&leaves);
        let got = inp.tap_merkle_root.map(|h| h.to_byte_array());
        if got != root {
            viol("tap_merkle_root", "tap_merkle_root differs from the BIP341 reference".into());
        }
        // every control block verifies against the spk
        if inp.tap_scripts.len() != leaves.len() {
            viol("tap_scripts-count", format!("{} tap_scripts for {} leaves", inp.tap_scripts.len(), leaves.len()));
        }
        for (cb, (script, _)) in &inp.tap_scripts {
            let cbb = cb.serialize();
            let mut k = tapleaf_hash(cbb[0] & 0xfe, script.as_bytes());
            for ch in cbb[33..].chunks(32) {
                let mut n = [0u8; 32];
                n.copy_from_slice(ch);
                k = tapbranch_hash(&k, &n);
            }
            let mut pk32 = [0u8; 32];
            pk32.copy_from_slice(&cbb[1..33]);
            match taproot_tweak(&pk32, Some(&k)) {
                Some((q, par)) if q[..] == c.spk.as_bytes()[2..] && par == (cbb[0] & 1) => {}
                _ => viol("tap_scripts-proof", "a recorded control block does not prove its script against the output key".into()),
            }
        }
        for kl in &c.keys {
            let k = key(kl);
            match inp.tap_key_origins.get(&k.xonly) {
                Some((_, (fp, path))) => {
                    if *fp != k.fingerprint || path.to_string() != "7" && path.to_string() != "m/7" {
                        viol("tap_key_origins", format!("origin of {} is ({}, {})", kl, fp, path));
                    }
                }
                None => viol("tap_key_origins-missing", format!("no origin recorded for {}", kl)),
            }
        }
    } else {
        for kl in &c.keys {
            let k = key(kl);
            match inp.bip32_derivation.get(&k.pk) {
                Some((fp, path)) => {
                    if *fp != k.fingerprint || (path.to_string() != "7" && path.to_string() != "m/7") {
                        viol("bip32_derivation", format!("origin of {} is ({}, {})", kl, fp, path));
                    }
                }
                None => viol("bip32_derivation-missing", format!("no origin recorded for {}", kl)),
            }
        }
    }
    // I8: sighash_msg equals the harness digest
    let sp = spend_of(s, i);
    let mut cache = SighashCache::new(&s.tx);
    match &c.sign {
        SignCtx::Ecdsa { script_code, sigver } => {
            if let Ok(Ok(m)) = guard(|| p.sighash_msg(i, &mut cache, None)) {
                let d = ecdsa_digest(&sp, script_code, *sigver, 1);
                let got = match m {
                    PsbtSighashMsg::LegacySighash(h) => h.to_byte_array(),
                    PsbtSighashMsg::SegwitV0Sighash(h) => h.to_byte_array(),
                    PsbtSighashMsg::TapSighash(h) => h.to_byte_array(),
                };
                if got != d {
                    viol("sighash_msg", "sighash_msg differs from the independently computed digest".into());
                } else {
                    bump(cen, "sighash_msgs_confirmed");
                }
            } else {
                viol("sighash_msg-fails", "sighash_msg failed after update".into());
            }
        }
        SignCtx::Taproot { .. } => {
            let leaves = c.tap_leaves();
            let mut lhs: Vec<Option<TapLeafHash>> = vec![None];
            lhs.extend(leaves.iter().map(|l| Some(TapLeafHash::from_byte_array(tapleaf_hash(0xc0, &l.1)))));
            for lh in lhs {
                if let Ok(Ok(PsbtSighashMsg::TapSighash(h))) = guard(|| p.sighash_msg(i, &mut cache, lh)) {
                    if Some(h.to_byte_array()) != taproot_digest(&sp, lh, 0) {
                        viol("sighash_msg", "taproot sighash_msg differs from the independently computed digest".into());
                    } else {
                        bump(cen, "sighash_msgs_confirmed");
                    }
                } else {
                    viol("sighash_msg-fails", "sighash_msg failed after update".into());
                }
            }
        }
    }
    let _ = SigVer::Base;
}

/// Updating OUTPUTS from a descriptor: for every family member a transaction paying to it; the
/// recorded scripts hash to the output's scriptPubKey, key origins are those of the descriptor's
/// keys, the taproot fields describe the descriptor's tree; an output paying elsewhere is refused
/// and left alone; the `_unchecked` trait methods record exactly the same fields as the checked
/// entry points (inputs and outputs).
fn output_updates(rep: &Report, cen: &mut Census) {
    use miniscript::psbt::{PsbtInputExt, PsbtOutputExt};
    for (name, d) in family() {
        let c = match prepare(&d, KeyForm::Compressed) {
            Ok(c) => c,
            Err(_) => continue,
        };
        let mut viol = |class: &str, what: String| {
            rep.violation(Violation {
                key: format!("C14|output-update-{}|{}", class, name),
                class: format!("output-update-{}-{}", class, c.kind()),
                what,
                case: json!({"member": name, "descriptor": c.desc.to_string()}),
            });
        };
        let tx = Transaction {
            version: bitcoin::transaction::Version(2),
            lock_time: LockTime::ZERO,
            input: vec![TxIn { previous_output: OutPoint { txid: Txid::from_byte_array([0x77; 32]), vout: 0 }, script_sig: ScriptBuf::new(), sequence: Sequence::MAX, witness: Witness::new() }],
            output: vec![TxOut { value: Amount::from_sat(1000), script_pubkey: c.spk.clone() }, TxOut { value: Amount::from_sat(1000), script_pubkey: ScriptBuf::from_bytes(vec![0x51]) }],
        };
        let p0 = match Psbt::from_unsigned_tx(tx) {
            Ok(p) => p,
            Err(_) => continue,
        };
        bump(cen, "output_updates");
        let mut p = p0.clone();
        match guard(|| p.update_output_with_descriptor(0, &c.desc)) {
            Ok(Ok(())) => {}
            Ok(Err(e)) => {
                viol("refused", format!("update_output_with_descriptor refuses the descriptor's own output: {:?}", e));
                continue;
            }
            Err(pn) => {
                viol("panics", pn);
                continue;
            }
        }
        let out = &p.outputs[0];
        let scripts_ok = match &c.d {
            D::Wsh(_) => out.witness_script.as_ref().map(|w| w.to_p2wsh()) == Some(c.spk.clone()) && out.redeem_script.is_none(),
            D::ShWsh(_) => out.witness_script.as_ref().map(|w| w.to_p2wsh()) == out.redeem_script.clone() && out.redeem_script.as_ref().map(|r| r.to_p2sh()) == Some(c.spk.clone()),
            D::Sh(_) | D::ShWpkh(_) => out.redeem_script.as_ref().map(|r| r.to_p2sh()) == Some(c.spk.clone()) && out.witness_script.is_none(),
            _ => out.witness_script.is_none() && out.redeem_script.is_none(),
        };
        if !scripts_ok {
            viol("scripts", "the scripts recorded for the output do not hash to its scriptPubKey".into());
        }
        if let D::Tr(ik, leaves) = &c.d {
            if out.tap_internal_key != Some(key(ik).xonly) {
                viol("tap_internal_key", "tap_internal_key differs from the descriptor's internal key".into());
            }
            let want: Vec<(u8, Vec<u8>)> = c.tap_leaves().iter().zip(leaves.iter()).map(|(l, (dp, _))| (*dp, l.1.clone())).collect();
            let got: Option<Vec<(u8, Vec<u8>)>> = out.tap_tree.as_ref().map(|t| t.script_leaves().map(|l| (l.merkle_branch().len() as u8, l.script().as_bytes().to_vec())).collect());
            // (rust-bitcoin orders the two children of a branch by hash: siblings may come out swapped, which
            // BIP341 does not distinguish - the multiset of (depth, script) and the merkle root decide)
            let mut want_sorted = want.clone();
            want_sorted.sort();
            let got_sorted = got.clone().map(|mut g| {
                g.sort();
                g
            });
            let root_ok = out.tap_tree.as_ref().map(|t| Some(t.root_hash().to_byte_array()) == crate::world::ref_merkle_root(&c.tap_leaves())).unwrap_or(true);
            if leaves.is_empty() != got.is_none() || got_sorted.map(|g| g != want_sorted).unwrap_or(false) || !root_ok {
                viol("tap_tree", "the recorded tap_tree is not the descriptor's script tree (leaf scripts with their depths, merkle root)".into());
            }
            for kl in &c.keys {
                let k = key(kl);
                if out.tap_key_origins.get(&k.xonly).map(|(_, (fp, _))| *fp) != Some(k.fingerprint) {
                    viol("tap_key_origins", format!("origin of {} missing or wrong", kl));
                }
            }
        } else {
            if out.tap_internal_key.is_some() || out.tap_tree.is_some() || !out.tap_key_origins.is_empty() {
                viol("taproot-fields-on-other-output", "taproot fields recorded for a non-taproot output".into());
            }
            for kl in &c.keys {
                let k = key(kl);
                if out.bip32_derivation.get(&k.pk).map(|(fp, _)| *fp) != Some(k.fingerprint) {
                    viol("bip32_derivation", format!("origin of {} missing or wrong", kl));
                }
            }
        }
        // the other output pays elsewhere: refused, untouched
        let mut q = p0.clone();
        match guard(|| q.update_output_with_descriptor(1, &c.desc)) {
            Ok(Err(_)) => {
                if q.serialize() != p0.serialize() {
                    // (recording fields of a descriptor the output does not pay to would mislead a signer)
                    viol("refused-but-altered", "a refused output update changed the PSBT".into());
                } else {
                    bump(cen, "foreign_outputs_refused");
                }
            }
            Ok(Ok(())) => viol("foreign-output-accepted", "an output paying to another script was updated from the descriptor".into()),
            Err(pn) => viol("panics", pn),
        }
        // the unchecked trait methods record the same fields
        let mut o2 = p0.outputs[0].clone();
        match guard(|| PsbtOutputExt::update_with_descriptor_unchecked(&mut o2, &c.desc).map(|d| d.script_pubkey())) {
            Ok(Ok(spk)) => {
                if o2 != p.outputs[0] || spk != c.spk {
                    viol("unchecked-differs", "PsbtOutputExt::update_with_descriptor_unchecked records other fields (or returns another descriptor) than update_output_with_descriptor".into());
                } else {
                    bump(cen, "unchecked_output_updates_equal");
                }
            }
            _ => viol("unchecked-fails", "PsbtOutputExt::update_with_descriptor_unchecked failed".into()),
        }
        // inputs: the same comparison (the utxo fields are not touched by either)
        let mut pin = p0.clone();
        pin.inputs[0].witness_utxo = Some(TxOut { value: Amount::from_sat(5000), script_pubkey: c.spk.clone() });
        let mut i2 = pin.inputs[0].clone();
        let legacy = matches!(c.d, D::Pkh(_) | D::Sh(_) | D::Bare(_));
        if !legacy {
            match (guard(|| pin.update_input_with_descriptor(0, &c.desc)), guard(|| PsbtInputExt::update_with_descriptor_unchecked(&mut i2, &c.desc).map(|d| d.script_pubkey()))) {
                (Ok(Ok(())), Ok(Ok(spk))) => {
                    if i2 != pin.inputs[0] || spk != c.spk {
                        viol("unchecked-input-differs", "PsbtInputExt::update_with_descriptor_unchecked records other fields than update_input_with_descriptor".into());
                    } else {
                        bump(cen, "unchecked_input_updates_equal");
                    }
                }
                (a, b) => viol("unchecked-input-fails", format!("checked ok = {:?}, unchecked ok = {:?}", a.map(|x| x.is_ok()), b.map(|x| x.is_ok()))),
            }
        }
    }
}

/// A few fully populated states of a pair (used by C11 as mutation seeds).
pub fn reachable_full_states(pair: &[D; 2]) -> (Vec<Psbt>, Vec<String>) {
    let p2 = [relabel(&pair[0], 0), relabel(&pair[1], 1)];
    let s = match setup(&p2, CFG_DEFAULT) {
        Some(s) => s,
        None => return (vec![], vec![]),
    };
    let descs: Vec<String> = s.cases.iter().map(|c| c.desc.to_string()).collect();
    let mut out = vec![s.psbt0.clone()];
    let mut updated = s.psbt0.clone();
    let mut full = s.psbt0.clone();
    let mut sigs_only = s.psbt0.clone();
    for a in &s.actions {
        if a.is_finalize() {
            continue;
        }
        if let Ok((q, _)) = apply(&s, &full, a) {
            full = q;
        }
        if matches!(a, Act::Update(_)) {
            if let Ok((q, _)) = apply(&s, &updated, a) {
                updated = q;
            }
        } else if let Ok((q, _)) = apply(&s, &sigs_only, a) {
            sigs_only = q;
        }
    }
    out.push(updated);
    out.push(sigs_only);
    out.push(full.clone());
    if let Ok((q, _)) = apply(&s, &full, &Act::FinalizeInp(0)) {
        out.push(q);
    }
    (out, descs)
}

fn explore_pair(rep: &Report, name: &str, pair: &[D; 2], depth: usize, cfg: TxCfg) -> (Census, u64, u64) { explore_pair_mode(rep, name, pair, depth, cfg, 0) }

/// `completeness_only`: report only "finalize fails although satisfiable" (that is property C02,
/// decided on the PSBT path; run from the C02 check); otherwise report everything else (C14).
fn explore_pair_mode(rep: &Report, name: &str, pair: &[D; 2], depth: usize, cfg: TxCfg, mode: u8) -> (Census, u64, u64) {
    let mut cen = Census::new();
    // mode 0: C14's own invariants; 1: completeness (C02 on the PSBT path); 2: third-party
    // alternatives to non-malleable finalizations (C03 on the PSBT path)
    let prop = ["C14", "C02", "C03"][mode as usize];
    let s = match setup_opt(pair, cfg, mode != 0) {
        Some(s) => s,
        None => return (cen, 0, 0),
    };
    let mut seen: HashMap<Vec<u8>, usize> = HashMap::new();
    // non-final states: set of applied data actions -> serialization (order independence)
    let mut by_set: HashMap<BTreeSet<Act>, Vec<u8>> = HashMap::new();
    let mut queue: VecDeque<(Psbt, Vec<Act>)> = VecDeque::new();
    seen.insert(s.psbt0.serialize(), 0);
    queue.push_back((s.psbt0.clone(), vec![]));
    let mut transitions = 0u64;
    let viol = |class: String, what: String, hist: &[Act], extra: serde_json::Value| {
        let class_mode = if class.starts_with("finalize-fails-although-satisfiable") {
            1
        } else if class.starts_with("third-party-alternative") {
            2
        } else {
            0
        };
        if class_mode != mode {
            return;
        }
        rep.violation(Violation {
            key: format!("{}|psbt-{}|{}|{:?}", prop, class, name, hist),
            class,
            what,
            case: json!({"pair": name, "descriptors": [s.cases[0].desc.to_string(), s.cases[1].desc.to_string()], "history": hist.iter().map(|a| format!("{:?}", a)).collect::<Vec<_>>(), "detail": extra}),
        });
    };
    let mut cut_by_depth = 0u64;
    while let Some((p, hist)) = queue.pop_front() {
        if hist.len() >= depth {
            cut_by_depth += 1;
            continue;
        }
        for a in &s.actions {
            transitions += 1;
            let mut h2 = hist.clone();
            h2.push(a.clone());
            let (q, r) = match apply(&s, &p, a) {
                Ok(x) => x,
                Err(pn) => {
                    bump(&mut cen, "panics");
                    viol(format!("panic@{}", panic_site(&pn)), pn, &h2, json!(null));
                    continue;
                }
            };
            // ---- invariants on (p, a, q) ----
            for i in 0..2 {
                let was_final = is_final(&p, i);
                let now_final = is_final(&q, i);
                // finalization (any variant, on any input) never alters an input that is already final;
                // update / add actions are the caller's own edits and are not constrained by C14
                if a.is_finalize() && was_final && input_bytes(&p, i) != input_bytes(&q, i) {
                    viol("final-input-altered".into(), format!("input {} was final and changed under {:?}", i, a), &h2, json!(null));
                }
                if !was_final && now_final {
                    bump(&mut cen, "inputs_finalized");
                    if cfg.name == "forged-vout" {
                        viol("finalized-against-nonexistent-output".into(), format!("input {} finalized by {:?} although the funding transaction in the PSBT has no output at the referenced index", i, a), &h2, json!(null));
                    }
                    let ss = q.inputs[i].final_script_sig.clone().unwrap_or_default();
                    let wit: Vec<Vec<u8>> = q.inputs[i].final_script_witness.as_ref().map(|w| w.iter().map(|x| x.to_vec()).collect()).unwrap_or_default();
                    match verify_input(&spend_of(&s, i), ss.as_bytes(), &wit, true) {
                        Ok(_) => bump(&mut cen, "finalized_inputs_validated"),
                        Err(e) => viol(format!("finalized-input-invalid-{}:{}", s.cases[i].kind(), e), format!("input {} finalized by {:?} does not validate: {}", i, a, e), &h2, json!({"script_sig": hex(ss.as_bytes()), "witness": wit.iter().map(|x| hex(x)).collect::<Vec<_>>()})),
                    }
                    if !a.is_finalize() {
                        viol("finalized-by-non-finalize-action".into(), format!("{:?} finalized input {}", a, i), &h2, json!(null));
                    }
                }
                // atomicity: a finalize that leaves input i non-final must leave it byte-identical
                if a.is_finalize() && !now_final && input_bytes(&p, i) != input_bytes(&q, i) {
                    viol("failed-finalize-altered-input".into(), format!("{:?} failed for input {} but changed it", a, i), &h2, json!({"result": format!("{:?}", r)}));
                }
            }
            // the by-value variants and the free functions are the same operation: same resulting PSBT
            // (also on failure, where they hand the PSBT back), same verdict
            if mode == 0 && a.is_finalize() {
                use miniscript::psbt::PsbtExt;
                let ser = |x: &Psbt| x.serialize();
                let (by_value, verdict): (Psbt, bool) = match a {
                    Act::Finalize => match p.clone().finalize(SECP256K1) {
                        Ok(x) => (x, true),
                        Err((x, _)) => (x, false),
                    },
                    Act::FinalizeMall => match p.clone().finalize_mall(SECP256K1) {
                        Ok(x) => (x, true),
                        Err((x, _)) => (x, false),
                    },
                    Act::FinalizeInp(i) => match p.clone().finalize_inp(SECP256K1, *i) {
                        Ok(x) => (x, true),
                        Err((x, _)) => (x, false),
                    },
                    Act::FinalizeInpMall(i) => match p.clone().finalize_inp_mall(SECP256K1, *i) {
                        Ok(x) => (x, true),
                        Err((x, _)) => (x, false),
                    },
                    _ => unreachable!(),
                };
                bump(&mut cen, "by_value_finalize_variants_compared");
                if verdict != r.is_ok() || ser(&by_value) != ser(&q) {
                    viol("by-value-finalize-differs".into(), format!("{:?}: the by-value variant returns ok = {} (in-place: {}) and {} PSBT", a, verdict, r.is_ok(), if ser(&by_value) == ser(&q) { "the same" } else { "a different" }), &h2, json!(null));
                }
                // the free functions stop at the first failing input; whatever they finalized must be what
                // the in-place variant finalized, and they succeed exactly when it does
                if matches!(a, Act::Finalize | Act::FinalizeMall) {
                    let mut f = p.clone();
                    #[allow(deprecated)]
                    let fr = if matches!(a, Act::Finalize) { miniscript::psbt::finalize(&mut f, SECP256K1) } else { miniscript::psbt::finalize_mall(&mut f, SECP256K1) };
                    bump(&mut cen, "free_finalize_functions_compared");
                    let mut bad = fr.is_ok() != r.is_ok();
                    for i in 0..2 {
                        if is_final(&f, i) && input_bytes(&f, i) != input_bytes(&q, i) {
                            bad = true;
                        }
                        if !is_final(&f, i) && input_bytes(&f, i) != input_bytes(&p, i) {
                            bad = true;
                        }
                    }
                    if fr.is_ok() && ser(&f) != ser(&q) {
                        bad = true;
                    }
                    if bad {
                        viol("free-finalize-function-differs".into(), format!("psbt::{} returned ok = {} (PsbtExt variant: {}) or left different inputs", if matches!(a, Act::Finalize) { "finalize" } else { "finalize_mall" }, fr.is_ok(), r.is_ok()), &h2, json!(null));
                    }
                }
            }
            // result consistency
            match a {
                Act::Finalize | Act::FinalizeMall => {
                    if r.is_ok() != (is_final(&q, 0) && is_final(&q, 1)) {
                        viol("finalize-result-inconsistent".into(), format!("{:?} returned {:?} but final = [{}, {}]", a, r, is_final(&q, 0), is_final(&q, 1)), &h2, json!(null));
                    }
                }
                Act::FinalizeInp(i) | Act::FinalizeInpMall(i) => {
                    if r.is_ok() != is_final(&q, *i) {
                        viol("finalize-result-inconsistent".into(), format!("{:?} returned {:?} but final = {}", a, r, is_final(&q, *i)), &h2, json!(null));
                    }
                    if r.is_err() {
                        bump(&mut cen, "failing_finalize_calls");
                    }
                }
                _ => {}
            }
            // non-malleability on the PSBT path: a NON-malleable finalize variant that finalizes a sane
            // descriptor must produce the only witness a third party (who knows every key and
            // preimage) could get accepted
            if mode == 2 && matches!(a, Act::Finalize | Act::FinalizeInp(_)) {
                for i in 0..2 {
                    if is_final(&p, i) || !is_final(&q, i) || !s.cases[i].sane {
                        continue;
                    }
                    let c = &s.cases[i];
                    let ss = q.inputs[i].final_script_sig.clone().unwrap_or_default();
                    let wit: Vec<Vec<u8>> = q.inputs[i].final_script_witness.as_ref().map(|w| w.iter().map(|x| x.to_vec()).collect()).unwrap_or_default();
                    let sp = spend_of(&s, i);
                    let tr = match verify_input(&sp, ss.as_bytes(), &wit, true) {
                        Ok(t) => t,
                        Err(_) => continue,
                    };
                    bump(&mut cen, "psbt_nonmall_finalizations_searched");
                    let sigma = crate::sat::sigma_adv(c, &if tr.key_path { wit.clone() } else { tr.initial_stack.clone() });
                    for t in c.targets.iter() {
                        let e = crate::sat::all_witnesses(c, t, &sigma, &sp, 200_000);
                        if e.capped {
                            bump(&mut cen, "psbt_adversarial_search_capped");
                            continue;
                        }
                        for sol in e.solutions {
                            let (ass, awit) = crate::sat::wrap_solution(c, t, &sol.witness);
                            if ass == ss.as_bytes() && awit == wit {
                                continue;
                            }
                            if matches!(c.d, D::Pkh(_) | D::Wpkh(_) | D::ShWpkh(_) | D::Bare(_)) && sol.witness == tr.initial_stack {
                                continue;
                            }
                            if verify_input(&sp, &ass, &awit, true).is_ok() {
                                viol(
                                    format!("third-party-alternative-witness-{}", c.kind()),
                                    format!("{:?} finalized input {} in non-malleable mode, but a different witness built from public data and the visible signatures also spends it", a, i),
                                    &h2,
                                    json!({"finalized_witness": wit.iter().map(|x| hex(x)).collect::<Vec<_>>(), "alternative_witness": awit.iter().map(|x| hex(x)).collect::<Vec<_>>(), "alternative_script_sig": hex(&ass)}),
                                );
                            }
                        }
                    }
                }
            }
            // completeness: a finalize call that leaves an updated input non-final although the
            // PSBT's own signatures / preimages admit a witness for this transaction (malleable
            // variants: always; non-malleable variants: sane descriptor and every preimage present)
            if a.is_finalize() {
                let (targets, mall): (Vec<usize>, bool) = match a {
                    Act::Finalize => (vec![0, 1], false),
                    Act::FinalizeMall => (vec![0, 1], true),
                    Act::FinalizeInp(i) => (vec![*i], false),
                    Act::FinalizeInpMall(i) => (vec![*i], true),
                    _ => (vec![], false),
                };
                for i in targets {
                    if is_final(&q, i) || !(h2.contains(&Act::Update(i)) || h2.contains(&Act::UpdateNoOrigins(i))) {
                        continue;
                    }
                    let c = &s.cases[i];
                    let w = world_of_input(&s, &q, i);
                    // without key-origin records the finalizer knows a key behind a hash only through its signature
                    let origins = !q.inputs[i].bip32_derivation.is_empty() || !q.inputs[i].tap_key_origins.is_empty();
                    let known: Option<BTreeSet<String>> = if origins { None } else { Some(w.sigs.clone()) };
                    let all_pre = c.hash_labels().iter().all(|h| w.pre.contains(h));
                    if !(mall || (c.sane && all_pre)) {
                        continue;
                    }
                    bump(&mut cen, "completeness_checks");
                    let sr = crate::sat::witness_exists_known(c, &w, &spend_of(&s, i), 200_000, known.as_ref());
                    if sr.capped {
                        bump(&mut cen, "completeness_search_capped");
                        continue;
                    }
                    if let Some((ti, sol)) = sr.found {
                        // confirm concretely before accusing
                        let (ss, wit) = if sr.key_path {
                            (vec![], vec![crate::sat::key_path_sig(c, &spend_of(&s, i)).unwrap()])
                        } else {
                            crate::sat::wrap_solution(c, &c.targets[ti], &sol)
                        };
                        if verify_input(&spend_of(&s, i), &ss, &wit, true).is_ok() {
                            viol(
                                format!("finalize-fails-although-satisfiable-{}-{}", c.kind(), if mall { "mall" } else { "nonmall" }),
                                format!("{:?} leaves input {} non-final ({:?}) although the PSBT's own data admit a valid witness", a, i, r),
                                &h2,
                                json!({"witness": wit.iter().map(|x| hex(x)).collect::<Vec<_>>(), "script_sig": hex(&ss), "world": w.json()}),
                            );
                        }
                    } else {
                        bump(&mut cen, "finalize_failed_and_unsatisfiable");
                    }
                }
            }
            // idempotence
            if a.is_finalize() {
                if let Ok((q2, _)) = apply(&s, &q, a) {
                    if q2.serialize() != q.serialize() {
                        viol("finalize-not-idempotent".into(), format!("{:?} twice differs from once", a), &h2, json!(null));
                    }
                }
            }
            // update invariants
            if let Act::Update(i) = a {
                if cfg.name == "forged-utxo" || cfg.name == "forged-vout" {
                    // the two utxo fields disagree about the amount. Where the library notices is its
                    // choice (today: the update refuses); what C14 demands is that no history ends in a
                    // finalized input or extracted transaction that does not spend the real output -
                    // the signer below signs what the PSBT says, the RSM judges against the real output.
                    if r.is_ok() {
                        bump(&mut cen, "inconsistent_utxos_accepted_by_update");
                    } else {
                        bump(&mut cen, "inconsistent_utxos_refused");
                    }
                } else if r.is_ok() {
                    check_update_invariants(rep, &s, &q, *i, name, &mut cen);
                } else {
                    viol("update-refused".into(), format!("update_input_with_descriptor failed: {:?}", r), &h2, json!(null));
                }
            }
            // extract
            let all_final = is_final(&q, 0) && is_final(&q, 1);
            match guard(|| q.extract(SECP256K1)) {
                Ok(Ok(tx)) => {
                    bump(&mut cen, "extract_ok");
                    if !all_final {
                        viol("extract-succeeds-unfinalized".into(), "extract succeeded although not every input is final".into(), &h2, json!(null));
                    }
                    for i in 0..2 {
                        let wit: Vec<Vec<u8>> = tx.input[i].witness.iter().map(|x| x.to_vec()).collect();
                        if let Err(e) = verify_input(&spend_of(&s, i), tx.input[i].script_sig.as_bytes(), &wit, true) {
                            viol(format!("extracted-tx-invalid:{}", e), format!("input {} of the extracted transaction does not validate", i), &h2, json!(null));
                        } else {
                            bump(&mut cen, "extracted_inputs_validated");
                        }
                    }
                }
                Ok(Err(e)) => {
                    if all_final {
                        viol("extract-fails-finalized".into(), format!("all inputs final but extract fails: {}", e), &h2, json!(null));
                    }
                }
                Err(pn) => viol(format!("extract-panic@{}", panic_site(&pn)), pn, &h2, json!(null)),
            }
            // order independence of data actions
            if h2.iter().all(|x| !x.is_finalize()) {
                let set: BTreeSet<Act> = h2.iter().cloned().collect();
                let ser = q.serialize();
                if let Some(prev) = by_set.get(&set) {
                    if *prev != ser {
                        viol("order-dependence".into(), "the same set of update/add actions in another order gives a different PSBT".into(), &h2, json!(null));
                    }
                } else {
                    by_set.insert(set, ser);
                }
            }
            let ser = q.serialize();
            if !seen.contains_key(&ser) {
                seen.insert(ser, h2.len());
                queue.push_back((q, h2));
            }
        }
    }
    // finalization outcome must not depend on the order of the data actions: for every maximal
    // data set reached, finalize from each order produces the same result — implied by the
    // by_set functional map plus determinism of finalize on equal PSBT bytes.
    cen.insert("states", seen.len() as u64);
    if cut_by_depth == 0 {
        bump(&mut cen, "pairs_explored_to_closure");
    } else {
        bump(&mut cen, "pairs_cut_by_depth_bound");
    }
    cen.insert("data_action_sets", by_set.len() as u64);
    (cen, seen.len() as u64, transitions)
}

/// C02 on the PSBT path: every finalize variant fails only if no witness exists from the PSBT's
/// own data. Same histories as C14 (quick pairs + time-locked pairs under every transaction
/// parameter set), only the completeness invariant is reported.
pub fn completeness_for_c02(rep: &Report, tier: Tier) -> Census {
    let fam = family();
    let idx = |n: &str| fam.iter().position(|(x, _)| *x == n).unwrap();
    let pairs = [
        ("wpkh", "sh-multi"),
        ("wsh-hash-older", "tr-3leaves"),
        ("wsh-pkh", "pkh"),
        ("tr-1leaf", "wsh-after"),
        ("sh-wsh-sortedmulti", "bare-multi"),
        ("tr-key", "wsh-or-malleable"),
        ("sh-wpkh", "bare-pk"),
        ("wsh-or-older", "wsh-or-after"),
        ("tr-leaf-older", "wsh-or-after"),
        ("tr-leaf-pkh-or", "wsh-multi"),
    ];
    let depth = tier.pick(7, 9);
    let mut jobs: Vec<(String, [D; 2], TxCfg)> = pairs.iter().map(|(a, b)| (format!("{}+{}", a, b), [relabel(&fam[idx(a)].1, 0), relabel(&fam[idx(b)].1, 1)], CFG_DEFAULT)).collect();
    // an input with a final sequence next to one that keeps nLockTime enabled: after() is unusable for the first only
    let mixed = TxCfg { name: "mixed-finality", seq0_final: true, ..CFG_DEFAULT };
    jobs.push(("wsh-hash-kinds+tr-leaf-hash160".into(), [relabel(&fam[idx("wsh-hash-kinds")].1, 0), relabel(&fam[idx("tr-leaf-hash160")].1, 1)], CFG_DEFAULT));
    for (a, b) in [("wsh-andor-after", "wpkh"), ("wsh-or-after", "wsh-multi"), ("wsh-thresh-pkh", "wpkh")] {
        jobs.push((format!("{}+{}@mixed-finality", a, b), [relabel(&fam[idx(a)].1, 0), relabel(&fam[idx(b)].1, 1)], mixed));
        jobs.push((format!("{}+{}", a, b), [relabel(&fam[idx(a)].1, 0), relabel(&fam[idx(b)].1, 1)], CFG_DEFAULT));
    }
    // every transaction parameter set of C14: whether a locked branch is usable is the finalizer's own
    // reading of version / sequence / lock time, and the witness search reads the same transaction
    for (a, b) in [("wsh-or-older", "wsh-or-after"), ("tr-leaf-older", "wsh-hash-older")] {
        for cfg in CFGS_LOCKS {
            if cfg.name == "v2" {
                continue;
            }
            jobs.push((format!("{}+{}@{}", a, b, cfg.name), [relabel(&fam[idx(a)].1, 0), relabel(&fam[idx(b)].1, 1)], cfg));
        }
    }
    let results: Vec<(Census, u64, u64)> = jobs.par_iter().map(|(name, pair, cfg)| explore_pair_mode(rep, name, pair, depth, *cfg, 1)).collect();
    let mut cen = Census::new();
    for (c, _, _) in results {
        for k in ["completeness_checks", "completeness_search_capped", "finalize_failed_and_unsatisfiable", "inputs_finalized"] {
            if let Some(v) = c.get(k) {
                *cen.entry(match k {
                    "completeness_checks" => "psbt_completeness_checks",
                    "completeness_search_capped" => "psbt_completeness_search_capped",
                    "finalize_failed_and_unsatisfiable" => "psbt_finalize_failed_and_unsatisfiable",
                    _ => "psbt_inputs_finalized",
                })
                .or_insert(0) += *v;
            }
        }
    }
    cen
}

/// C03 on the PSBT path: non-malleable finalization of sane descriptors, also when the PSBT
/// carries the scripts but not the keys behind key hashes (UpdateNoOrigins), admits no third-party
/// alternative witness.
pub fn malleability_for_c03(rep: &Report, tier: Tier) -> Census {
    let fam = family();
    let idx = |n: &str| fam.iter().position(|(x, _)| *x == n).unwrap();
    let pairs = [("wsh-pk-pkh-older", "wpkh"), ("wsh-pkh-or", "wsh-hash-older"), ("tr-leaf-pkh-or", "wsh-or-older"), ("wsh-pkh", "sh-multi")];
    let depth = tier.pick(7, 8);
    let jobs: Vec<(String, [D; 2])> = pairs.iter().map(|(a, b)| (format!("{}+{}", a, b), [relabel(&fam[idx(a)].1, 0), relabel(&fam[idx(b)].1, 1)])).collect();
    let results: Vec<(Census, u64, u64)> = jobs.par_iter().map(|(name, pair)| explore_pair_mode(rep, name, pair, depth, CFG_DEFAULT, 2)).collect();
    let mut cen = Census::new();
    for (c, st, _) in results {
        for k in ["psbt_nonmall_finalizations_searched", "psbt_adversarial_search_capped"] {
            if let Some(v) = c.get(k) {
                *cen.entry(k).or_insert(0) += *v;
            }
        }
        *cen.entry("psbt_states").or_insert(0) += st;
    }
    cen
}

pub fn run(tier: Tier) -> i32 {
    let rep = Report::new("C14", tier);
    if let Err(e) = crate::kat::run_kats() {
        println!("MACHINERY: reference Script machine failed its known-answer tests: {}", e);
        return 2;
    }
    let fam = family();
    let mut pairs: Vec<(String, [D; 2])> = vec![];
    let idx = |n: &str| fam.iter().position(|(x, _)| *x == n).unwrap();
    let quick_pairs = [
        ("wpkh", "sh-multi"),
        ("wsh-hash-older", "tr-3leaves"),
        ("wsh-pkh", "pkh"),
        ("tr-1leaf", "wsh-after"),
        ("sh-wsh-sortedmulti", "bare-multi"),
        ("tr-key", "wsh-or-malleable"),
        ("sh-wpkh", "bare-pk"),
        ("wsh-multi", "wsh-multi"),
        ("wsh-hash-kinds", "tr-leaf-hash160"),
    ];
    if tier == Tier::Quick {
        for (a, b) in quick_pairs {
            pairs.push((format!("{}+{}", a, b), [relabel(&fam[idx(a)].1, 0), relabel(&fam[idx(b)].1, 1)]));
        }
    } else {
        for (a, da) in &fam {
            for (b, db) in &fam {
                pairs.push((format!("{}+{}", a, b), [relabel(da, 0), relabel(db, 1)]));
            }
        }
    }
    let depth = tier.pick(8, 9);
    let deep_depth = tier.pick(8, 12);
    // every job = (pair, history depth, transaction parameters)
    let mut jobs: Vec<(String, [D; 2], usize, TxCfg)> = vec![];
    for (name, pair) in &pairs {
        let d = if quick_pairs.iter().any(|(a, b)| *name == format!("{}+{}", a, b)) { deep_depth } else { depth };
        jobs.push((name.clone(), pair.clone(), d, CFG_DEFAULT));
    }
    // time-locked pairs under every transaction parameter set
    let lock_pairs = [("wsh-or-older", "wsh-or-after"), ("wsh-hash-older", "wsh-after"), ("tr-leaf-older", "wsh-or-after")];
    for (a, b) in lock_pairs {
        for cfg in CFGS_LOCKS {
            if tier == Tier::Thorough && cfg.name == "v2" {
                continue; // already among the default jobs
            }
            jobs.push((format!("{}+{}@{}", a, b, cfg.name), [relabel(&fam[idx(a)].1, 0), relabel(&fam[idx(b)].1, 1)], depth, cfg));
        }
    }
    // one input final, the other keeps nLockTime enabled: after() is unusable for the first input only
    let mixed = TxCfg { name: "mixed-finality", seq0_final: true, ..CFG_DEFAULT };
    for (a, b) in [("wsh-andor-after", "wpkh"), ("wsh-or-after", "wsh-or-older"), ("wsh-after", "wsh-or-after")] {
        jobs.push((format!("{}+{}@mixed-finality", a, b), [relabel(&fam[idx(a)].1, 0), relabel(&fam[idx(b)].1, 1)], depth, mixed));
    }
    // inputs that carry both utxo fields with different amounts
    let forged = TxCfg { name: "forged-utxo", ..CFG_DEFAULT };
    for (a, b) in [("wpkh", "wsh-multi"), ("sh-wpkh", "tr-1leaf"), ("sh-wsh-sortedmulti", "pkh")] {
        jobs.push((format!("{}+{}@forged-utxo", a, b), [relabel(&fam[idx(a)].1, 0), relabel(&fam[idx(b)].1, 1)], depth.min(6), forged));
    }
    // signatures made for another transaction: nothing that needs a signature may be finalized
    let stale = TxCfg { name: "stale-signatures", ..CFG_DEFAULT };
    for (a, b) in [("wpkh", "tr-key"), ("tr-1leaf", "wsh-multi"), ("tr-3leaves", "sh-wpkh"), ("pkh", "wsh-or-malleable")] {
        jobs.push((format!("{}+{}@stale-signatures", a, b), [relabel(&fam[idx(a)].1, 0), relabel(&fam[idx(b)].1, 1)], depth.min(6), stale));
    }
    {
        let mut c = Census::new();
        output_updates(&rep, &mut c);
        rep.merge_counts(&c);
    }
    // inputs whose outpoint names an index the funding transaction does not have
    let forged_vout = TxCfg { name: "forged-vout", ..CFG_DEFAULT };
    for (a, b) in [("wpkh", "wsh-multi"), ("sh-wpkh", "tr-1leaf"), ("pkh", "sh-multi")] {
        jobs.push((format!("{}+{}@forged-vout", a, b), [relabel(&fam[idx(a)].1, 0), relabel(&fam[idx(b)].1, 1)], depth.min(6), forged_vout));
    }
    rep.extra("bounds", json!({"pairs": pairs.len(), "jobs": jobs.len(), "history_depth": depth, "deep_depth_for_quick_pairs": deep_depth, "inputs": 2,
        "transaction_parameter_sets": CFGS_LOCKS.iter().map(|c| format!("{:?}", c)).collect::<Vec<_>>()}));
    let results: Vec<(Census, u64, u64)> = jobs
        .par_iter()
        .map(|(name, pair, d, cfg)| explore_pair(&rep, name, pair, *d, *cfg))
        .collect();
    let mut states = 0;
    let mut transitions = 0;
    for (c, s, t) in results {
        rep.merge_counts(&c);
        states += s;
        transitions += t;
    }
    rep.sample(json!({"history": ["Update(0)", "AddSig(0,P0K1)", "AddPreimage(0,'s',Q0H1)", "FinalizeInp(0)", "Finalize", "Extract"]}));
    rep.sample(json!({"pair": pairs[0].0}));
    rep.assume("two-input transactions; default parameters version 2, nLockTime 10, nSequence 5 for inputs with older(5) else 0xfffffffe; the time-locked pairs also under version 1, nSequence 4 / final / disable flag, nLockTime 9, time-based units; signatures SIGHASH_ALL / DEFAULT over the unsigned transaction");
    rep.finish(
        states,
        transitions,
        rep.get("finalized_inputs_validated") + rep.get("extracted_inputs_validated") + rep.get("sighash_msgs_confirmed"),
        transitions,
        rep.get("finalized_inputs_validated").min(rep.get("failing_finalize_calls")),
        "breadth-first search over ALL histories of update / add-signature / add-preimage / finalize / finalize_mall / finalize_inp / finalize_inp_mall (+ extract as observation) up to the depth bound on two-input PSBTs for each descriptor pair; states deduplicated by BIP174 serialisation; invariants: finalized inputs validate on the RSM, a finalize call fails only if no witness exists from the PSBT's own data (completeness; witness search on the RSM), final inputs never change, failing finalize leaves the input byte-identical, idempotence, result consistency, order independence of data actions, extract iff all final and validates, update records verifiable scripts / origins / taproot data, sighash_msg equals the independent digest. non-trivial = min(inputs finalized and validated, failing finalize calls)",
        true,
    )
}

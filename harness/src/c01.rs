//! C01 / C02 / C09 share one enumeration: descriptors x worlds x modes x production paths.
//!
//!  C01: every returned satisfaction (and, through hook H1, every node-level satisfaction /
//!       dissatisfaction) is replayed on the reference Script machine.
//!  C02: every refusal is checked by exhaustive witness search over the caller's alphabet.
//!  C09: every returned satisfaction is measured against the static figures.

use std::collections::BTreeMap;

use bitcoin::{absolute, relative, Sequence};
use miniscript::miniscript::satisfy::{Placeholder, Satisfaction, Witness};
use miniscript::plan::{Assets, CanSign};
use miniscript::{DefiniteDescriptorKey, Descriptor, Legacy, Miniscript, Segwitv0, Tap};
use rayon::prelude::*;
use serde_json::json;

use crate::ast::{build, walk, T};
use crate::common::*;
use crate::desc::D;
use crate::keys::{key, DefEnv, KeyForm};
use crate::rsm::{cast_bool, tapleaf_hash, verify_input, Exec, SigVer, St, TxChecker};
use crate::sat::*;
use crate::terms::{Alphabet, Cx, Terms};
use crate::world::{make_spend, worlds, SignCtx, World, WorldSat};

#[derive(Clone, Copy, PartialEq, Eq)]
pub enum Prop {
    C01,
    C02,
    C09,
}

type Census = BTreeMap<&'static str, u64>;
fn bump(c: &mut Census, k: &'static str) { *c.entry(k).or_insert(0) += 1; }
fn bump_n(c: &mut Census, k: &'static str, n: u64) { *c.entry(k).or_insert(0) += n; }

pub struct Bounds {
    pub n_seg: usize,
    pub n_shwsh: usize,
    pub n_leg: usize,
    pub n_tap: usize,
    pub n_part: usize,
    pub n_frag: usize,
    pub alpha: Alphabet,
}

pub fn bounds(prop: Prop, tier: Tier) -> Bounds {
    match (prop, tier) {
        (Prop::C02, Tier::Quick) => Bounds { n_seg: 5, n_shwsh: 3, n_leg: 4, n_tap: 4, n_part: 3, n_frag: 5, alpha: Alphabet::Small },
        (Prop::C02, Tier::Thorough) => Bounds { n_seg: 6, n_shwsh: 4, n_leg: 5, n_tap: 5, n_part: 4, n_frag: 6, alpha: Alphabet::Small },
        (_, Tier::Quick) => Bounds { n_seg: 5, n_shwsh: 4, n_leg: 4, n_tap: 4, n_part: 4, n_frag: 5, alpha: Alphabet::Small },
        (_, Tier::Thorough) => Bounds { n_seg: 6, n_shwsh: 5, n_leg: 6, n_tap: 6, n_part: 5, n_frag: 6, alpha: Alphabet::Small },
    }
}

pub fn assets_for(c: &DescCase, w: &World) -> Assets { assets_for_cap(c, w, CanSign::default()) }

pub fn assets_for_cap(c: &DescCase, w: &World, cs: CanSign) -> Assets {
    let mut a = Assets::new();
    for kl in &c.keys {
        if w.sigs.contains(kl) {
            let k = key(kl);
            a.keys.insert(((k.fingerprint, "m/7".parse().unwrap()), cs.clone()));
        }
    }
    for (kind, hl) in &c.hashes {
        if w.pre.contains(hl) {
            let b = crate::keys::hash_bytes(*kind, hl);
            use bitcoin::hashes::Hash;
            match kind {
                's' => {
                    a.sha256_preimages.insert(bitcoin::hashes::sha256::Hash::from_slice(&b).unwrap());
                }
                'd' => {
                    a.hash256_preimages.insert(miniscript::hash256::Hash::from_slice(&b).unwrap());
                }
                'r' => {
                    a.ripemd160_preimages.insert(bitcoin::hashes::ripemd160::Hash::from_slice(&b).unwrap());
                }
                _ => {
                    a.hash160_preimages.insert(bitcoin::hashes::hash160::Hash::from_slice(&b).unwrap());
                }
            }
        }
    }
    if w.locktime > 0 && w.sequence != 0xffff_ffff {
        a.absolute_timelock = Some(absolute::LockTime::from_consensus(w.locktime));
    }
    if let Some(r) = Sequence(w.sequence).to_relative_lock_time() {
        a.relative_timelock = Some(r);
    }
    a
}

fn rel_to_sequence(r: relative::LockTime) -> u32 { r.to_sequence().0 }

struct Measured {
    witness_items: usize,
    witness_bytes: usize,
    script_sig_bytes: usize,
}

fn measure(ss: &[u8], wit: &[Vec<u8>]) -> Measured {
    Measured { witness_items: wit.len(), witness_bytes: serialized_witness_size(wit), script_sig_bytes: ss.len() }
}

#[allow(clippy::too_many_arguments)]
fn check_one_desc(rep: &Report, prop: Prop, c: &DescCase, thorough: bool, cen: &mut Census) {
    let hl = c.hash_labels();
    let ws = worlds(&c.keys, &hl, &c.afters, &c.olders, thorough);
    let dsx = c.d.sexpr();
    // taproot signatures with an explicit sighash byte are one byte longer: C09 measures both kinds
    // (C09 is about upper bounds: the longer signature kind dominates the shorter one)
    let sig_kinds: &[bool] = if prop == Prop::C09 && matches!(c.d, D::Tr(..)) { &[true] } else { &[false] };
    // the P2SH wrapping of a segwit script adds a scriptSig and nothing else: sh(wsh(X)) is satisfied
    // exactly like wsh(X) (BIP143 digests do not commit to the previous scriptPubKey)
    let twin: Option<DescCase> = match (&c.d, prop) {
        (D::Wsh(t), Prop::C01) => crate::sat::prepare(&D::ShWsh(t.clone()), c.form).ok(),
        _ => None,
    };
    for (w, schnorr_all) in ws.iter().flat_map(|w| sig_kinds.iter().map(move |s| (w, *s))) {
        let spend = make_spend(c.spk.clone(), w.locktime, w.sequence);
        let sat = WorldSat { world: w, spend: &spend, sign: &c.sign, schnorr_all, lie_locks: false, cap: crate::world::SignCap::All };
        for mall in [false, true] {
            bump(cen, "evaluations");
            let mode = if mall { "mall" } else { "nonmall" };
            let r = guard(|| if mall { c.desc.get_satisfaction_mall(&sat) } else { c.desc.get_satisfaction(&sat) });
            if let (Some(tw), Ok(r0)) = (&twin, &r) {
                let r2 = guard(|| if mall { tw.desc.get_satisfaction_mall(&sat) } else { tw.desc.get_satisfaction(&sat) });
                let same = match (r0, &r2) {
                    (Ok((w0, _)), Ok(Ok((w2, ss2)))) => {
                        let mut redeem = vec![0x00u8, 0x20];
                        redeem.extend_from_slice(&bitcoin::hashes::Hash::to_byte_array(<bitcoin::hashes::sha256::Hash as bitcoin::hashes::Hash>::hash(&c.targets[0].script)));
                        let mut exp = vec![];
                        crate::ast::push_data_minimal(&redeem, &mut exp);
                        w0 == w2 && ss2.as_bytes() == &exp[..]
                    }
                    (Err(_), Ok(Err(_))) => true,
                    _ => false,
                };
                if same {
                    bump(cen, "sh_wsh_twins_equal");
                } else {
                    rep.violation(Violation {
                        key: format!("C01|sh-wsh-twin|{}|{}|{}", mode, dsx, w.short()),
                        class: "sh-wsh-differs-from-wsh".into(),
                        what: format!("sh(wsh(X)) is satisfied differently from wsh(X) ({}): wsh is_ok = {}, sh(wsh) = {:?}", mode, r0.is_ok(), r2.as_ref().map(|x| x.as_ref().map(|(w, s)| (w.iter().map(|i| hex(i)).collect::<Vec<_>>(), hex(s.as_bytes()))).map_err(|e| e.to_string()))),
                        case: json!({"desc": c.desc.to_string(), "model": dsx, "world": w.json(), "mode": mode}),
                    });
                }
            }
            let r = match r {
                Ok(r) => r,
                Err(p) => {
                    bump(cen, "lib_panic");
                    if prop == Prop::C01 {
                        rep.violation(Violation {
                            key: format!("C01|panic|{}|{}|{}|{}", panic_site(&p), mode, dsx, w.short()),
                            class: format!("satisfier-panic@{}", panic_site(&p)),
                            what: format!("get_satisfaction panicked: {}", p),
                            case: json!({"desc": c.desc.to_string(), "model": dsx, "world": w.json(), "mode": mode}),
                        });
                    }
                    if prop == Prop::C02 {
                        // for completeness a panic is a failure to produce a satisfaction
                        Err(miniscript::Error::CouldNotSatisfy)
                    } else {
                        continue;
                    }
                }
            };
            // Descriptor::satisfy is the same operation writing into a TxIn: same verdict, same data
            if prop == Prop::C01 && !mall {
                let mut txin = bitcoin::TxIn::default();
                match (guard(|| c.desc.satisfy(&mut txin, &sat)), &r) {
                    (Ok(Ok(())), Ok((w2, ss2))) => {
                        let got: Vec<Vec<u8>> = txin.witness.iter().map(|x| x.to_vec()).collect();
                        if &got != w2 || &txin.script_sig != ss2 {
                            rep.violation(Violation {
                                key: format!("C01|satisfy-txin|{}|{}", dsx, w.short()),
                                class: format!("satisfy-differs-from-get_satisfaction-{}", c.kind()),
                                what: "Descriptor::satisfy writes other data into the TxIn than get_satisfaction returns".into(),
                                case: json!({"desc": c.desc.to_string(), "model": dsx, "world": w.json(), "txin_witness": got.iter().map(|x| hex(x)).collect::<Vec<_>>(), "txin_script_sig": hex(txin.script_sig.as_bytes())}),
                            });
                        } else {
                            bump(cen, "satisfy_txin_equal");
                        }
                    }
                    (Ok(Err(_)), Err(_)) => bump(cen, "satisfy_txin_both_refuse"),
                    (Ok(a), b) => {
                        rep.violation(Violation {
                            key: format!("C01|satisfy-txin-verdict|{}|{}", dsx, w.short()),
                            class: format!("satisfy-verdict-differs-{}", c.kind()),
                            what: format!("Descriptor::satisfy is_ok = {} but get_satisfaction is_ok = {}", a.is_ok(), b.is_ok()),
                            case: json!({"desc": c.desc.to_string(), "model": dsx, "world": w.json()}),
                        });
                    }
                    (Err(p), _) => {
                        rep.violation(Violation {
                            key: format!("C01|panic|{}|satisfy|{}|{}", panic_site(&p), dsx, w.short()),
                            class: format!("satisfier-panic@{}", panic_site(&p)),
                            what: format!("Descriptor::satisfy panicked: {}", p),
                            case: json!({"desc": c.desc.to_string(), "model": dsx, "world": w.json()}),
                        });
                    }
                }
            }
            match r {
                Ok((witness, script_sig)) => {
                    bump(cen, "lib_ok");
                    let v = verify_input(&spend, script_sig.as_bytes(), &witness, true);
                    match (&v, prop) {
                        (Err(e), Prop::C01) => {
                            rep.violation(Violation {
                                key: format!("C01|direct|{}|{}|{}", mode, dsx, w.short()),
                                class: format!("direct-{}-rejected:{}", c.kind(), e),
                                what: format!("returned satisfaction does not validate: {}", e),
                                case: json!({"path": "get_satisfaction", "desc": c.desc.to_string(), "model": dsx,
                                    "world": w.json(), "mode": mode, "script_sig": hex(script_sig.as_bytes()),
                                    "witness": witness.iter().map(|x| hex(x)).collect::<Vec<_>>(), "rsm_error": e}),
                            });
                        }
                        (Ok(tr), _) => {
                            bump(cen, "sat_validated");
                            if !tr.trace.sigs.is_empty() {
                                bump(cen, "sat_validated_with_sig");
                            }
                            if !tr.trace.cltv.is_empty() || !tr.trace.csv.is_empty() {
                                bump(cen, "sat_validated_with_timelock");
                            }
                            if prop == Prop::C09 {
                                c09_measure(rep, c, w, mode, script_sig.as_bytes(), &witness, tr, cen);
                            }
                        }
                        _ => {}
                    }
                }
                Err(_) => {
                    bump(cen, "lib_refused");
                    if prop == Prop::C02 {
                        let applicable = mall || (c.sane && hl.iter().all(|h| w.pre.contains(h)));
                        if !applicable {
                            bump(cen, "refused_not_applicable");
                            continue;
                        }
                        let s = witness_exists(c, w, &spend, 400_000);
                        if std::env::var("MSVERIF_TOP").is_ok() && s.states > 20_000 {
                            eprintln!("TOP {} {} {}", s.states, dsx, w.short());
                        }
                        bump_n(cen, "rsm_states", s.states);
                        bump_n(cen, "rsm_transitions", s.transitions);
                        if s.capped {
                            rep.cap_hit(format!("witness search capped for {}", dsx));
                            bump(cen, "search_capped");
                            continue;
                        }
                        match s.found {
                            None => bump(cen, "refused_and_unsat"),
                            Some((ti, sol)) => {
                                // confirm on the concrete machine before accusing the library
                                let (ss, wit) = if s.key_path {
                                    (vec![], vec![key_path_sig(c, &spend).unwrap()])
                                } else {
                                    wrap_solution(c, &c.targets[ti], &sol)
                                };
                                match verify_input(&spend, &ss, &wit, true) {
                                    Ok(_) => {
                                        bump(cen, "refused_but_sat");
                                        rep.violation(Violation {
                                            key: format!("C02|{}|{}|{}", mode, dsx, w.short()),
                                            class: format!("refused-but-satisfiable-{}-{}", c.kind(), mode),
                                            what: "library refused but a witness from the caller's assets spends the output".into(),
                                            case: json!({"desc": c.desc.to_string(), "model": dsx, "world": w.json(), "mode": mode,
                                                "witness_found": wit.iter().map(|x| hex(x)).collect::<Vec<_>>(),
                                                "script_sig_found": hex(&ss), "sane": c.sane}),
                                        });
                                    }
                                    Err(e) => {
                                        rep.violation(Violation {
                                            key: format!("C02|rsm-inconsistent|{}|{}", dsx, w.short()),
                                            class: "machinery-rsm-inconsistent".into(),
                                            what: format!("explorer solution rejected by concrete run: {}", e),
                                            case: json!({"desc": c.desc.to_string(), "world": w.json()}),
                                        });
                                    }
                                }
                            }
                        }
                    }
                }
            }

            // ---- path (ii): plan ----
            if prop == Prop::C01 || prop == Prop::C09 {
                let assets = assets_for(c, w);
                let pr = guard(|| {
                    if mall {
                        c.desc.clone().into_plan_mall(&assets)
                    } else {
                        c.desc.clone().into_plan(&assets)
                    }
                });
                let plan = match pr {
                    Ok(Ok(p)) => p,
                    Ok(Err(_)) => {
                        bump(cen, "plan_refused");
                        continue;
                    }
                    Err(p) => {
                        bump(cen, "plan_panic");
                        let _ = p;
                        continue;
                    }
                };
                bump(cen, "plan_ok");
                let lt = plan.absolute_timelock.map(|l| l.to_consensus_u32()).unwrap_or(0);
                let seq = match plan.relative_timelock {
                    Some(r) => rel_to_sequence(r),
                    None => {
                        if plan.absolute_timelock.is_some() {
                            0xffff_fffe
                        } else {
                            0xffff_ffff
                        }
                    }
                };
                let spend2 = make_spend(c.spk.clone(), lt, seq);
                let w2 = World { sigs: w.sigs.clone(), pre: w.pre.clone(), locktime: lt, sequence: seq };
                let sat2 = WorldSat { world: &w2, spend: &spend2, sign: &c.sign, schnorr_all: false, lie_locks: false, cap: crate::world::SignCap::All };
                match guard(|| plan.satisfy(&sat2)) {
                    Ok(Ok((witness, script_sig))) => {
                        bump(cen, "plan_sat_ok");
                        match verify_input(&spend2, script_sig.as_bytes(), &witness, true) {
                            Ok(_) => {
                                bump(cen, "plan_sat_validated");
                                if prop == Prop::C09 {
                                    let m = measure(script_sig.as_bytes(), &witness);
                                    // scriptsig_size includes the varint prefix of the scriptSig
                                    let ss_with_len = m.script_sig_bytes + crate::rsm::compact_size(m.script_sig_bytes).len();
                                    let wsz = if m.witness_items == 0 { 0 } else { m.witness_bytes };
                                    let mut bad = vec![];
                                    if plan.witness_size() < wsz {
                                        bad.push(format!("witness_size {} < measured {}", plan.witness_size(), wsz));
                                    }
                                    if plan.scriptsig_size() < ss_with_len {
                                        bad.push(format!("scriptsig_size {} < measured {}", plan.scriptsig_size(), ss_with_len));
                                    }
                                    if plan.satisfaction_weight() < wsz + 4 * ss_with_len {
                                        bad.push(format!("satisfaction_weight {} < measured {}", plan.satisfaction_weight(), wsz + 4 * ss_with_len));
                                    }
                                    bump(cen, "plan_sizes_compared");
                                    // Known upstream behaviour pinned by the repo's own tests: for
                                    // wsh / sh(wsh) the witness script is not part of the template, so
                                    // witness_size() omits it. If that omission alone explains the
                                    // shortfall the case is keyed by its cause, not by its input.
                                    if !bad.is_empty() && matches!(c.d, D::Wsh(_) | D::ShWsh(_)) {
                                        let sl = c.targets[0].script.len();
                                        let script_part = crate::rsm::compact_size(sl).len() + sl;
                                        let ws2 = plan.witness_size() + script_part;
                                        if ws2 >= wsz && plan.scriptsig_size() >= ss_with_len
                                            && plan.satisfaction_weight() + script_part >= wsz + 4 * ss_with_len
                                        {
                                            bump(cen, "plan_wsh_script_omitted");
                                            rep.violation(Violation {
                                                key: "C09|plan-witness-size-omits-witness-script".into(),
                                                class: "plan-witness-size-omits-witness-script".into(),
                                                what: format!("Plan::witness_size()/satisfaction_weight() for wsh and sh(wsh) do not count the witness script itself (e.g. {}: {})", c.desc, bad.join("; ")),
                                                case: json!({"desc": c.desc.to_string(), "world": w.json(), "mode": mode}),
                                            });
                                            bad.clear();
                                        }
                                    }
                                    if !bad.is_empty() {
                                        rep.violation(Violation {
                                            key: format!("C09|plan|{}|{}|{}", mode, dsx, w.short()),
                                            class: format!("plan-size-undershoot-{}", c.kind()),
                                            what: bad.join("; "),
                                            case: json!({"desc": c.desc.to_string(), "world": w.json(), "mode": mode}),
                                        });
                                    }
                                }
                            }
                            Err(e) => {
                                if prop == Prop::C01 {
                                    rep.violation(Violation {
                                        key: format!("C01|plan|{}|{}|{}", mode, dsx, w.short()),
                                        class: format!("plan-{}-rejected:{}", c.kind(), e),
                                        what: format!("plan satisfaction does not validate with the reported locks: {}", e),
                                        case: json!({"path": "into_plan + Plan::satisfy", "desc": c.desc.to_string(), "model": dsx,
                                            "world": w.json(), "mode": mode, "nLockTime_used": lt, "nSequence_used": seq,
                                            "script_sig": hex(script_sig.as_bytes()),
                                            "witness": witness.iter().map(|x| hex(x)).collect::<Vec<_>>(), "rsm_error": e}),
                                    });
                                }
                            }
                        }
                    }
                    Ok(Err(_)) => bump(cen, "plan_sat_refused"),
                    Err(_) => bump(cen, "plan_sat_panic"),
                }
            }
        }
    }
}

impl DescCase {
    pub fn kind(&self) -> &'static str {
        match self.d {
            D::Bare(_) => "bare",
            D::Pkh(_) => "pkh",
            D::Wpkh(_) => "wpkh",
            D::ShWpkh(_) => "sh-wpkh",
            D::Sh(_) => "sh",
            D::Wsh(_) => "wsh",
            D::ShWsh(_) => "sh-wsh",
            D::Tr(..) => "tr",
        }
    }
}

#[allow(clippy::too_many_arguments)]
fn c09_measure(
    rep: &Report,
    c: &DescCase,
    w: &World,
    mode: &str,
    ss: &[u8],
    wit: &[Vec<u8>],
    tr: &crate::rsm::SpendTrace,
    cen: &mut Census,
) {
    let m = measure(ss, wit);
    let mut bad: Vec<String> = vec![];
    // weight delta of the TxIn: 4*(scriptSig bytes + change in its varint) + witness bytes
    let ss_varint = crate::rsm::compact_size(m.script_sig_bytes).len();
    // difference between the satisfied and the unsatisfied TxIn's segwit weight: the empty
    // scriptSig length byte and the empty witness count byte are already there.
    let measured_weight = 4 * (m.script_sig_bytes + ss_varint - 1) + m.witness_bytes - 1;
    match guard(|| c.desc.max_weight_to_satisfy()) {
        Ok(Ok(wt)) => {
            bump(cen, "weight_compared");
            if (wt.to_wu() as usize) < measured_weight {
                bad.push(format!("max_weight_to_satisfy {} < measured {}", wt.to_wu(), measured_weight));
            }
        }
        Ok(Err(_)) => bad.push("max_weight_to_satisfy is Err although a satisfaction exists".into()),
        Err(p) => bad.push(format!("max_weight_to_satisfy panicked {}", p)),
    }
    // miniscript-level figures
    fn ms_figs<Ctx: miniscript::ScriptContext>(
        ms: &Miniscript<DefiniteDescriptorKey, Ctx>,
        script_len: usize,
        items_excl_script: usize,
        stack_bytes: usize,
        ss_bytes: Option<usize>,
        trace: &crate::rsm::Trace,
        initial: usize,
        bad: &mut Vec<String>,
    ) {
        if ms.script_size() != script_len {
            bad.push(format!("script_size {} != {}", ms.script_size(), script_len));
        }
        if ms.ext.pk_cost != script_len {
            bad.push(format!("ext.pk_cost {} != {}", ms.ext.pk_cost, script_len));
        }
        match ms.ext.sat_data {
            None => bad.push("sat_data None although satisfiable".into()),
            Some(sd) => {
                if sd.max_witness_stack_count < items_excl_script {
                    bad.push(format!("max_witness_stack_count {} < {}", sd.max_witness_stack_count, items_excl_script));
                }
                if sd.max_witness_stack_size < stack_bytes {
                    bad.push(format!("max_witness_stack_size {} < {}", sd.max_witness_stack_size, stack_bytes));
                }
                if let Some(ssb) = ss_bytes {
                    if sd.max_script_sig_size < ssb {
                        bad.push(format!("max_script_sig_size {} < {}", sd.max_script_sig_size, ssb));
                    }
                }
                let extra_stack = trace.max_stack.saturating_sub(initial);
                // stack depth is not one of the figures C09 bounds directly; its limit
                // soundness is enforced by the RSM (1000-element rule). Informational only.
                let _ = (extra_stack, sd.max_exec_stack_count);
                if let Some(oc) = ms.ext.sat_data.map(|d| d.max_exec_op_count + ms.ext.static_ops) {
                    if oc < trace.op_count as usize {
                        bad.push(format!("sat_op_count {} < executed {}", oc, trace.op_count));
                    }
                }
            }
        }
        match ms.max_satisfaction_witness_elements() {
            Ok(n) => {
                if n < items_excl_script + 1 {
                    bad.push(format!("max_satisfaction_witness_elements {} < {}", n, items_excl_script + 1));
                }
            }
            Err(_) => bad.push("max_satisfaction_witness_elements Err".into()),
        }
    }
    let stack_bytes = |v: &[Vec<u8>]| v.iter().map(|e| crate::rsm::compact_size(e.len()).len() + e.len()).sum::<usize>();
    match &c.desc {
        Descriptor::Wsh(wsh) => {
            let items = &wit[..wit.len() - 1];
            ms_figs(wsh.as_inner(), tr.script.len(), items.len(), stack_bytes(items), None, &tr.trace, items.len(), &mut bad);
        }
        Descriptor::Sh(sh) => match sh.as_inner() {
            miniscript::descriptor::ShInner::Wsh(wsh) => {
                let items = &wit[..wit.len() - 1];
                ms_figs(wsh.as_inner(), tr.script.len(), items.len(), stack_bytes(items), None, &tr.trace, items.len(), &mut bad);
            }
            miniscript::descriptor::ShInner::Ms(ms) => {
                // scriptSig = pushes of items + push of redeem script
                let mut redeem_push = vec![];
                crate::ast::push_data_minimal(&tr.script, &mut redeem_push);
                let ss_items = ss.len() - redeem_push.len();
                ms_figs(ms, tr.script.len(), tr.initial_stack.len(), 0, Some(ss_items), &tr.trace, tr.initial_stack.len(), &mut bad);
            }
            _ => {}
        },
        Descriptor::Bare(b) => {
            ms_figs(b.as_inner(), tr.script.len(), tr.initial_stack.len(), 0, Some(ss.len()), &tr.trace, tr.initial_stack.len(), &mut bad);
        }
        Descriptor::Tr(t) => {
            if !tr.key_path {
                if let Some(leaf) = t.leaves().find(|l| l.miniscript().encode().as_bytes() == &tr.script[..]) {
                    let items = &wit[..wit.len() - 2];
                    ms_figs(leaf.miniscript().as_ref(), tr.script.len(), items.len(), stack_bytes(items), None, &tr.trace, items.len(), &mut bad);
                }
            }
        }
        _ => {}
    }
    bump(cen, "figures_compared");
    if !bad.is_empty() {
        rep.violation(Violation {
            key: format!("C09|{}|{}|{}", mode, c.d.sexpr(), w.short()),
            class: format!("static-figure-{}:{}", c.kind(), bad[0].split(' ').next().unwrap_or("")),
            what: bad.join("; "),
            case: json!({"desc": c.desc.to_string(), "model": c.d.sexpr(), "world": w.json(), "mode": mode,
                "script_sig": hex(ss), "witness": wit.iter().map(|x| hex(x)).collect::<Vec<_>>()}),
        });
    }
}

// ---------- H1: node-level satisfaction / dissatisfaction ----------

fn frag_check<Ctx: Cx>(
    rep: &Report,
    prop: Prop,
    ctxname: &'static str,
    te: &Terms<Ctx>,
    extra: &[T],
    sigver: SigVer,
    form: KeyForm,
    thorough: bool,
) -> Census {
    use miniscript::miniscript::types::Base;
    let mut all: Vec<T> = te.all().map(|m| walk(m).relabel_distinct()).collect();
    all.extend(extra.iter().cloned());
    all.par_iter()
        .fold(Census::new, |mut cen, t| {
            let env = DefEnv { form, with_origin: true };
            let ms = match build::<DefiniteDescriptorKey, Ctx>(t, &env) {
                Ok(m) => m,
                Err(_) => return cen,
            };
            let base = ms.ty.corr.base;
            let script = ms.encode().into_bytes();
            let lh = if sigver == SigVer::Tapscript {
                Some(bitcoin::taproot::TapLeafHash::from_byte_array(tapleaf_hash(0xc0, &script)))
            } else {
                None
            };
            use bitcoin::hashes::Hash;
            let sign = match sigver {
                SigVer::Tapscript => SignCtx::Taproot { merkle_root: None, internal_x: [0; 32] },
                sv => SignCtx::Ecdsa { script_code: script.clone(), sigver: sv },
            };
            let mut keys = t.keys();
            keys.sort();
            keys.dedup();
            let mut hl: Vec<String> = t.hashes().into_iter().map(|x| x.1).collect();
            hl.sort();
            hl.dedup();
            let spk = bitcoin::ScriptBuf::from_bytes({
                let mut v = vec![0x51, 0x20];
                v.extend_from_slice(&[7u8; 32]);
                v
            });
            let tsx = t.sexpr();
            for w in worlds(&keys, &hl, &t.afters(), &t.olders(), thorough) {
                let spend = make_spend(spk.clone(), w.locktime, w.sequence);
                let sat = WorldSat { world: &w, spend: &spend, sign: &sign, schnorr_all: false, lie_locks: false, cap: crate::world::SignCap::All };
                let public_only = w.sigs.is_empty() && w.pre.is_empty();
                if prop == Prop::C02 && !public_only {
                    // the node-level claim of C02 is about dissatisfactions from public data only
                    continue;
                }
                for mall in [false, true] {
                    bump(&mut cen, "frag_evaluations");
                    let mode = if mall { "mall" } else { "nonmall" };
                    let r = guard(|| {
                        let (s, d) = Satisfaction::<Placeholder<DefiniteDescriptorKey>>::verif_sat_dissat(&ms, &sat, mall, false, lh);
                        (s.try_completing(&sat), d.try_completing(&sat))
                    });
                    let (s, d) = match r {
                        Ok((Some(s), Some(d))) => (s, d),
                        Ok(_) => {
                            bump(&mut cen, "frag_incomplete_template");
                            continue;
                        }
                        Err(_) => {
                            bump(&mut cen, "frag_panic");
                            continue;
                        }
                    };
                    let chk = TxChecker::new(&spend, script.clone(), lh);
                    let ex = Exec::new(&script, sigver, true, &chk);
                    let sentinel = vec![0x53u8, 0x53];
                    let run_ops = |items: &Vec<Vec<u8>>| -> Result<(Vec<Vec<u8>>, u32), &'static str> {
                        let mut init = items.clone();
                        if base == Base::W {
                            init.push(sentinel.clone());
                        }
                        let mut st = St::new(init);
                        ex.run(&mut st)?;
                        Ok((st.stack, st.trace.op_count))
                    };
                    let run = |items: &Vec<Vec<u8>>| -> Result<Vec<Vec<u8>>, &'static str> { run_ops(items).map(|x| x.0) };
                    // result extraction by base type
                    let result_of = |fin: &Vec<Vec<u8>>| -> Result<Option<Vec<u8>>, String> {
                        match base {
                            Base::B | Base::K => {
                                if fin.len() == 1 {
                                    Ok(Some(fin[0].clone()))
                                } else {
                                    Err(format!("final stack has {} elements", fin.len()))
                                }
                            }
                            Base::V => {
                                if fin.is_empty() {
                                    Ok(None)
                                } else {
                                    Err(format!("V fragment left {} elements", fin.len()))
                                }
                            }
                            Base::W => {
                                if fin.len() == 2 && fin.contains(&sentinel) {
                                    let r = if fin[0] == sentinel { fin[1].clone() } else { fin[0].clone() };
                                    Ok(Some(r))
                                } else {
                                    Err(format!("W fragment: final stack {:?}", fin.iter().map(|x| hex(x)).collect::<Vec<_>>()))
                                }
                            }
                        }
                    };
                    // K fragments leave [sig key]; they are judged through their c: parents, which
                    // are terms of the same universe.
                    if base == Base::K {
                        bump(&mut cen, "frag_k_skipped");
                        continue;
                    }
                    // C09, node level: the per-node figures (ExtData sat_data / dissat_data) that the
                    // descriptor-level bounds are composed from must bound what the node-level
                    // satisfier returns for this node.
                    if prop == Prop::C09 {
                        let measure = |items: &Vec<Vec<u8>>| -> (usize, usize, usize) {
                            let wsize = items.iter().map(|e| crate::rsm::compact_size(e.len()).len() + e.len()).sum::<usize>();
                            let mut ss = vec![];
                            for e in items {
                                crate::sat::push_element(e, &mut ss);
                            }
                            (wsize, items.len(), ss.len())
                        };
                        for (which, st, data) in [("sat", &s.stack, ms.ext.sat_data), ("dissat", &d.stack, ms.ext.dissat_data)] {
                            if let Witness::Stack(items) = st {
                                bump(&mut cen, "frag_size_bounds_checked");
                                let (wsize, count, sssize) = measure(items);
                                let bad = match data {
                                    // no figure to compare with: the satisfier also knows dissatisfactions of
                                    // nodes that are not typed `d` (e.g. and_v); no parent composes them into
                                    // a bounded figure, the descriptor-level measurement covers their use.
                                    None => {
                                        bump(&mut cen, "frag_size_no_static_figure");
                                        None
                                    }
                                    Some(sd) => {
                                        let mut b = vec![];
                                        if sigver != SigVer::Base && wsize > sd.max_witness_stack_size {
                                            b.push(format!("witness bytes {} > max_witness_stack_size {}", wsize, sd.max_witness_stack_size));
                                        }
                                        // In malleable mode the satisfier may pick, on equal byte size, a
                                        // dissatisfaction through a branch the static analysis does not count as
                                        // dissatisfiable (e.g. and_v): the element count of a node-level
                                        // DISsatisfaction is therefore only compared in non-malleable mode; the
                                        // byte figures (what fees depend on) are compared in both.
                                        if count > sd.max_witness_stack_count {
                                            b.push(format!("elements {} > max_witness_stack_count {}", count, sd.max_witness_stack_count));
                                        }
                                        if sigver == SigVer::Base && sssize > sd.max_script_sig_size {
                                            b.push(format!("scriptSig bytes {} > max_script_sig_size {}", sssize, sd.max_script_sig_size));
                                        }
                                        // executed non-push opcodes of this node on this input (the 201 limit is
                                        // enforced from static_ops + max_exec_op_count; irrelevant in tapscript)
                                        if sigver != SigVer::Tapscript {
                                            if let Ok((_, ops)) = run_ops(items) {
                                                if ops as usize > ms.ext.static_ops + sd.max_exec_op_count {
                                                    b.push(format!("executed opcodes {} > static_ops {} + max_exec_op_count {}", ops, ms.ext.static_ops, sd.max_exec_op_count));
                                                }
                                            }
                                        }
                                        if b.is_empty() { None } else { Some(b.join("; ")) }
                                    }
                                };
                                if let Some(what) = bad {
                                    rep.violation(Violation {
                                        key: format!("C09|frag-size|{}|{}|{}|{}|{}", ctxname, which, mode, tsx, w.short()),
                                        class: format!("node-{}-exceeds-static-figure-{}-{}", which, ctxname, t.tag()),
                                        what,
                                        case: json!({"ctx": ctxname, "fragment": ms.to_string(), "model": tsx, "world": w.json(), "mode": mode, "which": which,
                                            "stack": items.iter().map(|x| hex(x)).collect::<Vec<_>>()}),
                                    });
                                }
                            }
                        }
                    }
                    if let Witness::Stack(items) = &s.stack {
                        bump(&mut cen, "frag_sat_returned");
                        let verdict = match run(items) {
                            Ok(fin) => match result_of(&fin) {
                                Ok(Some(r)) if base == Base::K => {
                                    if r.len() >= 32 {
                                        Ok(())
                                    } else {
                                        Err("K fragment did not leave a key".to_string())
                                    }
                                }
                                Ok(Some(r)) => {
                                    if cast_bool(&r) {
                                        Ok(())
                                    } else {
                                        Err("satisfaction leaves a false value".to_string())
                                    }
                                }
                                Ok(None) => Ok(()),
                                Err(e) => Err(e),
                            },
                            Err(e) => Err(format!("script aborts: {}", e)),
                        };
                        match verdict {
                            Ok(()) => bump(&mut cen, "frag_sat_validated"),
                            Err(e) => {
                                if prop == Prop::C01 {
                                    rep.violation(Violation {
                                        key: format!("C01|frag-sat|{}|{}|{}|{}", ctxname, mode, tsx, w.short()),
                                        class: format!("node-satisfaction-fails-{}-{}", ctxname, t.tag()),
                                        what: format!("node-level satisfaction does not satisfy the fragment: {}", e),
                                        case: json!({"ctx": ctxname, "fragment": ms.to_string(), "model": tsx, "world": w.json(), "mode": mode,
                                            "stack": items.iter().map(|x| hex(x)).collect::<Vec<_>>()}),
                                    });
                                }
                            }
                        }
                    }
                    match &d.stack {
                        Witness::Stack(items) if base == Base::B || base == Base::W => {
                            bump(&mut cen, "frag_dissat_returned");
                            let verdict = match run(items) {
                                Ok(fin) => match result_of(&fin) {
                                    Ok(Some(r)) => {
                                        if r.is_empty() {
                                            Ok(())
                                        } else {
                                            Err(format!("dissatisfaction leaves {} instead of the empty vector", hex(&r)))
                                        }
                                    }
                                    Ok(None) => Ok(()),
                                    Err(e) => Err(e),
                                },
                                Err(e) => Err(format!("script aborts: {}", e)),
                            };
                            match verdict {
                                Ok(()) => bump(&mut cen, "frag_dissat_validated"),
                                Err(e) => {
                                    if prop == Prop::C01 {
                                        rep.violation(Violation {
                                            key: format!("C01|frag-dissat|{}|{}|{}|{}", ctxname, mode, tsx, w.short()),
                                            class: format!("node-dissatisfaction-fails-{}-{}", ctxname, t.tag()),
                                            what: format!("node-level dissatisfaction is wrong: {}", e),
                                            case: json!({"ctx": ctxname, "fragment": ms.to_string(), "model": tsx, "world": w.json(), "mode": mode,
                                                "stack": items.iter().map(|x| hex(x)).collect::<Vec<_>>()}),
                                        });
                                    }
                                }
                            }
                        }
                        Witness::Stack(_) => {}
                        _ => {
                            // no dissatisfaction offered
                            if prop == Prop::C02 && public_only && mall && ms.ty.corr.dissatisfiable
                                && (base == Base::B || base == Base::W)
                            {
                                bump(&mut cen, "frag_d_without_dissat");
                                rep.violation(Violation {
                                    key: format!("C02|frag-no-dissat|{}|{}", ctxname, tsx),
                                    class: format!("dissatisfiable-node-without-dissatisfaction-{}", t.tag()),
                                    what: "type says dissatisfiable (d) but the satisfier offers no dissatisfaction from public data".into(),
                                    case: json!({"ctx": ctxname, "fragment": ms.to_string(), "model": tsx}),
                                });
                            }
                        }
                    }
                    if public_only && ms.ty.corr.dissatisfiable && (base == Base::B || base == Base::W) {
                        bump(&mut cen, "frag_d_checked");
                    }
                }
            }
            cen
        })
        .reduce(Census::new, |mut a, b| {
            for (k, v) in b {
                *a.entry(k).or_insert(0) += v;
            }
            a
        })
}

pub fn run(prop: Prop, tier: Tier) -> i32 {
    let name = match prop {
        Prop::C01 => "C01",
        Prop::C02 => "C02",
        Prop::C09 => "C09",
    };
    let rep = Report::new(name, tier);
    let kats = match crate::kat::run_kats() {
        Ok(n) => n,
        Err(e) => {
            println!("MACHINERY: reference Script machine failed its known-answer tests: {}", e);
            return 2;
        }
    };
    rep.count("rsm_kats_passed", kats);
    let b = bounds(prop, tier);
    let thorough = tier == Tier::Thorough;
    let u = universe(b.n_seg.max(b.n_frag), b.n_leg.max(b.n_frag), b.n_tap.max(b.n_frag), b.alpha);
    let models = crate::sat::descriptor_models_ctx(&u, b.n_seg, b.n_shwsh, b.n_leg, b.n_tap, b.n_part, b.n_seg - 1);
    rep.extra(
        "bounds",
        json!({"nodes": {"wsh": b.n_seg, "sh-wsh": b.n_shwsh, "sh": b.n_leg, "tr": b.n_tap, "fragments(H1)": b.n_frag},
            "duplicate-key partitions up to nodes": b.n_part,
            "term_levels": {"segwitv0": u.segwit.level_sizes(), "legacy": u.legacy.level_sizes(), "tap": u.tap.level_sizes()}}),
    );
    let n_models = models.len() as u64;
    let cen = models
        .par_iter()
        .fold(Census::new, |mut cen, d| {
            let forms: &[KeyForm] = match d {
                // multisigs over a mix of compressed and uncompressed keys (sorting and sizes see both forms)
                D::Sh(T::Multi(..)) | D::Sh(T::SortedMulti(..)) | D::Bare(T::Multi(..)) | D::Bare(T::SortedMulti(..)) => &[KeyForm::Compressed, KeyForm::Uncompressed, KeyForm::Mixed, KeyForm::MixedAlt],
                D::Sh(t) if t.size() <= 3 => &[KeyForm::Compressed, KeyForm::Uncompressed, KeyForm::Mixed],
                D::Bare(_) | D::Pkh(_) => &[KeyForm::Compressed, KeyForm::Uncompressed],
                D::Tr(_, l) if l.len() <= 1 && l.iter().all(|x| x.1.size() <= 3) => {
                    &[KeyForm::Compressed, KeyForm::XOnly]
                }
                _ => &[KeyForm::Compressed],
            };
            for form in forms {
                match guard(|| prepare(d, *form)) {
                    Ok(Ok(c)) => {
                        if prop == Prop::C02 && !thorough {
                            let wide_thresh = |t: &T| matches!(t, T::Thresh(_, v) if v.len() >= 4) || matches!(t, T::Multi(_, ks) | T::SortedMulti(_, ks) | T::MultiA(_, ks) | T::SortedMultiA(_, ks) if ks.len() >= 4);
                            let skip = match &c.d {
                                D::Wsh(t) | D::Sh(t) | D::ShWsh(t) => wide_thresh(t),
                                D::Tr(_, l) => l.iter().any(|x| wide_thresh(&x.1)),
                                _ => false,
                            };
                            if skip {
                                // thresholds / multisigs of 4 and more children: their refusals cost the most witness search; thorough tier
                                bump(&mut cen, "wide_thresholds_left_to_thorough");
                                continue;
                            }
                        }
                        if prop == Prop::C02 && c.keys.len() > 6 {
                            // wide multisigs: the witness-existence search does not scale; C01 / C09 / C13 / C17 cover them
                            bump(&mut cen, "wide_descriptors_skipped");
                            continue;
                        }
                        bump(&mut cen, "descriptors");
                        if c.sane {
                            bump(&mut cen, "descriptors_sane");
                        }
                        check_one_desc(&rep, prop, &c, thorough, &mut cen);
                    }
                    Ok(Err(_)) => bump(&mut cen, "descriptor_constructor_refused"),
                    Err(_) => bump(&mut cen, "descriptor_constructor_panic"),
                }
            }
            cen
        })
        .reduce(Census::new, |mut a, b| {
            for (k, v) in b {
                *a.entry(k).or_insert(0) += v;
            }
            a
        });
    rep.merge_counts(&cen);
    // H1 fragments (C09: node-level size figures)
    {
        let mut lim_seg = Terms { levels: u.segwit.levels[..=b.n_frag.min(u.segwit.levels.len() - 1)].to_vec(), attempted: 0, accepted: 0 };
        let mut lim_leg = Terms { levels: u.legacy.levels[..=b.n_frag.min(u.legacy.levels.len() - 1)].to_vec(), attempted: 0, accepted: 0 };
        let mut lim_tap = Terms { levels: u.tap.levels[..=b.n_frag.min(u.tap.levels.len() - 1)].to_vec(), attempted: 0, accepted: 0 };
        lim_seg.accepted = lim_seg.count() as u64;
        lim_leg.accepted = lim_leg.count() as u64;
        lim_tap.accepted = lim_tap.count() as u64;
        // every sub-term of the descriptor families that lie beyond the fragment bound (contexts,
        // macro fragments, wide thresholds): the node-level checks run on each of their nodes too
        let subterms = |pick: &dyn Fn(&D) -> Option<&T>| -> Vec<T> {
            let mut set: std::collections::BTreeSet<T> = std::collections::BTreeSet::new();
            for d in &models {
                if let Some(t) = pick(d) {
                    if t.size() > b.n_frag && t.keys().len() <= 6 {
                        for n in t.nodes() {
                            if n.size() > b.n_frag.min(3) {
                                set.insert(n.clone());
                            }
                        }
                    }
                }
            }
            set.into_iter().collect()
        };
        let ex_seg = subterms(&|d| if let D::Wsh(t) = d { Some(t) } else { None });
        let ex_leg = subterms(&|d| if let D::Sh(t) = d { Some(t) } else { None });
        let ex_tap = subterms(&|d| match d {
            D::Tr(_, l) if l.len() == 1 => Some(&l[0].1),
            _ => None,
        });
        rep.count("family_subterms_checked_at_node_level", (ex_seg.len() + ex_leg.len() + ex_tap.len()) as u64);
        let c1 = frag_check::<Segwitv0>(&rep, prop, "segwitv0", &lim_seg, &ex_seg, SigVer::WitnessV0, KeyForm::Compressed, thorough);
        rep.merge_counts(&c1);
        let c2 = frag_check::<Legacy>(&rep, prop, "legacy", &lim_leg, &ex_leg, SigVer::Base, KeyForm::Compressed, thorough);
        rep.merge_counts(&c2);
        let c3 = frag_check::<Tap>(&rep, prop, "tap", &lim_tap, &ex_tap, SigVer::Tapscript, KeyForm::XOnly, thorough);
        rep.merge_counts(&c3);
    }
    if prop == Prop::C02 {
        // the PSBT finalizer is a satisfier over the PSBT's own data: same completeness claim
        rep.merge_counts(&crate::c14::completeness_for_c02(&rep, tier));
    }
    // samples
    if let Some(d) = models.iter().rev().find(|d| matches!(d, D::Wsh(_))) {
        rep.sample(json!({"descriptor_model": d.sexpr(), "printed": d.print()}));
    }
    if let Some(d) = models.iter().rev().find(|d| matches!(d, D::Tr(_, l) if l.len() == 3)) {
        rep.sample(json!({"descriptor_model": d.sexpr(), "printed": d.print()}));
    }
    rep.assume("RSM implements DESIGN.md Appendix A (bound to reality by the BIP174 KAT, micro-vectors and brute-force cross-check run in the preamble)");
    rep.assume("secp256k1 and bitcoin::sighash::SighashCache are correct");
    rep.assume("transaction version 2, one input, SIGHASH_ALL / SIGHASH_DEFAULT signatures");
    let states = (u.segwit.count() + u.legacy.count() + u.tap.count()) as u64 + n_models + rep.get("rsm_states");
    let transitions = u.segwit.attempted + u.legacy.attempted + u.tap.attempted + rep.get("rsm_transitions");
    let (validated, nontrivial, rule) = match prop {
        Prop::C01 => (
            rep.get("sat_validated") + rep.get("plan_sat_validated") + rep.get("frag_sat_validated") + rep.get("frag_dissat_validated"),
            rep.get("sat_validated_with_sig") + rep.get("frag_dissat_validated"),
            "all B terms up to the node bounds in every descriptor wrapping (plus key-only forms, sortedmulti, bare forms, duplicate-key partitions, 2- and 3-leaf tap trees) x all key/preimage subsets x lock grid x {nonmall,mall} x {get_satisfaction, into_plan+Plan::satisfy}; plus every term of every base type through hook H1 (node-level sat/dissat executed on the fragment script). non-trivial = a returned satisfaction containing >=1 verified signature that the RSM accepted, or an executed dissatisfaction",
        ),
        Prop::C02 => (
            rep.get("refused_and_unsat") + rep.get("refused_but_sat"),
            rep.get("refused_and_unsat") + rep.get("frag_d_checked"),
            "same enumeration as C01; every library refusal (malleable mode: any descriptor; non-malleable: sane descriptors with all preimages known) is decided by exhaustive witness search of the RSM over the caller's alphabet; plus H1: every node typed d must offer a dissatisfaction from public data. non-trivial = refusals for which the explorer completed a full search",
        ),
        Prop::C09 => (
            rep.get("figures_compared") + rep.get("plan_sizes_compared"),
            rep.get("figures_compared"),
            "same enumeration as C01; every returned satisfaction is measured (script bytes, witness items/bytes, scriptSig bytes, TxIn weight delta, executed opcodes, peak stack) and compared with the static figures. non-trivial = satisfactions accepted by the RSM and measured",
        ),
    };
    rep.finish(states, transitions, validated, rep.get("evaluations") + rep.get("frag_evaluations"), nontrivial, rule, true)
}

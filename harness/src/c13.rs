//! C13 — the transaction interpreter agrees with real script execution.

use std::collections::BTreeMap;

use bitcoin::hashes::Hash;
use bitcoin::sighash::Prevouts;
use bitcoin::{absolute, ScriptBuf, Sequence, Witness};
use miniscript::interpreter::{HashLockType, Interpreter, KeySigPair, SatisfiedConstraint};
use miniscript::policy::Liftable;
use rayon::prelude::*;
use secp256k1::SECP256K1;
use serde_json::json;

use crate::ast::op::*;
use crate::c01::{bounds, Prop};
use crate::common::*;
use crate::desc::D;
use crate::keys::{key, key_by_bytes, KeyForm};
use crate::policy::{walk_semantic, P};
use crate::rsm::{parse_script, verify_input, Op, SigVer, Spend, SpendTrace};
use crate::sat::*;
use crate::world::{ecdsa_sig_for, make_spend, schnorr_leaf_sig_for, worlds, World, WorldSat};

type Census = BTreeMap<&'static str, u64>;
fn bump(c: &mut Census, k: &'static str) { *c.entry(k).or_insert(0) += 1; }

/// Canonical constraint set, as sorted strings.
fn interp_constraints(cs: &[SatisfiedConstraint]) -> Vec<String> {
    let mut v: Vec<String> = cs
        .iter()
        .map(|c| match c {
            SatisfiedConstraint::PublicKey { key_sig } | SatisfiedConstraint::PublicKeyHash { key_sig, .. } => {
                match key_sig {
                    KeySigPair::Ecdsa(pk, sig) => format!("sig:{}:{}", hex(&pk.to_bytes()), hex(&sig.to_vec())),
                    KeySigPair::Schnorr(pk, sig) => format!("sig:{}:{}", hex(&pk.serialize()), hex(&sig.to_vec())),
                }
            }
            SatisfiedConstraint::HashLock { hash, preimage } => match hash {
                HashLockType::Sha256(h) => format!("hash:a8:{}:{}", hex(&h.to_byte_array()), hex(preimage)),
                HashLockType::Hash256(h) => format!("hash:aa:{}:{}", hex(&h.to_byte_array()), hex(preimage)),
                HashLockType::Hash160(h) => format!("hash:a9:{}:{}", hex(&h.to_byte_array()), hex(preimage)),
                HashLockType::Ripemd160(h) => format!("hash:a6:{}:{}", hex(&h.to_byte_array()), hex(preimage)),
            },
            SatisfiedConstraint::RelativeTimelock { n } => format!("older:{}", n.to_consensus_u32()),
            SatisfiedConstraint::AbsoluteTimelock { n } => format!("after:{}", n.to_consensus_u32()),
        })
        .collect();
    v.sort();
    v
}

fn rsm_constraints(tr: &SpendTrace) -> Vec<String> {
    let mut v: Vec<String> = vec![];
    for (pk, sig) in &tr.trace.sigs {
        v.push(format!("sig:{}:{}", hex(pk), hex(sig)));
    }
    for (op, pre, dig) in &tr.trace.hashes {
        if pre.len() == 32 && key_by_bytes(pre).is_none() {
            v.push(format!("hash:{:02x}:{}:{}", op, hex(dig), hex(pre)));
        }
    }
    for n in &tr.trace.csv {
        // the interpreter reports a relative lock as a lock time (16-bit value + unit); bits that
        // BIP 68 ignores are not part of the satisfied constraint
        v.push(format!("older:{}", (*n as u32) & 0x0040_ffff));
    }
    for n in &tr.trace.cltv {
        v.push(format!("after:{}", n));
    }
    v.sort();
    v
}

fn elements_of_script_sig(ss: &[u8]) -> Option<Vec<Vec<u8>>> {
    let mut out = vec![];
    for o in parse_script(ss) {
        match o {
            Op::Push { data, .. } => out.push(data),
            Op::Code(c) if c == OP_1NEGATE => out.push(vec![0x81]),
            Op::Code(c) if (OP_1..=OP_16).contains(&c) => out.push(vec![c - 0x50]),
            _ => return None,
        }
    }
    Some(out)
}

fn script_sig_of_elements(e: &[Vec<u8>]) -> Vec<u8> {
    let mut out = vec![];
    for x in e {
        push_element(x, &mut out);
    }
    out
}

/// All single mutations (and, if `pairs`, all pairs) of an element vector.
fn mutations(orig: &[Vec<u8>], extra: &[Vec<u8>], pairs: bool) -> Vec<Vec<Vec<u8>>> {
    fn singles(v: &[Vec<u8>], extra: &[Vec<u8>]) -> Vec<Vec<Vec<u8>>> {
        let mut out = vec![];
        for i in 0..v.len() {
            let mut d = v.to_vec();
            d.remove(i);
            out.push(d);
            let mut d = v.to_vec();
            d.insert(i, v[i].clone());
            out.push(d);
            if i + 1 < v.len() {
                let mut d = v.to_vec();
                d.swap(i, i + 1);
                out.push(d);
            }
            for r in [vec![], vec![1u8], vec![0u8; 32], vec![0x33u8; 20]].iter().chain(extra.iter()) {
                if *r != v[i] {
                    let mut d = v.to_vec();
                    d[i] = r.clone();
                    out.push(d);
                }
            }
        }
        // one extra element at every position (bottom, every gap, top)
        for r in [vec![], vec![1u8]] {
            for i in 0..=v.len() {
                let mut d = v.to_vec();
                d.insert(i, r.clone());
                out.push(d);
            }
        }
        out
    }
    let s1 = singles(orig, extra);
    let mut out = s1.clone();
    if pairs {
        for m in &s1 {
            if m.len() <= 6 {
                out.extend(singles(m, extra));
            }
        }
    }
    out.sort();
    out.dedup();
    out.retain(|m| m != orig);
    out
}

struct Cand {
    ss: Vec<u8>,
    wit: Vec<Vec<u8>>,
    unmutated: bool,
}

fn run_interp(
    c: &DescCase,
    spend: &Spend,
    cand: &Cand,
) -> Result<Result<(Vec<SatisfiedConstraint>, Option<ScriptBuf>), String>, String> {
    let spk = c.spk.clone();
    let ss = ScriptBuf::from_bytes(cand.ss.clone());
    let wit = Witness::from_slice(&cand.wit);
    let seq = spend.tx.input[0].sequence;
    let lt = spend.tx.lock_time;
    guard(|| {
        let interp = Interpreter::from_txdata(&spk, &ss, &wit, seq, lt).map_err(|e| e.to_string())?;
        let prevouts = Prevouts::All(&spend.prevouts);
        let mut out = vec![];
        for r in interp.iter(SECP256K1, &spend.tx, 0, &prevouts) {
            match r {
                Ok(x) => out.push(x),
                Err(e) => return Err(e.to_string()),
            }
        }
        let inferred = interp.inferred_descriptor().ok().map(|d| d.script_pubkey());
        Ok((out, inferred))
    })
}

fn policy_true_with(c: &DescCase, lifted: &P, constraints: &[String], spend: &Spend) -> bool {
    // a world holding exactly the reported constraints
    let mut w = World {
        sigs: Default::default(),
        pre: Default::default(),
        locktime: spend.tx.lock_time.to_consensus_u32(),
        sequence: spend.tx.input[0].sequence.0,
    };
    for s in constraints {
        let parts: Vec<&str> = s.split(':').collect();
        match parts[0] {
            "sig" => {
                if let Some(k) = key_by_bytes(&unhex(parts[1])) {
                    w.sigs.insert(k.label.clone());
                } else if let D::Tr(ik, _) = &c.d {
                    // a key-path spend is reported with the (tweaked) output key
                    if c.spk.as_bytes()[2..] == unhex(parts[1])[..] {
                        w.sigs.insert(ik.clone());
                    }
                }
            }
            "hash" => {
                for (_, l) in &c.hashes {
                    if hex(&crate::keys::preimage(l)) == parts[3] {
                        w.pre.insert(l.clone());
                    }
                }
            }
            _ => {}
        }
    }
    // time locks: only those reported count
    let olders: Vec<u32> = constraints.iter().filter_map(|s| s.strip_prefix("older:").and_then(|x| x.parse().ok())).collect();
    let afters: Vec<u32> = constraints.iter().filter_map(|s| s.strip_prefix("after:").and_then(|x| x.parse().ok())).collect();
    let env = crate::keys::DefEnv { form: c.form, with_origin: true };
    use crate::ast::Env;
    let key_of: BTreeMap<String, String> = c.keys.iter().map(|l| (env.pk(l).to_string(), l.clone())).collect();
    lifted.eval(&|atom: &P| match atom {
        P::Key(k) => key_of.get(k).map(|l| w.sigs.contains(l)).unwrap_or(false),
        P::After(n) => afters.contains(n),
        P::Older(n) => olders.contains(&(n & 0x0040_ffff)),
        P::Sha256(_) | P::Hash256(_) | P::Ripemd160(_) | P::Hash160(_) => {
            // reuse C07's matcher through a world without lock constraints
            crate::c07::eval_in_world(atom, c, &w, spend)
        }
        _ => false,
    })
}

fn check_desc(rep: &Report, c: &DescCase, thorough: bool, cen: &mut Census) {
    if !c.sane {
        return;
    }
    let lifted = match guard(|| c.desc.lift()) {
        Ok(Ok(p)) => Some(walk_semantic(&p)),
        _ => None,
    };
    let hl = c.hash_labels();
    let dsx = c.d.sexpr();
    let form = script_key_form(c);
    for w in worlds(&c.keys, &hl, &c.afters, &c.olders, thorough) {
        let spend = make_spend(c.spk.clone(), w.locktime, w.sequence);
        let sat = WorldSat { world: &w, spend: &spend, sign: &c.sign, schnorr_all: false, lie_locks: false, cap: crate::world::SignCap::All };
        for mall in [false, true] {
            let (witness, script_sig) = match guard(|| if mall { c.desc.get_satisfaction_mall(&sat) } else { c.desc.get_satisfaction(&sat) }) {
                Ok(Ok(x)) => x,
                _ => continue,
            };
            bump(cen, "library_satisfactions");
            // extra replacement elements: another key's valid signature for the executed script
            let mut extra: Vec<Vec<u8>> = vec![];
            if let Some(t) = c.targets.first() {
                for kl in c.keys.iter().take(2) {
                    match t.sigver {
                        SigVer::Tapscript => {
                            let leaves = c.tap_leaves();
                            let lh = bitcoin::taproot::TapLeafHash::from_byte_array(crate::rsm::tapleaf_hash(0xc0, &leaves[0].1));
                            extra.push(schnorr_leaf_sig_for(key(kl), &spend, lh, 0));
                        }
                        sv => extra.push(ecdsa_sig_for(key(kl), &spend, &t.script, sv)),
                    }
                }
                extra.push(key_ser(&c.keys[0], form));
            }
            let mut cands = vec![Cand { ss: script_sig.as_bytes().to_vec(), wit: witness.clone(), unmutated: true }];
            // a satisfaction fabricated by a caller that ignores the time locks of this very
            // transaction: valid signatures, possibly unmet CLTV / CSV
            if !c.afters.is_empty() || !c.olders.is_empty() {
                let liar = WorldSat { world: &w, spend: &spend, sign: &c.sign, schnorr_all: false, lie_locks: true, cap: crate::world::SignCap::All };
                if let Ok(Ok((w2, s2))) = guard(|| if mall { c.desc.get_satisfaction_mall(&liar) } else { c.desc.get_satisfaction(&liar) }) {
                    if w2 != witness || s2 != script_sig {
                        bump(cen, "candidates_with_ignored_timelocks");
                        cands.push(Cand { ss: s2.as_bytes().to_vec(), wit: w2, unmutated: false });
                    }
                }
            }
            if !witness.is_empty() {
                for m in mutations(&witness, &extra, thorough) {
                    cands.push(Cand { ss: script_sig.as_bytes().to_vec(), wit: m, unmutated: false });
                }
            }
            if !script_sig.is_empty() && witness.is_empty() {
                if let Some(el) = elements_of_script_sig(script_sig.as_bytes()) {
                    for m in mutations(&el, &extra, thorough) {
                        if m.iter().all(|e| e.len() <= 520) {
                            cands.push(Cand { ss: script_sig_of_elements(&m), wit: vec![], unmutated: false });
                        }
                    }
                }
            }
            // nested segwit: the scriptSig (redeem script push) mutated under the unchanged witness
            if !script_sig.is_empty() && !witness.is_empty() {
                if let Some(el) = elements_of_script_sig(script_sig.as_bytes()) {
                    for m in mutations(&el, &extra, thorough) {
                        if m.iter().all(|e| e.len() <= 520) {
                            cands.push(Cand { ss: script_sig_of_elements(&m), wit: witness.clone(), unmutated: false });
                        }
                    }
                }
            }
            for cand in &cands {
                bump(cen, "evaluations");
                let r = match run_interp(c, &spend, cand) {
                    Ok(r) => r,
                    Err(p) => {
                        bump(cen, "interpreter_panic");
                        rep.violation(Violation {
                            key: format!("C13|panic|{}|{}", panic_site(&p), dsx),
                            class: format!("interpreter-panic@{}", panic_site(&p)),
                            what: p,
                            case: json!({"desc": c.desc.to_string(), "world": w.json(), "script_sig": hex(&cand.ss),
                                "witness": cand.wit.iter().map(|x| hex(x)).collect::<Vec<_>>()}),
                        });
                        continue;
                    }
                };
                let case = || {
                    json!({"desc": c.desc.to_string(), "model": dsx, "world": w.json(), "mutated": !cand.unmutated,
                        "script_sig": hex(&cand.ss), "witness": cand.wit.iter().map(|x| hex(x)).collect::<Vec<_>>()})
                };
                let ckey = |tag: &str| {
                    format!("C13|{}|{}|{}|{}|{}", tag, dsx, w.short(), hex(&cand.ss), cand.wit.iter().map(|x| hex(x)).collect::<Vec<_>>().join(","))
                };
                match r {
                    Err(e) => {
                        bump(cen, "interpreter_rejected");
                        if cand.unmutated {
                            // (c) library satisfactions of sane descriptors must be accepted
                            if verify_input(&spend, &cand.ss, &cand.wit, false).is_ok() {
                                rep.violation(Violation {
                                    key: ckey("rejects-own"),
                                    class: format!("interpreter-rejects-library-satisfaction-{}", c.kind()),
                                    what: format!("interpreter error on the library's own (valid) satisfaction: {}", e),
                                    case: case(),
                                });
                            }
                        }
                    }
                    Ok((cons, inferred)) => {
                        bump(cen, "interpreter_accepted");
                        if !cand.unmutated {
                            bump(cen, "interpreter_accepted_mutated");
                        }
                        match verify_input(&spend, &cand.ss, &cand.wit, false) {
                            Err(e) => {
                                rep.violation(Violation {
                                    key: ckey("accepts-invalid"),
                                    class: format!("interpreter-accepts-invalid-spend-{}:{}", c.kind(), e),
                                    what: format!("interpreter accepts but script execution (consensus rules) fails: {}", e),
                                    case: case(),
                                });
                            }
                            Ok(tr) => {
                                bump(cen, "both_accept");
                                let a = interp_constraints(&cons);
                                let b = rsm_constraints(&tr);
                                if a != b {
                                    rep.violation(Violation {
                                        key: ckey("constraints"),
                                        class: format!("satisfied-constraints-differ-{}", c.kind()),
                                        what: format!("interpreter reports {:?}; executed path checked {:?}", a, b),
                                        case: case(),
                                    });
                                } else {
                                    bump(cen, "constraints_equal");
                                    if !a.is_empty() {
                                        bump(cen, "constraints_equal_nonempty");
                                    }
                                }
                                if let Some(l) = &lifted {
                                    if !policy_true_with(c, l, &a, &spend) {
                                        rep.violation(Violation {
                                            key: ckey("policy"),
                                            class: format!("reported-constraints-do-not-satisfy-policy-{}", c.kind()),
                                            what: format!("constraints {:?} do not satisfy lifted policy", a),
                                            case: case(),
                                        });
                                    }
                                }
                                match inferred {
                                    Some(s) if s == c.spk => bump(cen, "inferred_descriptor_matches"),
                                    // Not part of C13's statement (the text round trip of raw key
                                    // hashes is judged by C10); informational only.
                                    Some(_) => bump(cen, "inferred_descriptor_spk_differs"),
                                    None => bump(cen, "inferred_descriptor_unavailable"),
                                }
                            }
                        }
                    }
                }
            }
        }
    }
}

pub fn run(tier: Tier) -> i32 {
    let rep = Report::new("C13", tier);
    match crate::kat::run_kats() {
        Ok(n) => rep.count("rsm_kats_passed", n),
        Err(e) => {
            println!("MACHINERY: reference Script machine failed its known-answer tests: {}", e);
            return 2;
        }
    }
    let mut b = bounds(Prop::C02, tier);
    if tier == Tier::Quick {
        b.n_seg = 4;
        b.n_leg = 4;
        b.n_tap = 4;
    } else {
        b.n_seg = 5;
        b.n_leg = 5;
        b.n_tap = 5;
    }
    let thorough = tier == Tier::Thorough;
    let u = universe(b.n_seg, b.n_leg, b.n_tap, b.alpha);
    let models = descriptor_models(&u, b.n_seg, b.n_shwsh.min(b.n_seg), b.n_leg, b.n_tap, 0);
    rep.extra("bounds", json!({"nodes": {"wsh": b.n_seg, "sh": b.n_leg, "tr": b.n_tap}, "pair_mutations": thorough}));
    let cen = models
        .par_iter()
        .fold(Census::new, |mut cen, d| {
            let forms: &[KeyForm] = match d {
                D::Sh(crate::ast::T::Multi(..)) | D::Sh(crate::ast::T::SortedMulti(..)) | D::Bare(crate::ast::T::SortedMulti(..)) => &[KeyForm::Compressed, KeyForm::Uncompressed, KeyForm::Mixed, KeyForm::MixedAlt],
                D::Sh(t) if t.size() <= 3 => &[KeyForm::Compressed, KeyForm::Uncompressed],
                D::Bare(_) | D::Pkh(_) => &[KeyForm::Compressed, KeyForm::Uncompressed],
                _ => &[KeyForm::Compressed],
            };
            for f in forms {
                if let Ok(Ok(c)) = guard(|| prepare(d, *f)) {
                    if c.keys.len() > 8 && !thorough {
                        // 15..20-key multisigs only in the thorough tier (mutation count x worlds)
                        bump(&mut cen, "wide_descriptors_left_to_thorough");
                        continue;
                    }
                    if c.sane {
                        bump(&mut cen, "sane_descriptors");
                    }
                    check_desc(&rep, &c, thorough, &mut cen);
                }
            }
            cen
        })
        .reduce(Census::new, |mut a, b| {
            for (k, v) in b {
                *a.entry(k).or_insert(0) += v;
            }
            a
        });
    rep.merge_counts(&cen);
    rep.sample(json!({"mutations": "each element dropped / duplicated / swapped with neighbour / replaced by [], [1], 0^32, 20 junk bytes, another key's valid signature, a public key; one extra element at bottom/top; thorough: all pairs"}));
    if let Some(d) = models.iter().rev().find(|d| matches!(d, D::Wsh(_))) {
        rep.sample(json!({"descriptor_model": d.sexpr()}));
    }
    rep.assume("transaction version 2 (the interpreter API has no version input)");
    rep.assume("RSM run with consensus flags is the reference for 'real script execution'");
    let states = (u.segwit.count() + u.legacy.count() + u.tap.count()) as u64 + rep.get("evaluations");
    let transitions = u.segwit.attempted + u.legacy.attempted + u.tap.attempted + rep.get("evaluations");
    rep.finish(
        states,
        transitions,
        rep.get("both_accept"),
        rep.get("evaluations"),
        rep.get("constraints_equal_nonempty") + rep.get("interpreter_accepted_mutated"),
        "all sane descriptors up to the node bounds x all worlds x both satisfier modes: the library's satisfaction and EVERY single mutation of its witness / scriptSig elements are given to the interpreter and to the RSM (consensus flags). non-trivial = accepted spends with a non-empty constraint set that matched, plus accepted mutated spends",
        true,
    )
}

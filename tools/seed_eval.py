#!/usr/bin/env python3
"""Evaluate one seeded property-breaking change.

usage: seed_eval.py confirm <seed-id> <worktree> <src-dir>     # step 1: confirm the claim in a scratch worktree
       seed_eval.py detect  <seed-id> [--tier quick] [checks…]  # step 2: apply to /repo, run checks, undo

`confirm` works only inside the given scratch worktree (outside /repo and /verif):
   - resets src/, applies patch.diff, copies the demonstration to tests/seeded_demo.rs
   - runs the repository's whole test suite (the demonstration excluded): must pass
   - runs the demonstration: must fail
   - reverts the patch, runs the demonstration: must pass
and copies patch.diff + seeded_demo.rs + notes into /verif/seeded/<seed-id>/ with meta.json.

`detect` applies /verif/seeded/<seed-id>/patch.diff to /repo (never committed), runs the named
checks (default: all 20) and always undoes the change (`git -C /repo checkout -- .`).
The result is recorded in /verif/seeded/<seed-id>/detection.json.
"""
import json, os, re, subprocess, sys, time, shutil

VERIF = "/verif"
REPO = "/repo"
ENV = dict(os.environ, CARGO_NET_OFFLINE="true")


def sh(cmd, cwd=None, timeout=None):
    p = subprocess.run(cmd, shell=True, cwd=cwd, env=ENV, stdout=subprocess.PIPE, stderr=subprocess.STDOUT, text=True, timeout=timeout)
    return p.returncode, p.stdout


def confirm(seed, wt, src):
    assert wt.startswith("/tmp/"), "scratch worktrees live outside /repo and /verif"
    out = f"{VERIF}/seeded/{seed}"
    os.makedirs(out, exist_ok=True)
    patch = f"{src}/patch.diff"
    demo = f"{src}/seeded_demo.rs"
    res = {"seed": seed}
    sh("git checkout -- . && git clean -fdq tests src", cwd=wt)
    rc, o = sh(f"git apply --check {patch} && git apply {patch}", cwd=wt)
    if rc != 0:
        print("patch does not apply:", o); return 2
    rc, o = sh("git diff --stat", cwd=wt)
    res["diffstat"] = o.strip().splitlines()
    only_src = all(l.strip().startswith("src/") for l in o.strip().splitlines()[:-1])
    res["touches_only_src"] = only_src
    # suite with the change, demonstration not yet present
    t = time.time()
    rc, o = sh("cargo test --workspace --no-fail-fast --offline 2>&1", cwd=wt, timeout=3600)
    passed = sum(int(m) for m in re.findall(r"test result: ok\. (\d+) passed", o))
    failed = sum(int(m) for m in re.findall(r"(\d+) failed", o))
    res["suite_with_change"] = {"exit": rc, "passed": passed, "failed": failed, "wall_s": round(time.time() - t, 1)}
    if rc != 0:
        res["suite_tail"] = o[-3000:]
    shutil.copy(demo, f"{wt}/tests/seeded_demo.rs")
    rc1, o1 = sh("cargo test --offline --features compiler --test seeded_demo 2>&1", cwd=wt, timeout=1800)
    res["demo_with_change"] = {"exit": rc1, "tail": o1[-1500:]}
    sh(f"git apply -R {patch}", cwd=wt)
    rc2, o2 = sh("cargo test --offline --features compiler --test seeded_demo 2>&1", cwd=wt, timeout=1800)
    res["demo_without_change"] = {"exit": rc2, "tail": o2[-600:]}
    ok = res["suite_with_change"]["exit"] == 0 and passed >= 191 and rc1 != 0 and "test result: FAILED" in o1 and rc2 == 0 and only_src
    res["confirmed"] = ok
    shutil.copy(patch, f"{out}/patch.diff")
    shutil.copy(demo, f"{out}/seeded_demo.rs")
    if os.path.exists(f"{src}/notes.md"):
        shutil.copy(f"{src}/notes.md", f"{out}/notes.md")
    json.dump(res, open(f"{out}/confirm.json", "w"), indent=1)
    print(json.dumps({k: v for k, v in res.items() if k not in ("demo_with_change", "demo_without_change", "suite_tail")}, indent=1))
    print("demo with change exit", rc1, "| without", rc2)
    return 0 if ok else 1


def detect(seed, tier, checks):
    out = f"{VERIF}/seeded/{seed}"
    patch = f"{out}/patch.diff"
    rc, o = sh("git status --porcelain", cwd=REPO)
    assert o.strip() == "", "/repo not clean: " + o
    results = {}
    try:
        rc, o = sh(f"git apply {patch}", cwd=REPO)
        assert rc == 0, o
        # evidence files are rewritten by the runs; keep the committed ones
        sh("rm -rf /verif/.evidence_keep && cp -r /verif/evidence /verif/.evidence_keep")
        for c in checks:
            t = time.time()
            try:
                rc, o = sh(f"./check {c} --tier {tier}", cwd=VERIF, timeout=7200)
            except subprocess.TimeoutExpired:
                rc, o = 124, "timeout"
            viol = [l for l in o.splitlines() if l.startswith("VIOLATION")]
            results[c] = {"exit": rc, "violations": len(viol), "first": viol[:3], "wall_s": round(time.time() - t, 1)}
            if rc not in (0, 1):
                results[c]["tail"] = o[-1500:]
            print(c, rc, len(viol), viol[:1], flush=True)
            # keep replay files of the first violation for the record
    finally:
        sh("git checkout -- .", cwd=REPO)
        sh("rm -rf /verif/evidence && mv /verif/.evidence_keep /verif/evidence")
    rc, o = sh("git status --porcelain", cwd=REPO)
    assert o.strip() == "", "/repo not restored: " + o
    path = f"{out}/detection.json"
    old = json.load(open(path)) if os.path.exists(path) else {}
    old.setdefault(tier, {}).update(results)
    json.dump(old, open(path, "w"), indent=1)
    return 0


def confirm_benign(seed, wt, src):
    """A change that is meant to keep every property: patch touches only src/, suite passes."""
    assert wt.startswith("/tmp/")
    out = f"{VERIF}/seeded/{seed}"
    os.makedirs(out, exist_ok=True)
    patch = f"{src}/patch.diff"
    sh("git checkout -- . && git clean -fdq tests src", cwd=wt)
    rc, o = sh(f"git apply --check {patch} && git apply {patch}", cwd=wt)
    if rc != 0:
        print("patch does not apply:", o); return 2
    rc, o = sh("git diff --stat", cwd=wt)
    res = {"seed": seed, "kind": "benign", "diffstat": o.strip().splitlines()}
    res["touches_only_src"] = all(l.strip().startswith("src/") for l in o.strip().splitlines()[:-1])
    rc, o = sh("cargo test --workspace --no-fail-fast --offline 2>&1", cwd=wt, timeout=3600)
    passed = sum(int(m) for m in re.findall(r"test result: ok\. (\d+) passed", o))
    res["suite_with_change"] = {"exit": rc, "passed": passed}
    res["confirmed"] = rc == 0 and passed >= 191 and res["touches_only_src"]
    shutil.copy(patch, f"{out}/patch.diff")
    if os.path.exists(f"{src}/notes.md"):
        shutil.copy(f"{src}/notes.md", f"{out}/notes.md")
    json.dump(res, open(f"{out}/confirm.json", "w"), indent=1)
    print(json.dumps(res, indent=1))
    return 0 if res["confirmed"] else 1


if __name__ == "__main__":
    a = sys.argv[1:]
    if a[0] == "confirm-benign":
        sys.exit(confirm_benign(a[1], a[2], a[3]))
    if a[0] == "confirm":
        sys.exit(confirm(a[1], a[2], a[3]))
    if a[0] == "detect":
        tier = "quick"
        rest = a[2:]
        if rest[:1] == ["--tier"]:
            tier = rest[1]; rest = rest[2:]
        checks = rest or [f"C{i:02d}" for i in range(1, 21)]
        sys.exit(detect(a[1], tier, checks))

//! C07 — the lifted policy is exactly the script's spending condition:
//! policy_eval(lift(d), world) == (some witness over the caller's alphabet spends it).

use std::collections::BTreeMap;

use miniscript::policy::Liftable;
use rayon::prelude::*;
use serde_json::json;

use crate::ast::Env;
use crate::c01::{bounds, Prop};
use crate::common::*;
use crate::desc::D;
use crate::keys::{hash_bytes, DefEnv, KeyForm};
use crate::policy::{walk_semantic, P};
use crate::rsm::{Checker, TxChecker};
use crate::sat::*;
use crate::world::{make_spend, worlds, World};

type Census = BTreeMap<&'static str, u64>;
fn bump(c: &mut Census, k: &'static str) { *c.entry(k).or_insert(0) += 1; }
fn bump_n(c: &mut Census, k: &'static str, n: u64) { *c.entry(k).or_insert(0) += n; }

/// Truth of a lifted policy (over concrete key strings) in a world.
pub fn eval_in_world(p: &P, c: &DescCase, w: &World, spend: &crate::rsm::Spend) -> bool {
    let env = DefEnv { form: c.form, with_origin: true };
    let key_of: BTreeMap<String, String> = c.keys.iter().map(|l| (env.pk(l).to_string(), l.clone())).collect();
    let chk = TxChecker::new(spend, vec![], None);
    p.eval(&|atom: &P| match atom {
        P::Key(k) => key_of.get(k).map(|l| w.sigs.contains(l)).unwrap_or(false),
        P::After(n) => chk.check_locktime(*n as i64),
        P::Older(n) => chk.check_sequence(*n as i64),
        P::Sha256(h) => c.hashes.iter().any(|(k, l)| *k == 's' && hex(&hash_bytes('s', l)) == *h && w.pre.contains(l)),
        P::Hash256(h) => c.hashes.iter().any(|(k, l)| {
            // hash256 displays reversed? compare both byte orders
            let hb = hash_bytes('d', l);
            let mut rev = hb.clone();
            rev.reverse();
            *k == 'd' && (hex(&hb) == *h || hex(&rev) == *h) && w.pre.contains(l)
        }),
        P::Ripemd160(h) => c.hashes.iter().any(|(k, l)| *k == 'r' && hex(&hash_bytes('r', l)) == *h && w.pre.contains(l)),
        P::Hash160(h) => c.hashes.iter().any(|(k, l)| *k == 'h' && hex(&hash_bytes('h', l)) == *h && w.pre.contains(l)),
        _ => false,
    })
}

fn check_desc(rep: &Report, c: &DescCase, thorough: bool, cen: &mut Census) {
    let lifted = match guard(|| c.desc.lift()) {
        Ok(Ok(p)) => p,
        Ok(Err(_)) => {
            bump(cen, "lift_refused");
            return;
        }
        Err(e) => {
            bump(cen, "lift_panic");
            rep.violation(Violation {
                key: format!("C07|lift-panic|{}", c.d.sexpr()),
                class: format!("lift-panic@{}", panic_site(&e)),
                what: e,
                case: json!({"desc": c.desc.to_string()}),
            });
            return;
        }
    };
    bump(cen, "lifted");
    let p = walk_semantic(&lifted);
    let dsx = c.d.sexpr();
    let hl = c.hash_labels();
    for w in worlds(&c.keys, &hl, &c.afters, &c.olders, thorough) {
        let spend = make_spend(c.spk.clone(), w.locktime, w.sequence);
        bump(cen, "evaluations");
        let pol = eval_in_world(&p, c, &w, &spend);
        let s = witness_exists(c, &w, &spend, 400_000);
        bump_n(cen, "rsm_states", s.states);
        bump_n(cen, "rsm_transitions", s.transitions);
        if s.capped {
            bump(cen, "search_capped");
            rep.cap_hit(format!("witness search capped for {}", dsx));
            continue;
        }
        let exec = s.found.is_some();
        match (pol, exec) {
            (true, true) => bump(cen, "both_true"),
            (false, false) => bump(cen, "both_false"),
            (true, false) => {
                bump(cen, "policy_true_no_witness");
                rep.violation(Violation {
                    key: format!("C07|invented|{}|{}", dsx, w.short()),
                    class: format!("policy-invents-path-{}", c.kind()),
                    what: "lifted policy is true in this world but no witness from these assets spends the output".into(),
                    case: json!({"desc": c.desc.to_string(), "model": dsx, "lifted": lifted.to_string(), "world": w.json()}),
                });
            }
            (false, true) => {
                bump(cen, "witness_but_policy_false");
                let (ti, sol) = s.found.unwrap();
                rep.violation(Violation {
                    key: format!("C07|hidden|{}|{}", dsx, w.short()),
                    class: format!("policy-hides-path-{}", c.kind()),
                    what: "a witness from these assets spends the output but the lifted policy is false".into(),
                    case: json!({"desc": c.desc.to_string(), "model": dsx, "lifted": lifted.to_string(), "world": w.json(),
                        "target": ti.min(999), "witness_elements": sol.iter().map(|x| hex(x)).collect::<Vec<_>>()}),
                });
            }
        }
    }
}

/// Structural pass (no execution, so much deeper): for every term up to the bound, every term of
/// two nested context levels around the fragments of up to three nodes and around the macro
/// fragments, in all four contexts: lift() succeeds iff lift_check() does, and the lifted policy has
/// the truth table of the harness's own fold of the term (and / or / thresh over key, hash and lock atoms).
/// Scripts built without local validation (from_ast) around the resource limits: conjunction chains
/// of n keys. By literal Bitcoin numbers a chain executes n opcodes and needs n witness items, so in
/// P2WSH it is within the limits iff n <= 100 (standard witness items; 201 opcodes come later) and in
/// bare scripts iff n <= 201: lift() must refuse exactly the chains outside (an over-limit branch
/// cannot be spent, so the policy would promise a spend that does not exist).
fn lift_limit_ladder(rep: &Report) -> Census {
    use crate::ast::{build, T};
    use crate::keys::{KeyForm, PkEnv};
    use miniscript::policy::Liftable;
    let mut cen = Census::new();
    let chain = |n: usize| -> T {
        let pk = |i: usize| T::Check(Box::new(T::PkK(format!("K{}", i))));
        let mut acc = pk(n);
        for i in (1..n).rev() {
            acc = T::AndV(Box::new(T::Verify(Box::new(pk(i)))), Box::new(acc));
        }
        acc
    };
    for n in [98usize, 99, 100, 101, 102, 199, 200, 201, 202, 203] {
        let t = chain(n);
        let env = PkEnv { form: KeyForm::Compressed };
        if let Ok(ms) = build::<bitcoin::PublicKey, miniscript::Segwitv0>(&t, &env) {
            *cen.entry("lift_ladder_terms").or_insert(0) += 1;
            let want_err = n > 100;
            let got_err = ms.lift().is_err();
            // n = 100: Bitcoin Core does not count the witness script among the 100 items, the library
            // does; refusing one chain too early is conservative and not C07's business
            if want_err != got_err && n != 100 {
                rep.violation(Violation {
                    key: format!("C07|lift-ladder|segwitv0|{}", n),
                    class: "lift-of-over-limit-script".into(),
                    what: format!("lift() of a P2WSH conjunction of {} keys (needs {} witness items and {} opcodes; limits 100 and 201) {}", n, n, n, if got_err { "fails" } else { "succeeds" }),
                    case: json!({"ctx": "segwitv0", "keys": n}),
                });
            }
        }
        if let Ok(ms) = build::<bitcoin::PublicKey, miniscript::BareCtx>(&t, &env) {
            *cen.entry("lift_ladder_terms").or_insert(0) += 1;
            let want_err = n > 201;
            let got_err = ms.lift().is_err();
            if want_err != got_err {
                rep.violation(Violation {
                    key: format!("C07|lift-ladder|bare|{}", n),
                    class: "lift-of-over-limit-script".into(),
                    what: format!("lift() of a bare conjunction of {} keys ({} opcodes; limit 201) {}", n, n, if got_err { "fails" } else { "succeeds" }),
                    case: json!({"ctx": "bare", "keys": n}),
                });
            }
        }
    }
    // the opcode budget against a count made from first principles (1-of-20 multisigs in every child
    // position of every combinator, padded across the limit): a script with a path above 201 counted
    // opcodes has no spendable policy on that path
    for (name, t, total) in crate::sat::budget_ladder() {
        let env = PkEnv { form: KeyForm::Compressed };
        if let Ok(ms) = build::<bitcoin::PublicKey, miniscript::Segwitv0>(&t, &env) {
            *cen.entry("lift_budget_terms").or_insert(0) += 1;
            let got_err = ms.lift().is_err();
            if got_err != (total > 201) {
                rep.violation(Violation {
                    key: format!("C07|lift-budget|{}", name),
                    class: format!("lift-of-over-budget-script-{}", name.split('@').next().unwrap_or("")),
                    what: format!("lift() {} for a script whose worst path counts {} opcodes (limit 201): {}", if got_err { "fails" } else { "succeeds" }, total, name),
                    case: json!({"term": name, "worst_path_opcodes": total}),
                });
            }
        }
    }
    cen
}

fn lift_structure<Ctx: crate::terms::Cx>(rep: &Report, ctx: &'static str, n: usize, tap: bool) -> Census {
    use crate::ast::{build, walk, StrEnv, T};
    use crate::terms::{explore, Alphabet};
    let te = explore::<Ctx>(n, Alphabet::Small, tap);
    let mut all: Vec<T> = te.all().map(|m| walk(m).relabel_distinct()).collect();
    let mut small: Vec<T> = te.levels.iter().take(4).flat_map(|l| l.iter()).map(|m| walk(m).relabel_distinct()).collect();
    small.extend(macro_fragments(tap));
    let deep: std::collections::BTreeSet<T> = small.par_iter().flat_map_iter(|f| in_contexts2::<Ctx>(f)).collect();
    all.extend(deep);
    // thresholds of 4 and 5 children with constant children (a:l:1 is trivially true, a:l:0 never):
    // the lift has to re-base k and n
    {
        let b = |t: T| Box::new(t);
        let pk = |i: usize| T::Check(b(T::PkK(format!("K{}", i))));
        let spk = |i: usize| T::Swap(b(pk(i)));
        let al = |c: T| T::Alt(b(T::OrI(b(T::False), b(c))));
        let pools: Vec<Vec<T>> = vec![
            vec![pk(1), spk(2), spk(3), al(T::True)],
            vec![pk(1), spk(2), al(T::True), spk(3)],
            vec![pk(1), spk(2), spk(3), al(T::False)],
            vec![pk(1), spk(2), al(T::True), al(T::False)],
            vec![pk(1), al(T::True), al(T::True), spk(2)],
            vec![pk(1), spk(2), spk(3), spk(4), al(T::True)],
            vec![pk(1), spk(2), al(T::True), spk(3), al(T::False)],
        ];
        for ch in pools {
            for k in 1..=ch.len() {
                all.push(T::Thresh(k, ch.clone()));
                all.push(T::AndV(b(T::Verify(b(pk(9)))), b(T::Thresh(k, ch.clone()))));
            }
        }
    }
    let label = |s: &str| s.as_bytes().to_vec();
    all.par_iter()
        .fold(Census::new, |mut cen, t| {
            let ms = match build::<String, Ctx>(t, &StrEnv) {
                Ok(m) => m,
                Err(_) => return cen,
            };
            bump(&mut cen, "structure_terms");
            let tsx = t.sexpr();
            let viol = |class: &str, what: String| {
                rep.violation(Violation {
                    key: format!("C07|structure-{}|{}|{}", class, ctx, tsx),
                    class: format!("lift-structure-{}-{}", class, t.tag()),
                    what,
                    case: json!({"ctx": ctx, "model": tsx, "miniscript": ms.to_string()}),
                });
            };
            let chk = guard(|| ms.lift_check().is_ok());
            let lifted = guard(|| ms.lift());
            match (chk, lifted) {
                (Ok(c), Ok(l)) => {
                    if c != l.is_ok() {
                        viol("lift_check-disagrees", format!("lift_check ok = {} but lift ok = {}", c, l.is_ok()));
                    }
                    if let Ok(pol) = l {
                        // the library's policy names keys by their strings; the harness's fold names
                        // them by hash160 of the label bytes: rename before comparing tables
                        let mine = crate::c04::own_lift(t, &label);
                        let theirs = walk_semantic(&pol).map_keys(&|k: &str| {
                            use bitcoin::hashes::Hash;
                            hex(&bitcoin::hashes::hash160::Hash::hash(k.as_bytes()).to_byte_array())
                        });
                        if !crate::c04::same_truth_table(&mine, &theirs) {
                            viol("truth-table", format!("lift() = {} differs from the fold of the term", pol));
                        } else {
                            bump(&mut cen, "structure_lifts_equal");
                        }
                    } else {
                        bump(&mut cen, "structure_lift_refused");
                    }
                }
                (Err(e), _) | (_, Err(e)) => viol("panic", e),
            }
            cen
        })
        .reduce(Census::new, |mut a, b| {
            for (k, v) in b {
                *a.entry(k).or_insert(0) += v;
            }
            a
        })
}

pub fn run(tier: Tier) -> i32 {
    let rep = Report::new("C07", tier);
    match crate::kat::run_kats() {
        Ok(n) => rep.count("rsm_kats_passed", n),
        Err(e) => {
            println!("MACHINERY: reference Script machine failed its known-answer tests: {}", e);
            return 2;
        }
    }
    let b = bounds(Prop::C02, tier);
    let thorough = tier == Tier::Thorough;
    let u = universe(b.n_seg, b.n_leg, b.n_tap, b.alpha);
    let models = crate::sat::descriptor_models_ctx(&u, b.n_seg, b.n_shwsh, b.n_leg, b.n_tap, b.n_part, b.n_seg - 1);
    rep.extra("bounds", json!({"nodes": {"wsh": b.n_seg, "sh-wsh": b.n_shwsh, "sh": b.n_leg, "tr": b.n_tap}}));
    let cen = models
        .par_iter()
        .fold(Census::new, |mut cen, d| {
            if let Ok(Ok(c)) = guard(|| prepare(d, KeyForm::Compressed)) {
                if c.keys.len() > 6 {
                    // wide multisigs: the witness-existence search does not scale to 7..20 keys
                    bump(&mut cen, "wide_descriptors_skipped");
                    return cen;
                }
                bump(&mut cen, "descriptors");
                check_desc(&rep, &c, thorough, &mut cen);
            }
            cen
        })
        .reduce(Census::new, |mut a, b| {
            for (k, v) in b {
                *a.entry(k).or_insert(0) += v;
            }
            a
        });
    rep.merge_counts(&cen);
    let ns = tier.pick(5, 6);
    rep.extra("structure_nodes", json!(ns));
    rep.merge_counts(&lift_structure::<miniscript::Segwitv0>(&rep, "segwitv0", ns, false));
    rep.merge_counts(&lift_structure::<miniscript::Tap>(&rep, "tap", ns, true));
    rep.merge_counts(&lift_structure::<miniscript::Legacy>(&rep, "legacy", ns - 1, false));
    rep.merge_counts(&lift_structure::<miniscript::BareCtx>(&rep, "bare", ns - 1, false));
    if let Some(d) = models.iter().rev().find(|d| matches!(d, D::Tr(_, l) if l.len() == 2)) {
        rep.sample(json!({"descriptor_model": d.sexpr()}));
    }
    if let Some(d) = models.iter().rev().find(|d| matches!(d, D::Wsh(_))) {
        rep.sample(json!({"descriptor_model": d.sexpr()}));
    }
    rep.assume("RSM implements DESIGN.md Appendix A; witness existence judged under standardness flags over the caller's alphabet");
    let states = (u.segwit.count() + u.legacy.count() + u.tap.count()) as u64 + rep.get("rsm_states");
    let transitions = u.segwit.attempted + u.legacy.attempted + u.tap.attempted + rep.get("rsm_transitions");
    rep.merge_counts(&lift_limit_ladder(&rep));
    rep.finish(
        states,
        transitions,
        rep.get("both_true") + rep.get("both_false"),
        rep.get("evaluations"),
        rep.get("both_true").min(rep.get("both_false")) * 2,
        "every liftable descriptor of the C01 enumeration (all wrappings, duplicate-key partitions, 2/3-leaf tap trees) x all worlds: truth of the lifted policy by the reference evaluator vs existence of a witness by exhaustive RSM search. non-trivial = min(#worlds both true, #worlds both false) x 2",
        true,
    )
}

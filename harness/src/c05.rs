//! C05 — fragment typing equals the specification's tables (complete finite domain).

use std::collections::BTreeSet;
use std::sync::atomic::{AtomicU64, Ordering};
use std::sync::Arc;

use miniscript::miniscript::types::{ExtData, Type};
use miniscript::{Miniscript, Segwitv0, Terminal, Threshold};
use rayon::prelude::*;
use serde_json::json;

use crate::common::*;
use crate::spec::*;

fn lib_rule(frag: Frag, c: &[Type], k: usize) -> Option<Type> {
    match frag {
        Frag::False => Some(Type::FALSE),
        Frag::True => Some(Type::TRUE),
        Frag::PkK => Some(Type::pk_k()),
        Frag::PkH => Some(Type::pk_h()),
        Frag::Time => Some(Type::time()),
        Frag::Hash => Some(Type::hash()),
        Frag::Multi => Some(Type::multi()),
        Frag::MultiA => Some(Type::multi_a()),
        Frag::Alt => c[0].cast_alt().ok(),
        Frag::Swap => c[0].cast_swap().ok(),
        Frag::Check => c[0].cast_check().ok(),
        Frag::DupIf => c[0].cast_dupif().ok(),
        Frag::Verify => c[0].cast_verify().ok(),
        Frag::NonZero => c[0].cast_nonzero().ok(),
        Frag::ZeroNotEqual => c[0].cast_zeronotequal().ok(),
        Frag::AndV => Type::and_v(c[0], c[1]).ok(),
        Frag::AndB => Type::and_b(c[0], c[1]).ok(),
        Frag::OrB => Type::or_b(c[0], c[1]).ok(),
        Frag::OrC => Type::or_c(c[0], c[1]).ok(),
        Frag::OrD => Type::or_d(c[0], c[1]).ok(),
        Frag::OrI => Type::or_i(c[0], c[1]).ok(),
        Frag::AndOr => Type::and_or(c[0], c[1], c[2]).ok(),
        Frag::Thresh => Type::threshold(k, c.iter()).ok(),
    }
}

pub const UNARY: [Frag; 7] = [Frag::Alt, Frag::Swap, Frag::Check, Frag::DupIf, Frag::Verify, Frag::NonZero, Frag::ZeroNotEqual];
pub const BINARY: [Frag; 6] = [Frag::AndV, Frag::AndB, Frag::OrB, Frag::OrC, Frag::OrD, Frag::OrI];
pub const LEAVES: [Frag; 8] = [Frag::False, Frag::True, Frag::PkK, Frag::PkH, Frag::Time, Frag::Hash, Frag::Multi, Frag::MultiA];

/// Fixed list of deliberate conservative deviations (library weaker than the spec):
/// (fragment, property). Printed in the evidence.
pub const DEVIATIONS: [(&str, &str, &str); 1] =
    [("DupIf", "u", "d:X is never typed unit (the specification grants u under Tapscript only)")];

struct Ctr {
    tuples: AtomicU64,
    accepted: AtomicU64,
    rejected: AtomicU64,
    equal_checked: AtomicU64,
}

fn compare(rep: &Report, ctr: &Ctr, frag: Frag, c: &[Type], k: usize, strict_equal: bool) {
    ctr.tuples.fetch_add(1, Ordering::Relaxed);
    let sc: Vec<ST> = c.iter().map(ST::from_lib).collect();
    let lib = match guard(|| lib_rule(frag, c, k)) {
        Ok(l) => l,
        Err(p) => {
            // debug assertions inside the crate (sanity_checks) fire on insane child types only
            if sc.iter().all(|t| t.is_sane()) {
                rep.violation(Violation {
                    key: format!("C05|panic|{:?}|{}|k={}", frag, sc.iter().map(|t| t.letters()).collect::<Vec<_>>().join(","), k),
                    class: format!("type-rule-panic-{:?}", frag),
                    what: p,
                    case: json!({"fragment": format!("{:?}", frag), "children": sc.iter().map(|t| t.letters()).collect::<Vec<_>>(), "k": k}),
                });
            }
            return;
        }
    };
    let spec0 = spec_rule(frag, &sc, k, false);
    let spec1 = spec_rule(frag, &sc, k, true);
    let desc = || json!({"fragment": format!("{:?}", frag), "children": sc.iter().map(|t| t.letters()).collect::<Vec<_>>(), "k": k,
        "library": lib.as_ref().map(|t| ST::from_lib(t).letters()), "spec": spec0.as_ref().map(|t| t.letters()), "spec_tapscript": spec1.as_ref().map(|t| t.letters())});
    let key = |tag: &str| format!("C05|{}|{:?}|{}|k={}", tag, frag, sc.iter().map(|t| t.letters()).collect::<Vec<_>>().join(","), k);
    match (&lib, &spec0) {
        (None, None) => {
            ctr.rejected.fetch_add(1, Ordering::Relaxed);
        }
        (Some(_), None) => {
            rep.violation(Violation {
                key: key("accepts"),
                class: format!("accepts-what-spec-rejects-{:?}", frag),
                what: "library accepts a child-type combination the specification rejects".into(),
                case: desc(),
            });
        }
        (None, Some(_)) => {
            rep.violation(Violation {
                key: key("rejects"),
                class: format!("rejects-what-spec-accepts-{:?}", frag),
                what: "library rejects a child-type combination the specification accepts".into(),
                case: desc(),
            });
        }
        (Some(l), Some(s0)) => {
            ctr.accepted.fetch_add(1, Ordering::Relaxed);
            let ls = ST::from_lib(l);
            if ls.base != s0.base {
                rep.violation(Violation {
                    key: key("base"),
                    class: format!("base-type-differs-{:?}", frag),
                    what: format!("library base {:?}, spec base {:?}", ls.base, s0.base),
                    case: desc(),
                });
                return;
            }
            // never stronger than the most generous spec reading (tapscript grants d: its u)
            let s1 = spec1.as_ref().unwrap();
            let mut stronger = ls.stronger_than(s1);
            // "never stronger" is judged on inhabitable child types: the specification's sanity
            // relations (incl. K => not z: a K fragment always consumes its signature). On
            // impossible child types the tables are silent (e.g. c: does not mention z).
            if !sc.iter().all(|t| t.is_sane()) {
                stronger.clear();
            }
            // Known upstream behaviour pinned by the repository's own type tests: or_b is
            // typed with a unique dissatisfaction even if a child's is not. Keyed by cause.
            if frag == Frag::OrB && stronger == vec!["e"] {
                rep.violation(Violation {
                    key: "C05|or_b-unconditional-e".into(),
                    class: "or_b-unconditional-e".into(),
                    what: "or_b(X,Z) is typed e although X or Z is not e".into(),
                    case: desc(),
                });
                stronger.clear();
            }
            if !stronger.is_empty() {
                rep.violation(Violation {
                    key: key("stronger"),
                    class: format!("stronger-than-spec-{:?}-{}", frag, stronger.join("")),
                    what: format!("library asserts {:?} which the specification does not grant", stronger),
                    case: desc(),
                });
            }
            if strict_equal {
                ctr.equal_checked.fetch_add(1, Ordering::Relaxed);
                let weaker = ls.weaker_than(s0);
                let weaker: Vec<&str> = weaker
                    .into_iter()
                    .filter(|p| !DEVIATIONS.iter().any(|(f, q, _)| *f == format!("{:?}", frag) && q == p))
                    .collect();
                if !weaker.is_empty() {
                    rep.violation(Violation {
                        key: key("weaker"),
                        class: format!("weaker-than-spec-{:?}-{}", frag, weaker.join("")),
                        what: format!("library does not grant {:?} which the specification prescribes (not on the deliberate-deviation list)", weaker),
                        case: desc(),
                    });
                }
            }
        }
    }
}

/// Fixpoint of the real rule functions from the leaf types: the reachable type set.
fn reachable() -> Vec<Type> {
    let mut r: BTreeSet<Type> = BTreeSet::new();
    for f in LEAVES {
        r.insert(lib_rule(f, &[], 0).unwrap());
    }
    loop {
        let cur: Vec<Type> = r.iter().cloned().collect();
        let before = r.len();
        for a in &cur {
            for f in UNARY {
                if let Ok(Some(t)) = guard(|| lib_rule(f, &[*a], 0)) {
                    r.insert(t);
                }
            }
            for b in &cur {
                for f in BINARY {
                    if let Ok(Some(t)) = guard(|| lib_rule(f, &[*a, *b], 0)) {
                        r.insert(t);
                    }
                }
                for k in 1..=2 {
                    if let Ok(Some(t)) = guard(|| lib_rule(Frag::Thresh, &[*a, *b], k)) {
                        r.insert(t);
                    }
                }
            }
            if let Ok(Some(t)) = guard(|| lib_rule(Frag::Thresh, &[*a], 1)) {
                r.insert(t);
            }
        }
        // and_or over the current set
        let add: Vec<Type> = cur
            .par_iter()
            .flat_map_iter(|a| {
                let mut out = vec![];
                for b in &cur {
                    for c in &cur {
                        if let Ok(Some(t)) = guard(|| lib_rule(Frag::AndOr, &[*a, *b, *c], 0)) {
                            out.push(t);
                        }
                    }
                }
                out
            })
            .collect();
        r.extend(add);
        if r.len() == before {
            break;
        }
    }
    r.into_iter().collect()
}

fn dispatch_check(rep: &Report, r: &[Type]) -> u64 {
    // every Terminal variant must be wired to its own rule, and from_ast must store that type
    let mk = |t: &Type| -> Arc<Miniscript<String, Segwitv0>> {
        Arc::new(Miniscript::from_components_unchecked(Terminal::True, *t, ExtData::TRUE))
    };
    let n = AtomicU64::new(0);
    let chk = |frag: Frag, term: Terminal<String, Segwitv0>, c: &[Type], k: usize| {
        n.fetch_add(1, Ordering::Relaxed);
        let (direct, via) = match (guard(|| lib_rule(frag, c, k)), guard(|| Type::type_check(&term).ok())) {
            (Ok(d), Ok(v)) => (d, v),
            (a, b) => {
                rep.violation(Violation {
                    key: format!("C05|dispatch-panic|{:?}|{}", frag, c.iter().map(|t| ST::from_lib(t).letters()).collect::<Vec<_>>().join(",")),
                    class: format!("type-rule-panic-{:?}", frag),
                    what: format!("a typing function panicked on reachable child types: rule {:?}, type_check {:?}", a.err(), b.err()),
                    case: json!({"fragment": format!("{:?}", frag), "children": c.iter().map(|t| ST::from_lib(t).letters()).collect::<Vec<_>>()}),
                });
                return;
            }
        };
        if direct != via {
            rep.violation(Violation {
                key: format!("C05|dispatch|{:?}|{}", frag, c.iter().map(|t| ST::from_lib(t).letters()).collect::<Vec<_>>().join(",")),
                class: format!("type_check-dispatch-{:?}", frag),
                what: "Type::type_check of the Terminal differs from the rule function of that fragment".into(),
                case: json!({"fragment": format!("{:?}", frag), "direct": direct.map(|t| ST::from_lib(&t).letters()), "via_type_check": via.map(|t| ST::from_lib(&t).letters())}),
            });
        }
    };
    r.par_iter().for_each(|a| {
        chk(Frag::Alt, Terminal::Alt(mk(a)), &[*a], 0);
        chk(Frag::Swap, Terminal::Swap(mk(a)), &[*a], 0);
        chk(Frag::Check, Terminal::Check(mk(a)), &[*a], 0);
        chk(Frag::DupIf, Terminal::DupIf(mk(a)), &[*a], 0);
        chk(Frag::Verify, Terminal::Verify(mk(a)), &[*a], 0);
        chk(Frag::NonZero, Terminal::NonZero(mk(a)), &[*a], 0);
        chk(Frag::ZeroNotEqual, Terminal::ZeroNotEqual(mk(a)), &[*a], 0);
        chk(Frag::Thresh, Terminal::Thresh(Threshold::new(1, vec![mk(a)]).unwrap()), &[*a], 1);
        for b in r {
            chk(Frag::AndV, Terminal::AndV(mk(a), mk(b)), &[*a, *b], 0);
            chk(Frag::AndB, Terminal::AndB(mk(a), mk(b)), &[*a, *b], 0);
            chk(Frag::OrB, Terminal::OrB(mk(a), mk(b)), &[*a, *b], 0);
            chk(Frag::OrC, Terminal::OrC(mk(a), mk(b)), &[*a, *b], 0);
            chk(Frag::OrD, Terminal::OrD(mk(a), mk(b)), &[*a, *b], 0);
            chk(Frag::OrI, Terminal::OrI(mk(a), mk(b)), &[*a, *b], 0);
            for k in 1..=2 {
                chk(Frag::Thresh, Terminal::Thresh(Threshold::new(k, vec![mk(a), mk(b)]).unwrap()), &[*a, *b], k);
            }
        }
    });
    // and_or on a coarser basis: one representative per (base,input,d,u) x mall
    for a in r.iter().step_by(3) {
        for b in r.iter().step_by(2) {
            for c in r.iter().step_by(2) {
                chk(Frag::AndOr, Terminal::AndOr(mk(a), mk(b), mk(c)), &[*a, *b, *c], 0);
            }
        }
    }
    n.load(Ordering::Relaxed)
}

/// Fragment, child types and k of a real Terminal.
fn frag_of<Ctx: crate::terms::Cx>(t: &Terminal<String, Ctx>) -> (Frag, Vec<Type>, usize) {
    use Terminal as X;
    let ty = |m: &Arc<Miniscript<String, Ctx>>| m.ty;
    match t {
        X::False => (Frag::False, vec![], 0),
        X::True => (Frag::True, vec![], 0),
        X::PkK(_) => (Frag::PkK, vec![], 0),
        X::PkH(_) | X::RawPkH(_) => (Frag::PkH, vec![], 0),
        X::After(_) | X::Older(_) => (Frag::Time, vec![], 0),
        X::Sha256(_) | X::Hash256(_) | X::Ripemd160(_) | X::Hash160(_) => (Frag::Hash, vec![], 0),
        X::Multi(_) | X::SortedMulti(_) => (Frag::Multi, vec![], 0),
        X::MultiA(_) | X::SortedMultiA(_) => (Frag::MultiA, vec![], 0),
        X::Alt(a) => (Frag::Alt, vec![ty(a)], 0),
        X::Swap(a) => (Frag::Swap, vec![ty(a)], 0),
        X::Check(a) => (Frag::Check, vec![ty(a)], 0),
        X::DupIf(a) => (Frag::DupIf, vec![ty(a)], 0),
        X::Verify(a) => (Frag::Verify, vec![ty(a)], 0),
        X::NonZero(a) => (Frag::NonZero, vec![ty(a)], 0),
        X::ZeroNotEqual(a) => (Frag::ZeroNotEqual, vec![ty(a)], 0),
        X::AndV(a, b) => (Frag::AndV, vec![ty(a), ty(b)], 0),
        X::AndB(a, b) => (Frag::AndB, vec![ty(a), ty(b)], 0),
        X::OrB(a, b) => (Frag::OrB, vec![ty(a), ty(b)], 0),
        X::OrC(a, b) => (Frag::OrC, vec![ty(a), ty(b)], 0),
        X::OrD(a, b) => (Frag::OrD, vec![ty(a), ty(b)], 0),
        X::OrI(a, b) => (Frag::OrI, vec![ty(a), ty(b)], 0),
        X::AndOr(a, b, c) => (Frag::AndOr, vec![ty(a), ty(b), ty(c)], 0),
        X::Thresh(th) => (Frag::Thresh, th.iter().map(ty).collect(), th.k()),
    }
}

/// Wiring: on every constructor application over real terms (all four contexts, full leaf
/// alphabet) `Miniscript::from_ast` must accept exactly when the fragment's rule function does and
/// must store exactly that type. Together with the complete-domain comparison of the rule
/// functions against the specification this decides the typing of whole terms.
fn wiring<Ctx: crate::terms::Cx>(rep: &Report, ctx: &'static str, n: usize, tap: bool) -> (u64, u64) {
    let att = AtomicU64::new(0);
    let acc = AtomicU64::new(0);
    let hook = |t: &Terminal<String, Ctx>, r: &Result<Miniscript<String, Ctx>, miniscript::Error>| {
        att.fetch_add(1, Ordering::Relaxed);
        let (frag, c, k) = frag_of(t);
        let direct = match guard(|| lib_rule(frag, &c, k)) {
            Ok(d) => d,
            Err(p) => {
                rep.violation(Violation {
                    key: format!("C05|wiring-panic|{}|{:?}|{}", ctx, frag, c.iter().map(|t| ST::from_lib(t).letters()).collect::<Vec<_>>().join(",")),
                    class: format!("type-rule-panic-{:?}", frag),
                    what: format!("the {:?} rule panicked on the types of real children: {}", frag, p),
                    case: json!({"ctx": ctx, "fragment": format!("{:?}", frag)}),
                });
                return;
            }
        };
        let bad = match (r, &direct) {
            (Ok(ms), Some(d)) => {
                acc.fetch_add(1, Ordering::Relaxed);
                if ms.ty != *d {
                    Some(format!("from_ast stores type {} but the {:?} rule gives {}", ST::from_lib(&ms.ty).letters(), frag, ST::from_lib(d).letters()))
                } else {
                    None
                }
            }
            (Ok(_), None) => Some(format!("from_ast accepts a term the {:?} rule rejects", frag)),
            (Err(e), Some(_)) => {
                // context rules (not typing) may refuse: recognised by the error kind
                let es = format!("{:?}", e);
                if es.contains("ContextError") || es.contains("MaxRecursiveDepthExceeded") {
                    None
                } else {
                    Some(format!("from_ast refuses ({}) a term the {:?} rule accepts", e, frag))
                }
            }
            (Err(_), None) => None,
        };
        if let Some(what) = bad {
            let name = match r {
                Ok(ms) => ms.to_string(),
                Err(_) => format!("{:?}", frag),
            };
            rep.violation(Violation {
                key: format!("C05|wiring|{}|{:?}|{}|k={}|{}", ctx, frag, c.iter().map(|t| ST::from_lib(t).letters()).collect::<Vec<_>>().join(","), k, if c.is_empty() { name.clone() } else { String::new() }),
                class: format!("from_ast-wiring-{:?}", frag),
                what,
                case: json!({"ctx": ctx, "term": name, "fragment": format!("{:?}", frag), "children": c.iter().map(|t| ST::from_lib(t).letters()).collect::<Vec<_>>(), "k": k}),
            });
        }
    };
    let te = crate::terms::explore_hook::<Ctx>(n, crate::terms::Alphabet::Full, tap, Some(&hook));
    let _ = te;
    (att.load(Ordering::Relaxed), acc.load(Ordering::Relaxed))
}

/// The leaf constructors (`Miniscript::pk_k`, `expr_raw_pkh`, `multi_a`, ... used by the parsers and
/// the decoder) must store the type and extra data that `from_ast` computes for the same terminal.
fn leaf_constructors<Ctx: crate::terms::Cx>(rep: &Report, ctx: &'static str) -> u64 {
    use miniscript::{AbsLockTime, RelLockTime};
    let k = |i: usize| format!("K{}", i);
    let h = "H".to_string();
    let raw = <bitcoin::hashes::hash160::Hash as bitcoin::hashes::Hash>::hash(b"x");
    let mut pairs: Vec<(&'static str, Miniscript<String, Ctx>, Terminal<String, Ctx>)> = vec![
        ("pk_k", Miniscript::pk_k(k(1)), Terminal::PkK(k(1))),
        ("pk_h", Miniscript::pk_h(k(1)), Terminal::PkH(k(1))),
        ("expr_raw_pkh", Miniscript::expr_raw_pkh(raw), Terminal::RawPkH(raw)),
        ("sha256", Miniscript::sha256(h.clone()), Terminal::Sha256(h.clone())),
        ("hash256", Miniscript::hash256(h.clone()), Terminal::Hash256(h.clone())),
        ("ripemd160", Miniscript::ripemd160(h.clone()), Terminal::Ripemd160(h.clone())),
        ("hash160", Miniscript::hash160(h.clone()), Terminal::Hash160(h.clone())),
    ];
    for v in [1u32, 16, 17, 65535, 65536, 4194305, 500_000_000, 0x7fff_ffff] {
        if let Ok(t) = AbsLockTime::from_consensus(v) {
            pairs.push(("after", Miniscript::after(t), Terminal::After(t)));
        }
        if let Ok(t) = RelLockTime::from_consensus(v) {
            pairs.push(("older", Miniscript::older(t), Terminal::Older(t)));
        }
    }
    for n in [1usize, 2, 3, 16, 17, 20] {
        for kk in [1usize, 2, n] {
            if kk > n {
                continue;
            }
            let keys: Vec<String> = (1..=n).map(k).collect();
            if let Ok(th) = Threshold::new(kk, keys.clone()) {
                pairs.push(("multi", Miniscript::multi(th.clone()), Terminal::Multi(th.clone())));
                pairs.push(("sortedmulti", Miniscript::sortedmulti(th.clone()), Terminal::SortedMulti(th)));
            }
            if let Ok(th) = Threshold::new(kk, keys) {
                pairs.push(("multi_a", Miniscript::multi_a(th.clone()), Terminal::MultiA(th.clone())));
                pairs.push(("sortedmulti_a", Miniscript::sortedmulti_a(th.clone()), Terminal::SortedMultiA(th)));
            }
        }
    }
    // pk / pkh sugar = c:pk_k / c:pk_h
    pairs.push(("pk", Miniscript::pk(k(1)), Terminal::Check(Arc::new(Miniscript::pk_k(k(1))))));
    pairs.push(("pkh", Miniscript::pkh(k(1)), Terminal::Check(Arc::new(Miniscript::pk_h(k(1))))));
    let mut n = 0;
    for (name, built, term) in pairs {
        n += 1;
        let ty = Type::type_check(&term);
        let ext = ExtData::type_check(&term);
        let same_node = built.node == term;
        match ty {
            Ok(ty) => {
                if built.ty != ty || built.ext != ext || !same_node {
                    rep.violation(Violation {
                        key: format!("C05|leaf-constructor|{}|{}|{}", ctx, name, built),
                        class: format!("leaf-constructor-{}", name),
                        what: format!("Miniscript::{}(..) stores type {} / node {}, the type checker gives {} for that terminal{}", name, ST::from_lib(&built.ty).letters(), built, ST::from_lib(&ty).letters(), if built.ext != ext { " (extra data differ)" } else { "" }),
                        case: json!({"ctx": ctx, "constructor": name, "fragment": built.to_string()}),
                    });
                }
            }
            Err(e) => rep.violation(Violation {
                key: format!("C05|leaf-constructor-illtyped|{}|{}", ctx, name),
                class: format!("leaf-constructor-{}", name),
                what: format!("type_check rejects the terminal built by the constructor: {}", e),
                case: json!({"ctx": ctx, "constructor": name}),
            }),
        }
    }
    n
}

pub fn run(tier: Tier) -> i32 {
    let rep = Report::new("C05", tier);
    let all = all_lib_types();
    assert_eq!(all.len(), 960);
    let ctr = Ctr { tuples: AtomicU64::new(0), accepted: AtomicU64::new(0), rejected: AtomicU64::new(0), equal_checked: AtomicU64::new(0) };
    let r = reachable();
    let rset: BTreeSet<Type> = r.iter().cloned().collect();
    rep.extra("reachable_types", json!(r.len()));
    rep.extra("reachable_type_list", json!(r.iter().map(|t| ST::from_lib(t).letters()).collect::<Vec<_>>()));
    rep.extra("deliberate_deviations", json!(DEVIATIONS.iter().map(|(f, p, w)| json!({"fragment": f, "property": p, "why": w})).collect::<Vec<_>>()));
    // leaves
    for f in LEAVES {
        compare(&rep, &ctr, f, &[], 0, true);
    }
    // unary: all 960
    for f in UNARY {
        for a in &all {
            compare(&rep, &ctr, f, &[*a], 0, rset.contains(a));
        }
    }
    // binary: all 960^2
    all.par_iter().for_each(|a| {
        for b in &all {
            let strict = rset.contains(a) && rset.contains(b);
            for f in BINARY {
                compare(&rep, &ctr, f, &[*a, *b], 0, strict);
            }
            for k in 1..=2 {
                compare(&rep, &ctr, Frag::Thresh, &[*a, *b], k, strict);
            }
        }
        compare(&rep, &ctr, Frag::Thresh, &[*a], 1, rset.contains(a));
    });
    // and_or: quick = reachable^3 (strict) + (80 correctness x fixed mall)^3 + (12 mall x fixed corr)^3;
    // thorough = all 960^3
    let and_or_space: Vec<Type> = if tier == Tier::Thorough { all.clone() } else { r.clone() };
    and_or_space.par_iter().for_each(|a| {
        for b in &and_or_space {
            for c in &and_or_space {
                let strict = rset.contains(a) && rset.contains(b) && rset.contains(c);
                compare(&rep, &ctr, Frag::AndOr, &[*a, *b, *c], 0, strict);
            }
        }
    });
    if tier == Tier::Quick {
        // correctness cube with one malleability value and malleability cube with one correctness value
        let corr_rep: Vec<Type> = all.iter().filter(|t| t.mall == all[0].mall).cloned().collect();
        let mall_rep: Vec<Type> = {
            let b = miniscript::miniscript::types::Type::hash();
            all.iter().filter(|t| t.corr == b.corr || t.corr == Type::pk_k().corr.clone()).cloned().collect()
        };
        for space in [corr_rep, mall_rep] {
            space.par_iter().for_each(|a| {
                for b in &space {
                    for c in &space {
                        compare(&rep, &ctr, Frag::AndOr, &[*a, *b, *c], 0, false);
                    }
                }
            });
        }
    }
    // thresh n = 3, 4 over reachable B/W types that thresh can accept plus one rejecting type per position
    let tw: Vec<Type> = r.iter().filter(|t| t.corr.dissatisfiable && t.corr.unit).cloned().collect();
    rep.extra("thresh_child_types", json!(tw.len()));
    let n_max = tier.pick(3, 4);
    for n in 3..=n_max {
        let total = tw.len().pow(n as u32);
        (0..total).into_par_iter().for_each(|mut code| {
            let mut c = vec![];
            for _ in 0..n {
                c.push(tw[code % tw.len()]);
                code /= tw.len();
            }
            for k in 1..=n {
                compare(&rep, &ctr, Frag::Thresh, &c, k, true);
            }
        });
    }
    // wide thresholds: n = 5..8 with children from a basis (first B type then W types)
    let basis: Vec<Type> = tw.iter().step_by((tw.len() / 6).max(1)).cloned().collect();
    for n in 5..=tier.pick(6, 8) {
        let total = basis.len().pow(3);
        for mut code in 0..total {
            let mut c = vec![];
            for i in 0..n {
                if i < 3 {
                    c.push(basis[code % basis.len()]);
                    code /= basis.len();
                } else {
                    c.push(basis[(i * 7) % basis.len()]);
                }
            }
            for k in 1..=n {
                compare(&rep, &ctr, Frag::Thresh, &c, k, true);
            }
        }
    }
    let nd = dispatch_check(&rep, &r);
    rep.count("dispatch_checks", nd);
    let wn = tier.pick(4, 5);
    rep.extra("wiring_nodes", json!(wn));
    let mut w_att = 0;
    let mut w_acc = 0;
    for (a, b) in [
        wiring::<Segwitv0>(&rep, "segwitv0", wn, false),
        wiring::<miniscript::Tap>(&rep, "tap", wn, true),
        wiring::<miniscript::Legacy>(&rep, "legacy", wn, false),
        wiring::<miniscript::BareCtx>(&rep, "bare", wn, false),
    ] {
        w_att += a;
        w_acc += b;
    }
    let lc = leaf_constructors::<Segwitv0>(&rep, "segwitv0") + leaf_constructors::<miniscript::Tap>(&rep, "tap") + leaf_constructors::<miniscript::Legacy>(&rep, "legacy") + leaf_constructors::<miniscript::BareCtx>(&rep, "bare");
    rep.count("leaf_constructor_checks", lc);
    rep.count("wiring_constructor_applications", w_att);
    rep.count("wiring_accepted_terms", w_acc);
    rep.count("tuples", ctr.tuples.load(Ordering::Relaxed));
    rep.count("tuples_accepted_by_both", ctr.accepted.load(Ordering::Relaxed));
    rep.count("tuples_rejected_by_both", ctr.rejected.load(Ordering::Relaxed));
    rep.count("tuples_checked_for_equality", ctr.equal_checked.load(Ordering::Relaxed));
    rep.sample(json!({"fragment": "OrD", "children": ["Bondusem", "Bzfm"], "library == spec": true}));
    rep.sample(json!({"domain": "80 correctness x 12 malleability values = 960 types per child"}));
    rep.assume("spec tables transcribed from the Miniscript specification / reference ComputeType (DESIGN.md Appendix B); they are themselves validated against execution in C06");
    let t = ctr.tuples.load(Ordering::Relaxed);
    crate::terms::report_constructor_panics(&rep, "C05");
    rep.finish(
        960 + r.len() as u64,
        t,
        nd,
        t,
        ctr.accepted.load(Ordering::Relaxed),
        "complete domain: every unary rule on all 960 child types, every binary rule and thresh(k,2) on all 960^2 pairs, and_or on reachable^3 (+ correctness cube and malleability cube; thorough: all 960^3), thresh n<=3 (thorough 4) over all reachable d,u child types and n<=6 (8) over a basis; accept/reject equality and never-stronger on every tuple, full equality (minus the printed deviation list) on reachable types; dispatch of every Terminal variant; wiring: every constructor application over real terms up to the wiring bound (full leaf alphabet incl. sortedmulti(_a), all hashes, both lock units; 4 contexts): from_ast accepts iff the rule function does and stores exactly its type. non-trivial = tuples accepted by both sides",
        true,
    )
}

//! C10 — text forms round-trip; the descriptor checksum detects corruption.

use std::collections::BTreeMap;
use std::str::FromStr;
use std::sync::atomic::{AtomicU64, Ordering};

use miniscript::descriptor::checksum::{verify_checksum, Engine};
use miniscript::policy::{Concrete, Semantic};
use miniscript::{BareCtx, Descriptor, DescriptorPublicKey, Legacy, Miniscript, Segwitv0, Tap, ValidationParams};
use rayon::prelude::*;
use serde_json::json;

use crate::ast::{build, walk, StrEnv, T};
use crate::common::*;
use crate::desc::{build_desc, walk_desc, Shape, D};
use crate::policy::{enum_concrete_shapes, enum_semantic, fill_holes, walk_concrete, walk_semantic, P};
use crate::terms::{explore, Alphabet, Cx};

type Census = BTreeMap<&'static str, u64>;
fn bump(c: &mut Census, k: &'static str) { *c.entry(k).or_insert(0) += 1; }

// ---------------- BIP-380 reference (written from the BIP text) ----------------

const INPUT_CHARSET: &str = "0123456789()[],'/*abcdefgh@:$%{}IJKLMNOPQRSTUVWXYZ&+-.;<=>?!^_|~ijklmnopqrstuvwxyzABCDEFGH`#\"\\ ";
const CHECKSUM_CHARSET: &str = "qpzry9x8gf2tvdw0s3jn54khce6mua7l";
const GENERATOR: [u64; 5] = [0xf5dee51989, 0xa9fdca3312, 0x1bab10e32d, 0x3706b1677a, 0x644d626ffd];

fn polymod_step(c: u64, val: u64) -> u64 {
    let c0 = c >> 35;
    let mut c = ((c & 0x7ffffffff) << 5) ^ val;
    for (i, g) in GENERATOR.iter().enumerate() {
        if c0 & (1 << i) != 0 {
            c ^= g;
        }
    }
    c
}

fn descsum_expand(s: &str) -> Option<Vec<u64>> {
    let mut groups = vec![];
    let mut symbols = vec![];
    for ch in s.chars() {
        let v = INPUT_CHARSET.find(ch)? as u64;
        symbols.push(v & 31);
        groups.push(v >> 5);
        if groups.len() == 3 {
            symbols.push(groups[0] * 9 + groups[1] * 3 + groups[2]);
            groups.clear();
        }
    }
    if groups.len() == 1 {
        symbols.push(groups[0]);
    } else if groups.len() == 2 {
        symbols.push(groups[0] * 3 + groups[1]);
    }
    Some(symbols)
}

pub fn descsum_create(s: &str) -> Option<String> {
    let mut symbols = descsum_expand(s)?;
    symbols.extend([0u64; 8]);
    let mut c = 1u64;
    for v in symbols {
        c = polymod_step(c, v);
    }
    c ^= 1;
    let cs: Vec<char> = CHECKSUM_CHARSET.chars().collect();
    Some((0..8).map(|i| cs[((c >> (5 * (7 - i))) & 31) as usize]).collect())
}

/// linear part of the polymod: syndrome of an error symbol `val` located `r` symbols before the end
fn syndrome_table(max_pos: usize) -> Vec<[u64; 32]> {
    // tab[r][v] = v * x^r mod g  (as 40-bit packed)
    let mut tab = vec![[0u64; 32]; max_pos];
    for v in 1..32u64 {
        let mut c = v;
        for r in 0..max_pos {
            tab[r][v as usize] = c;
            c = polymod_step(c, 0);
        }
    }
    tab
}

// ---------------- round trips ----------------

fn ms_roundtrip<Ctx: Cx>(rep: &Report, ctx: &'static str, n: usize, alpha: Alphabet, tap: bool) -> (Census, u64, u64) {
    let te = explore::<Ctx>(n, alpha, tap);
    let mut all: Vec<T> = te.all().map(|m| walk(m).relabel_distinct()).collect();
    // raw key hash terms (only reachable through the script decoder)
    let h = "a6a0c6a6b20b0661260eab7117303f3bbe925fd9".to_string();
    all.push(T::RawPkH(h.clone()));
    all.push(T::Check(Box::new(T::RawPkH(h.clone()))));
    all.push(T::Verify(Box::new(T::Check(Box::new(T::RawPkH(h.clone()))))));
    all.push(T::AndV(Box::new(T::Verify(Box::new(T::Check(Box::new(T::RawPkH(h.clone())))))), Box::new(T::True)));
    let cen = all
        .par_iter()
        .fold(Census::new, |mut cen, t| {
            let ms = match build::<String, Ctx>(t, &StrEnv) {
                Ok(m) => m,
                Err(_) => return cen,
            };
            bump(&mut cen, "miniscripts");
            let tsx = t.sexpr();
            let shown = ms.to_string();
            let mut viol = |class: &str, what: String| {
                rep.violation(Violation {
                    key: format!("C10|{}|{}|{}", class, ctx, tsx),
                    class: format!("{}-{}", class, if t.nodes().iter().any(|x| matches!(x, T::RawPkH(_))) { "rawpkh" } else { t.tag() }),
                    what,
                    case: json!({"ctx": ctx, "model": tsx, "display": shown}),
                });
            };
            let refs = t.print();
            // The property does not prescribe a spelling (which aliases / sugar the formatter picks);
            // it requires that every spelling parses to the same object. The reference printer's
            // spelling is therefore parsed as a third form, and equality of the strings is only counted.
            if shown == refs {
                bump(&mut cen, "display_equals_reference_printer");
            } else {
                bump(&mut cen, "display_differs_from_reference_printer");
            }
            for (form, s) in [("display", shown.clone()), ("explicit", t.print_explicit()), ("reference", refs.clone())] {
                match guard(|| Miniscript::<String, Ctx>::from_str_with_validation_params(&s, &ValidationParams::MAX)) {
                    Ok(Ok(p)) => {
                        let w = walk(&p);
                        if w != *t {
                            viol(&format!("parse-{}-structure", form), format!("'{}' parses to {}", s, w.sexpr()));
                        } else {
                            bump(&mut cen, "ms_roundtrips_ok");
                        }
                        let again = p.to_string();
                        if again != shown {
                            viol(&format!("reformat-{}", form), format!("'{}' re-displays as '{}'", s, again));
                        }
                        if p.ty != ms.ty || p.ext != ms.ext {
                            viol(&format!("parse-{}-type", form), "parsed object has different type/ext".into());
                        }
                    }
                    Ok(Err(e)) => viol(&format!("parse-{}-fails", form), format!("'{}' does not parse: {}", s, e)),
                    Err(p) => viol(&format!("parse-{}-panics", form), p),
                }
            }
            // default (sane) parser accepts exactly what validate(SANE) accepts
            if let Ok(r) = guard(|| Miniscript::<String, Ctx>::from_str(&shown)) {
                let sane = ms.validate(&Ctx::SANE).is_ok();
                if r.is_ok() != sane {
                    viol("from_str-vs-validate-sane", format!("from_str ok={} validate(SANE) ok={}", r.is_ok(), sane));
                }
            }
            cen
        })
        .reduce(Census::new, |mut a, b| {
            for (k, v) in b {
                *a.entry(k).or_insert(0) += v;
            }
            a
        });
    (cen, te.count() as u64, te.attempted)
}

fn pk(k: &str) -> T { T::Check(Box::new(T::PkK(k.into()))) }

fn desc_models() -> Vec<D> {
    let mut leaves: Vec<T> = vec![
        pk("A"),
        T::Check(Box::new(T::PkH("B".into()))),
        T::AndV(Box::new(T::Verify(Box::new(pk("A")))), Box::new(T::After(10))),
        T::OrD(Box::new(pk("A")), Box::new(T::AndV(Box::new(T::Verify(Box::new(pk("B")))), Box::new(T::Older(5))))),
        T::Thresh(2, vec![pk("A"), T::Swap(Box::new(pk("B"))), T::Swap(Box::new(pk("C")))]),
        T::AndOr(Box::new(pk("A")), Box::new(pk("B")), Box::new(T::False)),
        T::OrI(Box::new(T::False), Box::new(pk("A"))),
        T::OrI(Box::new(pk("A")), Box::new(T::False)),
        T::AndV(Box::new(T::Verify(Box::new(pk("A")))), Box::new(T::True)),
        T::AndB(Box::new(pk("A")), Box::new(T::Alt(Box::new(T::Sha256("H".into()))))),
    ];
    let mut out = vec![];
    for k in ["A", "B"] {
        out.push(D::Pkh(k.into()));
        out.push(D::Wpkh(k.into()));
        out.push(D::ShWpkh(k.into()));
        out.push(D::Tr(k.into(), vec![]));
        out.push(D::Bare(pk(k)));
    }
    for t in &leaves {
        out.push(D::Wsh(t.clone()));
        out.push(D::ShWsh(t.clone()));
        out.push(D::Sh(t.clone()));
    }
    for (k, n) in [(1, 2), (2, 3)] {
        let ks: Vec<String> = ["A", "B", "C"][..n].iter().map(|s| s.to_string()).collect();
        out.push(D::Wsh(T::Multi(k, ks.clone())));
        out.push(D::Wsh(T::SortedMulti(k, ks.clone())));
        out.push(D::Sh(T::SortedMulti(k, ks.clone())));
        out.push(D::ShWsh(T::SortedMulti(k, ks.clone())));
        out.push(D::Bare(T::Multi(k, ks.clone())));
    }
    leaves.push(T::MultiA(2, vec!["A".into(), "B".into(), "C".into()]));
    leaves.push(T::SortedMultiA(1, vec!["A".into(), "B".into()]));
    // every tree shape up to 5 leaves
    for n in 1..=5usize {
        for (si, sh) in Shape::all(n).into_iter().enumerate() {
            let depths = sh.depths();
            let ls: Vec<(u8, T)> = depths.iter().enumerate().map(|(i, d)| (*d, leaves[(i + si) % leaves.len()].clone())).collect();
            out.push(D::Tr("I".into(), ls));
        }
    }
    // deep trees: every shape of up to 4 leaves below a left / right spine so that the deepest
    // leaves are at depth 127 and 128 (the parser's depth-128 special case with several sibling pairs)
    for n in 1..=4usize {
        for b in Shape::all(n) {
            let bd = *b.depths().iter().max().unwrap() as usize;
            for total in [127usize, 128] {
                for left in [true, false] {
                    let mut sh = b.clone();
                    for _ in 0..(total - bd) {
                        sh = if left { Shape::Node(Box::new(sh), Box::new(Shape::Leaf)) } else { Shape::Node(Box::new(Shape::Leaf), Box::new(sh)) };
                    }
                    let ls: Vec<(u8, T)> = sh.depths().iter().enumerate().map(|(i, d)| (*d, pk(&format!("K{}", i)))).collect();
                    out.push(D::Tr("I".into(), ls));
                }
            }
        }
    }
    out
}

fn desc_roundtrip(rep: &Report, cen: &mut Census) -> Vec<String> {
    let mut strings = vec![];
    for d in desc_models() {
        let real = match build_desc::<String>(&d, &StrEnv) {
            Ok(r) => r,
            Err(_) => continue,
        };
        bump(cen, "descriptors");
        let dsx = d.sexpr();
        let body = d.print();
        let with_cs = format!("{}#{}", body, descsum_create(&body).unwrap());
        let mut viol = |class: &str, what: String| {
            rep.violation(Violation {
                key: format!("C10|desc-{}|{}", class, dsx),
                class: format!("descriptor-{}", class),
                what,
                case: json!({"model": dsx, "reference_string": with_cs}),
            });
        };
        let shown = real.to_string();
        // the spelling is not prescribed; the printed checksum must be the BIP-380 checksum of the printed body
        match shown.split_once('#') {
            Some((b, cs)) => {
                if descsum_create(b).as_deref() != Some(cs) {
                    viol("checksum-not-bip380", format!("display '{}' carries a checksum that is not the BIP-380 checksum of its body", shown));
                }
            }
            None => viol("display-without-checksum", format!("display '{}' has no checksum", shown)),
        }
        let alt = format!("{:#}", real);
        if alt.contains('#') {
            viol("display-alt", format!("alternate display '{}' carries a checksum", alt));
        }
        if shown == with_cs && alt == body {
            bump(cen, "display_equals_reference_printer");
        } else {
            bump(cen, "display_differs_from_reference_printer");
        }
        for s in [shown.clone(), alt.clone(), with_cs.clone(), body.clone()] {
            match guard(|| Descriptor::<String>::from_str(&s)) {
                Ok(Ok(p)) => {
                    if walk_desc(&p) != d {
                        viol("parse-structure", format!("'{}' parses to {}", s, walk_desc(&p).sexpr()));
                    } else {
                        bump(cen, "descriptor_roundtrips_ok");
                    }
                    if p.to_string() != shown {
                        viol("reformat", format!("'{}' re-displays as '{}'", s, p));
                    }
                }
                Ok(Err(e)) => viol("parse-fails", format!("'{}': {}", s, e)),
                Err(p) => viol("parse-panics", p),
            }
        }
        // the wrapper types have text forms of their own: same string, same object back
        {
            use miniscript::descriptor::{Bare, Pkh, Sh, Tr, Wpkh, Wsh};
            macro_rules! inner_rt {
                ($x:expr, $ty:ty, $name:expr) => {{
                    let own = $x.to_string();
                    if own != shown {
                        viol("wrapper-display", format!("{}'s own display is '{}'", $name, own));
                    }
                    for s in [shown.clone(), body.clone()] {
                        match guard(|| <$ty>::from_str(&s)) {
                            Ok(Ok(p)) => {
                                if &p != $x {
                                    viol("wrapper-parse", format!("{}::from_str('{}') gives {}", $name, s, p));
                                } else {
                                    bump(cen, "wrapper_type_roundtrips_ok");
                                }
                            }
                            Ok(Err(e)) => viol("wrapper-parse-fails", format!("{}::from_str('{}'): {}", $name, s, e)),
                            Err(p) => viol("parse-panics", p),
                        }
                    }
                }};
            }
            match &real {
                Descriptor::Bare(x) => inner_rt!(x, Bare<String>, "Bare"),
                Descriptor::Pkh(x) => inner_rt!(x, Pkh<String>, "Pkh"),
                Descriptor::Wpkh(x) => {
                    inner_rt!(x, Wpkh<String>, "Wpkh");
                    if x.to_string_no_checksum() != body {
                        viol("to_string_no_checksum", format!("Wpkh::to_string_no_checksum gives '{}'", x.to_string_no_checksum()));
                    }
                }
                Descriptor::Sh(x) => inner_rt!(x, Sh<String>, "Sh"),
                Descriptor::Wsh(x) => {
                    inner_rt!(x, Wsh<String>, "Wsh");
                    if x.to_string_no_checksum() != body {
                        viol("to_string_no_checksum", format!("Wsh::to_string_no_checksum gives '{}'", x.to_string_no_checksum()));
                    }
                }
                Descriptor::Tr(x) => inner_rt!(x, Tr<String>, "Tr"),
            }
        }
        strings.push(shown);
    }
    strings
}

fn policy_roundtrip(rep: &Report, cen: &mut Census, tier: Tier) {
    let atoms = vec![
        P::Key("A".into()),
        P::Key("B".into()),
        P::After(10),
        P::After(500000010),
        P::Older(5),
        P::Older(4194309),
        P::Sha256("H".into()),
        P::Hash160("G".into()),
        P::Trivial,
        P::Unsat,
    ];
    // semantic
    for p in enum_semantic(tier.pick(4, 5), &atoms, 3).iter().flatten() {
        let real = p.to_semantic();
        let s = real.to_string();
        bump(cen, "semantic_policies");
        let refs = p.print_semantic();
        let mut viol = |class: &str, what: String| {
            rep.violation(Violation {
                key: format!("C10|semantic-{}|{}", class, p.sexpr()),
                class: format!("semantic-policy-{}", class),
                what,
                case: json!({"model": p.sexpr(), "display": s}),
            });
        };
        if s == refs {
            bump(cen, "display_equals_reference_printer");
        } else {
            bump(cen, "display_differs_from_reference_printer");
        }
        match guard(|| Semantic::<String>::from_str(&s)) {
            Ok(Ok(q)) => {
                if walk_semantic(&q) != *p {
                    viol("parse-structure", format!("'{}' parses to {}", s, walk_semantic(&q).sexpr()));
                } else {
                    bump(cen, "policy_roundtrips_ok");
                }
                if q.to_string() != s {
                    viol("reformat", format!("re-displays as '{}'", q));
                }
            }
            Ok(Err(e)) => {
                // a threshold with a single child has no parseable spelling at all (and(x), or(x) and
                // thresh(1,x) are all refused): keyed by cause
                fn has_unary(p: &P) -> bool {
                    matches!(p, P::Thresh(_, v) if v.len() == 1) || p.children().iter().any(|c| has_unary(c))
                }
                if has_unary(p) {
                    rep.violation(Violation {
                        key: "C10|semantic-single-child-threshold-unparseable".into(),
                        class: "semantic-single-child-threshold-unparseable".into(),
                        what: format!("semantic policy {} displays as '{}' which does not parse: {}", p.sexpr(), s, e),
                        case: json!({"model": p.sexpr(), "display": s}),
                    });
                } else {
                    viol("parse-fails", e.to_string())
                }
            }
            Err(e) => viol("parse-panics", e),
        }
    }
    // concrete: all shapes with <= 3 leaves, leaves drawn cyclically from the atoms (every atom in every hole for <= 2 leaves)
    let catoms: Vec<P> = atoms.iter().filter(|a| !matches!(a, P::Trivial | P::Unsat)).cloned().collect();
    let shapes = enum_concrete_shapes(3, &[(1, 1), (9, 1), (1, 9)], 3);
    for (nl, lv) in shapes.iter().enumerate() {
        for sh in lv {
            let total = if nl <= 2 { catoms.len().pow(nl as u32) } else { catoms.len() };
            for code in 0..total {
                let mut c = code;
                let ls: Vec<P> = (0..nl)
                    .map(|i| {
                        let a = if nl <= 2 {
                            let x = catoms[c % catoms.len()].clone();
                            c /= catoms.len();
                            x
                        } else {
                            catoms[(code + i) % catoms.len()].clone()
                        };
                        a
                    })
                    .collect();
                let p = fill_holes(sh, &ls);
                let real = p.to_concrete();
                let s = real.to_string();
                bump(cen, "concrete_policies");
                let mut viol = |class: &str, what: String| {
                    rep.violation(Violation {
                        key: format!("C10|concrete-{}|{}", class, p.sexpr()),
                        class: format!("concrete-policy-{}", class),
                        what,
                        case: json!({"model": p.sexpr(), "display": s}),
                    });
                };
                if s == p.sexpr() {
                    bump(cen, "display_equals_reference_printer");
                } else {
                    bump(cen, "display_differs_from_reference_printer");
                }
                match guard(|| Concrete::<String>::from_str(&s)) {
                    Ok(Ok(q)) => {
                        if walk_concrete(&q) != p {
                            viol("parse-structure", format!("'{}' parses to {}", s, walk_concrete(&q).sexpr()));
                        } else {
                            bump(cen, "policy_roundtrips_ok");
                        }
                    }
                    Ok(Err(_)) => {
                        // from_str additionally runs check_timelocks: mixed locks are refused by design
                        bump(cen, "concrete_parse_refused");
                    }
                    Err(e) => viol("parse-panics", e),
                }
            }
        }
    }
}

/// `h` as hardened marker (after a digit or `*`, before `/`, `]` or the end) written as `'`.
fn canon_hardened(s: &str) -> String {
    let b: Vec<char> = s.chars().collect();
    let mut out = String::new();
    for i in 0..b.len() {
        let prev_ok = i > 0 && (b[i - 1].is_ascii_digit() || b[i - 1] == '*');
        let next_ok = i + 1 == b.len() || matches!(b[i + 1], '/' | ']' | ';' | '>' | ')' | ',' | '#');
        let in_path = s[..i].contains('/');
        if b[i] == 'h' && prev_ok && next_ok && in_path {
            out.push('\'');
        } else {
            out.push(b[i]);
        }
    }
    out
}

/// Secret key expressions: xprv / tprv / WIF x origins x derivation steps x wildcards, and whole
/// Key-expression mixes: every assignment of key-expression kinds (raw, x-only, plain xpub, wildcard,
/// multipath of two and of three paths, with and without origin) to the key positions of small sane
/// descriptor templates. The two descriptor parsers must agree on acceptance and on the object, and
/// whatever object exists must print to a string that parses back to an equal object (directly and,
/// for segwit / tap scripts, through the miniscript parser of its context).
fn key_mix_roundtrip(rep: &Report, cen: &mut Census) {
    use miniscript::descriptor::DescriptorPublicKey as Dpk;
    let secp = secp256k1::Secp256k1::new();
    let xpubs: Vec<String> = (0..3u8)
        .map(|i| {
            let m = bitcoin::bip32::Xpriv::new_master(bitcoin::Network::Bitcoin, &[20 + i; 32]).unwrap();
            bitcoin::bip32::Xpub::from_priv(&secp, &m).to_string()
        })
        .collect();
    let raws: Vec<String> = (0..3u8)
        .map(|i| bitcoin::secp256k1::PublicKey::from_secret_key(&secp, &bitcoin::secp256k1::SecretKey::from_slice(&[40 + i; 32]).unwrap()).to_string())
        .collect();
    // kind k at position i
    let expr = |k: usize, i: usize, tap: bool| -> String {
        match k {
            0 => raws[i].clone(),
            1 => {
                if tap {
                    raws[i][2..].to_string()
                } else {
                    raws[i].clone()
                }
            }
            2 => xpubs[i].clone(),
            3 => format!("{}/0/*", xpubs[i]),
            4 => format!("{}/<0;1>/*", xpubs[i]),
            5 => format!("[d34db33f/48h]{}/<2;3>/7", xpubs[i]),
            _ => format!("{}/<0;1;2>/*", xpubs[i]),
        }
    };
    // (template, key positions, taproot, the key positions of each single script)
    let templates: [(&str, usize, bool, &[&[usize]]); 10] = [
        ("wpkh(@0)", 1, false, &[&[0]]),
        ("pkh(@0)", 1, false, &[&[0]]),
        ("sh(wpkh(@0))", 1, false, &[&[0]]),
        ("wsh(and_v(v:pk(@0),pk(@1)))", 2, false, &[&[0, 1]]),
        ("sh(wsh(or_d(pk(@0),and_v(v:pk(@1),older(5)))))", 2, false, &[&[0, 1]]),
        ("wsh(multi(2,@0,@1,@2))", 3, false, &[&[0, 1, 2]]),
        ("sh(sortedmulti(1,@0,@1))", 2, false, &[&[0, 1]]),
        ("tr(@0,pk(@1))", 2, true, &[&[1]]),
        ("tr(@0,and_v(v:pk(@1),pk(@2)))", 3, true, &[&[1, 2]]),
        ("tr(@0,{pk(@1),multi_a(1,@1,@2)})", 3, true, &[&[1], &[1, 2]]),
    ];
    // number of paths of each kind of key expression (BIP389: within one script they must agree)
    let paths_of = |k: usize| -> usize {
        match k {
            4 | 5 => 2,
            6 => 3,
            _ => 1,
        }
    };
    for (tmpl, n, tap, scripts) in templates {
        let kinds = 7usize;
        for code in 0..kinds.pow(n as u32) {
            let mut s = tmpl.to_string();
            let mut c = code;
            for i in 0..n {
                s = s.replace(&format!("@{}", i), &expr(c % kinds, i, tap));
                c /= kinds;
            }
            bump(cen, "key_mix_strings");
            let mut viol = |class: &str, what: String| {
                rep.violation(Violation { key: format!("C10|key-mix-{}|{}", class, s), class: format!("key-mix-{}", class), what, case: json!({"descriptor": s}) });
            };
            let a = guard(|| Descriptor::<Dpk>::from_str(&s));
            let b = guard(|| Descriptor::<Dpk>::parse_descriptor(&secp, &s));
            // the rule itself, from the assignment: a script that mixes multipath expressions of
            // different lengths has no meaning and must be refused by both parsers
            let kind_at = |i: usize| (code / kinds.pow(i as u32)) % kinds;
            let mismatch = scripts.iter().any(|pos| {
                let ls: std::collections::BTreeSet<usize> = pos.iter().map(|i| paths_of(kind_at(*i))).filter(|l| *l > 1).collect();
                ls.len() > 1
            });
            if mismatch {
                bump(cen, "key_mix_length_mismatches");
                if matches!(a, Ok(Ok(_))) || matches!(b, Ok(Ok(_))) {
                    viol("multipath-length-mismatch-accepted", format!("from_str accepts = {}, parse_descriptor accepts = {}", matches!(a, Ok(Ok(_))), matches!(b, Ok(Ok(_)))));
                }
            }
            let objs: Vec<Descriptor<Dpk>> = match (a, b) {
                (Ok(Ok(x)), Ok(Ok((y, _)))) => {
                    if x != y {
                        viol("parsers-differ", format!("from_str gives {} and parse_descriptor gives {}", x, y));
                    }
                    vec![x, y]
                }
                (Ok(Err(_)), Ok(Err(_))) => {
                    bump(cen, "key_mix_refused_by_both");
                    vec![]
                }
                (Ok(Ok(x)), Ok(Err(e))) => {
                    viol("parsers-disagree", format!("from_str accepts, parse_descriptor refuses: {}", e));
                    vec![x]
                }
                (Ok(Err(e)), Ok(Ok((y, _)))) => {
                    viol("parsers-disagree", format!("parse_descriptor accepts, from_str refuses: {}", e));
                    vec![y]
                }
                (Err(p), _) | (_, Err(p)) => {
                    viol("panic", p);
                    vec![]
                }
            };
            for d in objs {
                bump(cen, "key_mix_objects");
                let printed = d.to_string();
                match guard(|| Descriptor::<Dpk>::from_str(&printed)) {
                    Ok(Ok(back)) => {
                        if back != d || back.to_string() != printed {
                            viol("roundtrip-differs", format!("{} parses back to {}", printed, back));
                        } else {
                            bump(cen, "key_mix_roundtrips_ok");
                        }
                    }
                    Ok(Err(e)) => viol("printed-form-refused", format!("{} does not parse back: {}", printed, e)),
                    Err(p) => viol("panic", p),
                }
                // the script of the descriptor through the miniscript parser of its context
                macro_rules! ms_rt {
                    ($ms:expr, $ctx:ty) => {{
                        let ms = $ms;
                        let t = ms.to_string();
                        bump(cen, "key_mix_miniscripts");
                        match guard(|| miniscript::Miniscript::<Dpk, $ctx>::from_str(&t)) {
                            Ok(Ok(back)) => {
                                if &back != ms {
                                    viol("miniscript-roundtrip-differs", format!("{} parses back to {}", t, back));
                                }
                            }
                            Ok(Err(e)) => viol("miniscript-printed-form-refused", format!("{} does not parse back: {}", t, e)),
                            Err(p) => viol("panic", p),
                        }
                    }};
                }
                match &d {
                    Descriptor::Wsh(w) => {
                        ms_rt!(w.as_inner(), miniscript::Segwitv0)
                    }
                    Descriptor::Tr(t) => {
                        for leaf in t.leaves() {
                            ms_rt!(leaf.miniscript().as_ref(), miniscript::Tap)
                        }
                    }
                    _ => {}
                }
            }
        }
    }
}

/// descriptors with secrets through parse_descriptor / to_string_with_secret.
fn secret_key_roundtrip(rep: &Report, cen: &mut Census) {
    use miniscript::descriptor::DescriptorSecretKey;
    let xprv = bitcoin::bip32::Xpriv::new_master(bitcoin::Network::Bitcoin, &[7u8; 32]).unwrap().to_string();
    let tprv = bitcoin::bip32::Xpriv::new_master(bitcoin::Network::Testnet, &[8u8; 32]).unwrap().to_string();
    let wif = bitcoin::PrivateKey::new(bitcoin::secp256k1::SecretKey::from_slice(&[9u8; 32]).unwrap(), bitcoin::Network::Bitcoin).to_wif();
    let origins = ["", "[d34db33f]", "[d34db33f/44'/0'/0']", "[d34db33f/0/1h/2147483647']"];
    let steps = ["", "/0", "/2147483647", "/0'", "/1h", "/0/1", "/1'/0/2", "/<0;1>", "/<0;1;2>", "/0'/<1;2>", "/<0';1>/3"];
    let wild = ["", "/*", "/*'", "/*h"];
    let mut strings = vec![];
    for o in origins {
        strings.push(format!("{}{}", o, wif));
        for x in [&xprv, &tprv] {
            for st in steps {
                for w in wild {
                    strings.push(format!("{}{}{}{}", o, x, st, w));
                }
            }
        }
    }
    let secp = secp256k1::Secp256k1::new();
    // parse_descriptor (the entry point that accepts secret keys) must agree with Descriptor::from_str on
    // everything that is not a key: every hash kind (non-palindromic digests), locks, thresholds
    {
        let h32 = "0102030405060708090a0b0c0d0e0f101112131415161718191a1b1c1d1e1f20";
        let h20 = "0102030405060708090a0b0c0d0e0f1011121314";
        let sk = format!("{}/0'/1/*", xprv);
        if let Ok(pubk) = DescriptorSecretKey::from_str(&sk).and_then(|k| k.to_public(&secp)) {
            // a second, unrelated public key (the key map would print the secret for every occurrence of `pubk`)
            let other = DescriptorSecretKey::from_str(&format!("{}/9'/8", xprv)).and_then(|k| k.to_public(&secp)).map(|k| k.to_string()).unwrap_or_default();
            let bodies = [
                format!("and_v(v:pk(KEY),sha256({}))", h32),
                format!("and_v(v:pk(KEY),hash256({}))", h32),
                format!("and_v(v:pk(KEY),ripemd160({}))", h20),
                format!("and_v(v:pk(KEY),hash160({}))", h20),
                format!("and_v(v:pk(KEY),or_d(pk({}),and_v(v:hash256({}),older(5))))", other, h32),
                format!("thresh(2,pk(KEY),a:hash256({}),a:sha256({}))", h32, h32),
            ];
            for b in bodies {
                for wrap in ["wsh(X)", "sh(wsh(X))", "tr(KEY,X)"] {
                    let with_secret = wrap.replace('X', &b).replace("KEY", &sk);
                    let public = wrap.replace('X', &b).replace("KEY", &pubk.to_string());
                    bump(cen, "parse_descriptor_with_hashes");
                    let mut viol = |class: &str, what: String| {
                        rep.violation(Violation {
                            key: format!("C10|parse_descriptor-{}|{}", class, with_secret),
                            class: format!("parse_descriptor-{}", class),
                            what,
                            case: json!({"descriptor": with_secret}),
                        });
                    };
                    let a = guard(|| Descriptor::<DescriptorPublicKey>::parse_descriptor(&secp, &with_secret));
                    let bpub = guard(|| Descriptor::<DescriptorPublicKey>::from_str(&public));
                    match (a, bpub) {
                        (Ok(Ok((d, km))), Ok(Ok(e))) => {
                            if d != e || d.to_string() != e.to_string() {
                                viol("differs-from-from_str", format!("parse_descriptor gives {} but from_str of the public form gives {}", d, e));
                            } else {
                                bump(cen, "parse_descriptor_agrees_with_from_str");
                            }
                            let back = d.to_string_with_secret(&km);
                            if canon_hardened(back.split('#').next().unwrap()) != canon_hardened(&with_secret) {
                                viol("to_string_with_secret", format!("to_string_with_secret gives {}", back));
                            }
                        }
                        (Ok(Ok(_)), _) => viol("public-form-refused", "from_str refuses the public form".into()),
                        (Ok(Err(e)), Ok(Ok(_))) => viol("refused", format!("parse_descriptor refuses what from_str accepts in public form: {}", e)),
                        (Err(p), _) | (_, Err(p)) => viol("panic", p),
                        _ => {}
                    }
                }
            }
        }
    }
    for s in strings {
        bump(cen, "secret_key_strings");
        let mut viol = |class: &str, what: String| {
            rep.violation(Violation {
                key: format!("C10|secret-key-{}|{}", class, s),
                class: format!("descriptor-secret-key-{}", class),
                what,
                case: json!({"key": s}),
            });
        };
        match guard(|| DescriptorSecretKey::from_str(&s)) {
            Ok(Ok(k)) => {
                bump(cen, "secret_key_strings_parsed");
                let shown = k.to_string();
                match guard(|| DescriptorSecretKey::from_str(&shown)) {
                    Ok(Ok(k2)) => {
                        if k2.to_string() != shown {
                            viol("reformat", format!("'{}' re-displays as '{}'", shown, k2));
                        }
                        // the secret key type has no Eq: compare the public images and the canonical spelling
                        let same_spelling = canon_hardened(&shown) == canon_hardened(&s);
                        let p1 = guard(|| k.to_public(&secp).map(|p| p.to_string()).map_err(|e| e.to_string()));
                        let p2 = guard(|| k2.to_public(&secp).map(|p| p.to_string()).map_err(|e| e.to_string()));
                        if p1 != p2 {
                            viol("reparse-differs", format!("public image of parse(display(k)) differs: {:?} vs {:?}", p2, p1));
                        } else if !same_spelling {
                            viol("display-spelling", format!("display '{}' is not the input '{}' up to the hardened marker", shown, s));
                        } else {
                            bump(cen, "secret_key_roundtrips_ok");
                        }
                    }
                    Ok(Err(e)) => viol("reparse-fails", format!("'{}': {}", shown, e)),
                    Err(e) => viol("reparse-panics", e),
                }
                // inside a descriptor: parse_descriptor + to_string_with_secret
                if !s.contains('<') {
                    let ds = format!("wsh(pk({}))", s);
                    if let Ok(Ok((d, km))) = guard(|| Descriptor::<DescriptorPublicKey>::parse_descriptor(&secp, &ds)) {
                        let back = d.to_string_with_secret(&km);
                        let body = back.split('#').next().unwrap().to_string();
                        if canon_hardened(&body) != canon_hardened(&ds) {
                            viol("descriptor-with-secret", format!("to_string_with_secret gives '{}' for '{}'", body, ds));
                        } else {
                            bump(cen, "descriptors_with_secret_ok");
                        }
                    }
                }
            }
            Ok(Err(_)) => bump(cen, "secret_key_strings_refused"),
            Err(p) => viol("parse-panics", p),
        }
    }
}

/// BIP-388 wallet policies: template strings round-trip for every placeholder path spelling
/// (`/**` and `/<a;b>/*` over a grid of a < b incl. different digit counts and the largest
/// unhardened indices), and descriptor -> policy -> descriptor is the identity.
fn wallet_policy_roundtrip(rep: &Report, cen: &mut Census) {
    use miniscript::descriptor::WalletPolicy;
    let vals: [u32; 12] = [0, 1, 2, 3, 9, 10, 11, 30, 99, 100, 2147483646, 2147483647];
    let mut paths: Vec<(String, bool)> = vec![("**".to_string(), true)];
    for a in vals {
        for b in vals {
            paths.push((format!("<{};{}>/*", a, b), a < b));
        }
    }
    let templates = ["wpkh(@0/P)", "wsh(multi(2,@0/P,@1/**))", "wsh(multi(2,@0/**,@1/P))", "tr(@0/P,pk(@1/**))", "tr(@0/**,{pk(@1/P),pk(@2/**)})", "sh(wsh(and_v(v:pk(@0/P),older(5))))"];
    let xpubs = [
        "[d34db33f/48'/0'/0'/2']xpub6ERApfZwUNrhLCkDtcHTcxd75RbzS1ed54G1LkBUHQVHQKqhMkhgbmJbZRkrgZw4koxb5JaHWkY4ALHY2grBGRjaDMzQLcgJvLJuZZvRcEL",
        "[aabbccdd/48'/0'/0'/2']xpub661MyMwAqRbcFtXgS5sYJABqqG9YLmC4Q1Rdap9gSE8NqtwybGhePY2gZ29ESFjqJoCu1Rupje8YtGqsefD265TMg7usUDFdp6W1EGMcet8",
        "[11223344/48'/0'/0'/2']xpub661MyMwAqRbcGDZQUKLqmWodYLcoBQnQH33yYkkF3jjxeLvY8qr2wWGEWkiKFaaQfJCoi3HeEq3Dc5DptfbCyjD38fNhSqtKc1UHaP4ba3t",
    ];
    for (p, valid) in &paths {
        for t in templates {
            let ts = t.replace('P', p);
            bump(cen, "wallet_policy_templates");
            let mut viol = |class: &str, what: String| {
                rep.violation(Violation {
                    key: format!("C10|wallet-policy-{}|{}", class, ts),
                    class: format!("wallet-policy-{}", class),
                    what,
                    case: json!({"template": ts}),
                });
            };
            match guard(|| WalletPolicy::from_str(&ts)) {
                Ok(Ok(wp)) => {
                    if !valid {
                        // a >= b is not a valid receive/change pair; accepting it is not a round-trip matter
                        bump(cen, "wallet_policy_invalid_pair_accepted");
                    }
                    let shown = wp.to_string();
                    match guard(|| WalletPolicy::from_str(&shown)) {
                        Ok(Ok(wp2)) => {
                            if wp2.to_string() != shown {
                                viol("reformat", format!("'{}' re-displays as '{}'", shown, wp2));
                            } else {
                                bump(cen, "wallet_policy_roundtrips_ok");
                            }
                        }
                        Ok(Err(e)) => viol("reparse-fails", format!("display '{}' does not parse back: {:?}", shown, e)),
                        Err(pn) => viol("reparse-panics", pn),
                    }
                    // descriptor with full keys -> policy (template + key information) -> descriptor
                    if *valid {
                        let full = |i: usize, path: &str| format!("{}/{}", xpubs[i], if path == "**" { "<0;1>/*" } else { path });
                        let mut ds = ts.clone();
                        for i in 0..3 {
                            ds = ds.replace(&format!("@{}/{}", i, p), &full(i, p)).replace(&format!("@{}/**", i), &full(i, "**"));
                        }
                        if let Ok(Ok(d)) = guard(|| Descriptor::<DescriptorPublicKey>::from_str(&ds)) {
                            // template text + key information set by hand -> the same descriptor
                            {
                                let n_keys = (0..3).filter(|i| ts.contains(&format!("@{}/", i))).count();
                                let infos: Vec<DescriptorPublicKey> = xpubs[..n_keys].iter().map(|x| DescriptorPublicKey::from_str(x).expect("key information parses")).collect();
                                // (what into_descriptor makes of hand-set key information is not a text round trip
                                // and not part of C10: see DESIGN.md 8.4, observations outside the listed properties)
                                // one key too few / too many is refused
                                let mut wp4 = wp.clone();
                                let mut more = infos.clone();
                                more.push(DescriptorPublicKey::from_str(xpubs[0]).unwrap());
                                if wp4.set_key_info(&more).is_ok() || wp4.set_key_info(&infos[..n_keys - 1]).is_ok() {
                                    viol("set_key_info-arity", "key information of the wrong length accepted".into());
                                }
                                match guard(|| WalletPolicy::try_from(&d)) {
                                    Ok(Ok(x)) => {
                                        if Some(x.to_string()) != WalletPolicy::from_descriptor(&d).ok().map(|y| y.to_string()) {
                                            viol("try_from-differs", "TryFrom<&Descriptor> differs from from_descriptor".into());
                                        }
                                    }
                                    Ok(Err(_)) => {
                                        if WalletPolicy::from_descriptor(&d).is_ok() {
                                            viol("try_from-differs", "TryFrom<&Descriptor> refuses what from_descriptor accepts".into());
                                        }
                                    }
                                    Err(pn) => viol("try_from-panics", pn),
                                }
                            }
                            match guard(|| WalletPolicy::from_descriptor(&d)) {
                                Ok(Ok(back)) => {
                                    let expect = ts.replace("<0;1>/*", "**");
                                    if back.to_string() != expect {
                                        viol("from_descriptor-template", format!("descriptor '{}' gives template '{}', expected '{}'", ds, back, expect));
                                    }
                                    match guard(|| back.clone().into_descriptor()) {
                                        Ok(Ok(d2)) => {
                                            if d2 != d {
                                                viol("descriptor-roundtrip", format!("'{}' -> policy -> '{}'", d, d2));
                                            } else {
                                                bump(cen, "wallet_policy_descriptor_roundtrips_ok");
                                            }
                                        }
                                        Ok(Err(e)) => viol("into_descriptor-fails", format!("{:?}", e)),
                                        Err(pn) => viol("into_descriptor-panics", pn),
                                    }
                                }
                                Ok(Err(e)) => viol("from_descriptor-fails", format!("{:?} for {}", e, ds)),
                                Err(pn) => viol("from_descriptor-panics", pn),
                            }
                        }
                    }
                }
                Ok(Err(e)) => {
                    if *valid {
                        viol("valid-template-refused", format!("'{}' is refused: {:?}", ts, e));
                    } else {
                        bump(cen, "wallet_policy_invalid_pair_refused");
                    }
                }
                Err(pn) => viol("parse-panics", pn),
            }
        }
    }
}

fn key_roundtrip(rep: &Report, cen: &mut Census) {
    let xpub = "xpub6ERApfZwUNrhLCkDtcHTcxd75RbzS1ed54G1LkBUHQVHQKqhMkhgbmJbZRkrgZw4koxb5JaHWkY4ALHY2grBGRjaDMzQLcgJvLJuZZvRcEL";
    let tpub = "tpubD6NzVbkrYhZ4WLczPJWReQycCJdd6YVWXubbVUFnJ5KgU5MDQrD998ZJLNGbhd2pq7ZtDiPYTfJ7iBenLVQpYgSQqPjUsQeJXH8VQ8xA67D";
    let single = "02c2fd50ceae468857bb7eb32ae9cd4083e6c7e42fbbec179d81134b3e3830586c";
    let uncompressed = "04a34b99f22c790c4e36b2b3c2c35a36db06226e41c692fc82b8b56ac1c540c5bd5b8dec5235a0fa8722476c7709c02559e3aa73aa03918ba2d492eea75abea235";
    let xonly = "c2fd50ceae468857bb7eb32ae9cd4083e6c7e42fbbec179d81134b3e3830586c";
    let origins = ["", "[d34db33f]", "[d34db33f/44'/0'/0']", "[d34db33f/0/1h/2147483647']"];
    let steps = ["", "/0", "/1", "/2147483647", "/0'", "/1h", "/0/1", "/1'/0/2", "/<0;1>", "/<0;1;2>", "/0/<1;2>", "/<0;1>/3"];
    let wild = ["", "/*", "/*'", "/*h"];
    let mut strings = vec![];
    for o in origins {
        for k in [single, uncompressed, xonly] {
            strings.push(format!("{}{}", o, k));
        }
        for x in [xpub, tpub] {
            for st in steps {
                for w in wild {
                    strings.push(format!("{}{}{}{}", o, x, st, w));
                }
            }
        }
    }
    for s in strings {
        bump(cen, "key_strings");
        let r = guard(|| DescriptorPublicKey::from_str(&s));
        match r {
            Ok(Ok(k)) => {
                bump(cen, "key_strings_parsed");
                let shown = k.to_string();
                // canonical form uses ' for hardened markers
                let canon = canon_hardened(&s);
                let mut viol = |class: &str, what: String| {
                    rep.violation(Violation {
                        key: format!("C10|key-{}|{}", class, s),
                        class: format!("descriptor-key-{}", class),
                        what,
                        case: json!({"key": s, "display": shown}),
                    });
                };
                // the display need not equal the input spelling (e.g. `*'` is shown as `*h`); what
                // C10 requires is parse(display(k)) == k and a fixed point, checked below.
                if shown == canon || shown == s {
                    bump(cen, "key_display_equals_input_spelling");
                }
                match guard(|| DescriptorPublicKey::from_str(&shown)) {
                    Ok(Ok(k2)) => {
                        if k2 != k {
                            viol("reparse-differs", "parse(display(k)) != k".into());
                        } else {
                            bump(cen, "key_roundtrips_ok");
                        }
                        if k2.to_string() != shown {
                            viol("reformat", format!("re-displays as {}", k2));
                        }
                    }
                    Ok(Err(e)) => viol("reparse-fails", e.to_string()),
                    Err(e) => viol("reparse-panics", e),
                }
            }
            Ok(Err(_)) => bump(cen, "key_strings_refused"),
            Err(p) => {
                rep.violation(Violation {
                    key: format!("C10|key-panic|{}", s),
                    class: format!("descriptor-key-parse-panic@{}", panic_site(&p)),
                    what: p,
                    case: json!({"key": s}),
                });
            }
        }
    }
}

// ---------------- checksum ----------------

fn checksum_checks(rep: &Report, cen: &mut Census, desc_strings: &[String], tier: Tier) -> (u64, u64) {
    let alphabet: Vec<char> = (32u8..127).map(|b| b as char).collect();
    // Layer 3a: model == implementation on every enumerated descriptor and on strings of every length
    let mut conf = 0u64;
    let mut check_conf = |body: &str| {
        let mut e = Engine::new();
        if e.input(body).is_ok() {
            let lib: String = e.checksum();
            let mine = descsum_create(body).unwrap();
            if lib != mine {
                rep.violation(Violation {
                    key: format!("C10|checksum-model|{}", body),
                    class: "checksum-differs-from-bip380".into(),
                    what: format!("library checksum {} BIP-380 reference {}", lib, mine),
                    case: json!({"string": body}),
                });
            }
        }
    };
    for s in desc_strings {
        let body = &s[..s.len() - 9];
        check_conf(body);
        conf += 1;
    }
    // every length 1..=200, and every character at every position of a 64-char base string
    let base: String = (0..200).map(|i| alphabet[(i * 7 + 3) % 95]).collect();
    for l in 1..=200 {
        check_conf(&base[..l]);
        conf += 1;
    }
    for pos in 0..tier.pick(48, 96) {
        for ch in &alphabet {
            let mut b: Vec<char> = base[..tier.pick(48, 96)].chars().collect();
            b[pos] = *ch;
            check_conf(&b.iter().collect::<String>());
            conf += 1;
        }
    }
    *cen.entry("checksum_conformance_strings").or_insert(0) += conf;

    // Layer 1: implementation, exhaustive 1- and 2-character substitutions on short descriptors
    let mut shorts: Vec<&String> = desc_strings.iter().filter(|s| s.len() <= tier.pick(30, 40)).collect();
    shorts.sort_by_key(|s| s.len());
    shorts.truncate(tier.pick(3, 8));
    let n_sub = AtomicU64::new(0);
    for s in &shorts {
        let chars: Vec<char> = s.chars().collect();
        let n = chars.len();
        (0..n).into_par_iter().for_each(|i| {
            for a in &alphabet {
                if *a == chars[i] {
                    continue;
                }
                let mut c1 = chars.clone();
                c1[i] = *a;
                let s1: String = c1.iter().collect();
                n_sub.fetch_add(1, Ordering::Relaxed);
                let accepted = Descriptor::<String>::from_str(&s1).is_ok();
                let cs_ok = s1.matches('#').count() == 1 && verify_checksum(&s1).is_ok();
                if accepted || cs_ok {
                    rep.violation(Violation {
                        key: format!("C10|checksum-1sub|{}", s1),
                        class: "checksum-misses-single-substitution".into(),
                        what: format!("'{}' (from '{}') accepted: from_str={} verify_checksum={}", s1, s, accepted, cs_ok),
                        case: json!({"original": s, "corrupted": s1}),
                    });
                }
                for j in (i + 1)..n {
                    for b in &alphabet {
                        if *b == chars[j] {
                            continue;
                        }
                        let mut c2 = c1.clone();
                        c2[j] = *b;
                        let s2: String = c2.iter().collect();
                        n_sub.fetch_add(1, Ordering::Relaxed);
                        // verify_checksum is the cheap, decisive gate; from_str for those that pass it
                        let hashes = s2.matches('#').count();
                        let pass = if hashes == 1 { verify_checksum(&s2).is_ok() } else { false };
                        let accepted = pass && Descriptor::<String>::from_str(&s2).is_ok();
                        if pass || accepted || (hashes != 1 && Descriptor::<String>::from_str(&s2).is_ok()) {
                            rep.violation(Violation {
                                key: format!("C10|checksum-2sub|{}", s2),
                                class: "checksum-misses-double-substitution".into(),
                                what: format!("'{}' (from '{}') accepted", s2, s),
                                case: json!({"original": s, "corrupted": s2}),
                            });
                        }
                    }
                }
            }
        });
    }
    let subs = n_sub.load(Ordering::Relaxed);
    *cen.entry("checksum_substitutions_tried").or_insert(0) += subs;

    // Layer 2: code model of BIP-380 (one symbol per character, one class symbol per 3-character
    // block, 8 checksum symbols; syndromes are linear in the error pattern).
    //  (i)  for EVERY descriptor length L <= Lmax: the syndromes of all single-character error
    //       patterns (character-symbol delta x class-symbol delta, any values) and of all single
    //       checksum-symbol errors are non-zero and pairwise distinct
    //       => every 1- and 2-character substitution is detected;
    //  (ii) for the three alignments L = Lmax-2..Lmax: all patterns of weight <= 2 over the
    //       character / checksum symbols (class symbols untouched) have distinct syndromes
    //       => up to 4 substitutions that stay inside one character group are detected;
    //  (iii) superset model (every position any value), weight <= 2 distinct up to `sup_chars`.
    let lmax: usize = std::env::var("C10_MAXCHARS").ok().and_then(|s| s.parse().ok()).unwrap_or(tier.pick(200, 507));
    let tab = syndrome_table(lmax + (lmax + 2) / 3 + 8);
    let layout = |l: usize| -> (Vec<usize>, Vec<usize>, usize) {
        // returns (r of each character symbol, r of the class symbol of each character, total)
        let total = l + (l + 2) / 3 + 8;
        let mut idx = 0usize;
        let mut char_idx = vec![];
        let mut class_idx_of_block = vec![];
        for i in 0..l {
            char_idx.push(idx);
            idx += 1;
            if i % 3 == 2 {
                class_idx_of_block.push(idx);
                idx += 1;
            }
        }
        if l % 3 != 0 {
            class_idx_of_block.push(idx);
            idx += 1;
        }
        assert_eq!(idx + 8, total);
        let cr: Vec<usize> = char_idx.iter().map(|i| total - 1 - i).collect();
        let gr: Vec<usize> = (0..l).map(|i| total - 1 - class_idx_of_block[i / 3]).collect();
        (cr, gr, total)
    };
    let single_total = AtomicU64::new(0);
    let single_coll = AtomicU64::new(0);
    let first_bad_len = std::sync::Mutex::new(None::<usize>);
    (1..=lmax).into_par_iter().for_each(|l| {
        let (cr, gr, _) = layout(l);
        // Case A: two substituted characters in different 3-character blocks (or in the checksum):
        // single-character patterns of DIFFERENT blocks must not share a syndrome, none may be zero.
        let mut v: Vec<(u64, u32)> = Vec::with_capacity(l * 1023 + 8 * 31);
        for i in 0..l {
            for dc in 0..32usize {
                for dg in 0..32usize {
                    if dc == 0 && dg == 0 {
                        continue;
                    }
                    v.push((tab[cr[i]][dc] ^ tab[gr[i]][dg], (i / 3) as u32));
                }
            }
        }
        for r in 0..8 {
            for d in 1..32usize {
                v.push((tab[r][d], 1_000_000 + r as u32));
            }
        }
        let mut n = v.len() as u64;
        v.sort_unstable();
        let mut c = v.iter().filter(|x| x.0 == 0).count() as u64;
        c += v.windows(2).filter(|w| w[0].0 == w[1].0 && w[0].1 != w[1].1).count() as u64;
        // Case B: two substituted characters inside one block share the class symbol: every
        // (delta c1, delta c2, delta class) != 0 must have a non-zero syndrome.
        for blk in 0..(l + 2) / 3 {
            let members: Vec<usize> = (blk * 3..(blk * 3 + 3).min(l)).collect();
            for x in 0..members.len() {
                for y in x + 1..members.len() {
                    let (p1, p2, q) = (cr[members[x]], cr[members[y]], gr[members[x]]);
                    for d1 in 0..32usize {
                        for d2 in 0..32usize {
                            let s12 = tab[p1][d1] ^ tab[p2][d2];
                            for dg in 0..32usize {
                                if d1 == 0 && d2 == 0 && dg == 0 {
                                    continue;
                                }
                                n += 1;
                                if s12 ^ tab[q][dg] == 0 {
                                    c += 1;
                                }
                            }
                        }
                    }
                }
            }
        }
        single_total.fetch_add(n, Ordering::Relaxed);
        if c > 0 {
            single_coll.fetch_add(c, Ordering::Relaxed);
            let mut g = first_bad_len.lock().unwrap();
            if g.map(|x| l < x).unwrap_or(true) {
                *g = Some(l);
            }
        }
    });
    let mut total = single_total.load(Ordering::Relaxed);
    let c1 = single_coll.load(Ordering::Relaxed);
    if c1 > 0 {
        rep.violation(Violation {
            key: "C10|code-2char".into(),
            class: "checksum-code-misses-2-character-error".into(),
            what: format!("{} syndrome collisions among single-character error patterns; shortest length {:?}", c1, first_bad_len.lock().unwrap()),
            case: json!({"lmax": lmax}),
        });
    }
    // (ii): in-group errors. Find the largest length L* <= lmax for which all three alignments
    // L*-2..L* are collision free (monotone in L for a fixed alignment), by bisection.
    let ingroup_collisions = |l: usize| -> (u64, u64) {
        let (mut cr, _, _) = layout(l);
        cr.extend(0..8usize);
        let mut v: Vec<u64> = vec![0];
        for r in &cr {
            for d in 1..32usize {
                v.push(tab[*r][d]);
            }
        }
        let pairs: Vec<u64> = (0..cr.len())
            .into_par_iter()
            .flat_map_iter(|a| {
                let tab = &tab;
                let cr = &cr;
                (a + 1..cr.len()).flat_map(move |b| (1..32usize).flat_map(move |v1| (1..32usize).map(move |v2| tab[cr[a]][v1] ^ tab[cr[b]][v2])))
            })
            .collect();
        v.extend(pairs);
        let n = v.len() as u64;
        v.par_sort_unstable();
        (v.windows(2).filter(|w| w[0] == w[1]).count() as u64, n)
    };
    let free3 = |l: usize, total: &mut u64| -> bool {
        for x in l.saturating_sub(2).max(1)..=l {
            let (c, n) = ingroup_collisions(x);
            *total += n;
            if c > 0 {
                return false;
            }
        }
        true
    };
    let mut lo = 60usize.min(lmax); // assumed free; verified below
    let mut hi = lmax;
    let mut ingroup_coll = 0u64;
    let l_star;
    if free3(hi, &mut total) {
        l_star = hi;
    } else if !free3(lo, &mut total) {
        l_star = 0;
        ingroup_coll = 1;
    } else {
        while hi - lo > 1 {
            let mid = (lo + hi) / 2;
            if free3(mid, &mut total) {
                lo = mid;
            } else {
                hi = mid;
            }
        }
        l_star = lo;
    }
    let required = tier.pick(200usize, 480).min(lmax);
    if l_star < required {
        ingroup_coll = ingroup_coll.max(1);
        rep.violation(Violation {
            key: "C10|code-4ingroup".into(),
            class: "checksum-code-misses-4-in-group-error".into(),
            what: format!("4 in-group substitutions are only guaranteed detected up to {} characters (required: about 500, threshold {})", l_star, required),
            case: json!({"lmax": lmax, "largest_collision_free_length": l_star}),
        });
    }
    // (iii) superset model
    let sup_chars = tier.pick(150, 480);
    let npos = sup_chars + (sup_chars + 2) / 3 + 8;
    let mut synd: Vec<u64> = vec![0];
    for r in 0..npos {
        for v in 1..32 {
            synd.push(tab[r][v]);
        }
    }
    let pairs: Vec<u64> = (0..npos)
        .into_par_iter()
        .flat_map_iter(|r1| {
            let tab = &tab;
            (r1 + 1..npos).flat_map(move |r2| (1..32usize).flat_map(move |v1| (1..32usize).map(move |v2| tab[r1][v1] ^ tab[r2][v2])))
        })
        .collect();
    synd.extend(pairs);
    total += synd.len() as u64;
    synd.par_sort_unstable();
    let sup_coll = synd.windows(2).filter(|w| w[0] == w[1]).count() as u64;
    if sup_coll > 0 {
        rep.violation(Violation {
            key: format!("C10|code-distance|{}", sup_chars),
            class: "checksum-code-distance-below-5".into(),
            what: format!("{} syndrome collisions among arbitrary error patterns of weight <= 2 at {} characters", sup_coll, sup_chars),
            case: json!({"max_chars": sup_chars}),
        });
    }
    *cen.entry("code_model_error_patterns").or_insert(0) += total;
    *cen.entry("code_model_syndrome_collisions").or_insert(0) += c1 + ingroup_coll + sup_coll;
    rep.extra("checksum_code_model", json!({
        "two_character_errors": {"every_length_up_to": lmax, "collisions": c1},
        "four_in_group_errors": {"largest_length_with_guarantee": l_star, "searched_up_to": lmax},
        "arbitrary_weight_4_symbol_errors": {"up_to_chars": sup_chars, "collisions": sup_coll},
        "patterns_enumerated": total,
        "argument": "syndromes are linear in the error pattern: if no two patterns of a family share a syndrome (and none is zero), no sum of two of them is a codeword"}));
    (conf + subs, total)
}

pub fn run(tier: Tier) -> i32 {
    let rep = Report::new("C10", tier);
    let n = tier.pick(6, 7);
    rep.extra("bounds", json!({"miniscript_nodes": n, "full_alphabet_nodes": n - 1}));
    let mut states = 0;
    let mut transitions = 0;
    for (cen, s, t) in [
        ms_roundtrip::<Segwitv0>(&rep, "segwitv0", n, Alphabet::Small, false),
        ms_roundtrip::<Tap>(&rep, "tap", n, Alphabet::Small, true),
        ms_roundtrip::<Legacy>(&rep, "legacy", n - 1, Alphabet::Small, false),
        ms_roundtrip::<BareCtx>(&rep, "bare", n - 2, Alphabet::Small, false),
        ms_roundtrip::<Segwitv0>(&rep, "segwitv0", n - 1, Alphabet::Full, false),
        ms_roundtrip::<Tap>(&rep, "tap", n - 1, Alphabet::Full, true),
    ] {
        rep.merge_counts(&cen);
        states += s;
        transitions += t;
    }
    let mut cen = Census::new();
    let strings = desc_roundtrip(&rep, &mut cen);
    policy_roundtrip(&rep, &mut cen, tier);
    key_roundtrip(&rep, &mut cen);
    secret_key_roundtrip(&rep, &mut cen);
    key_mix_roundtrip(&rep, &mut cen);
    wallet_policy_roundtrip(&rep, &mut cen);
    let (cs_evals, patterns) = checksum_checks(&rep, &mut cen, &strings, tier);
    rep.merge_counts(&cen);
    if let Some(s) = strings.iter().max_by_key(|s| s.len()) {
        rep.sample(json!({"descriptor": s}));
    }
    rep.sample(json!({"key_grammar": "[origin]? (compressed|uncompressed|x-only|xpub|tpub) (/step)* (/<a;b(;c)>)? (/*|/*'|/*h)?"}));
    rep.assume("reference text grammar = harness printer (ast.rs / desc.rs / policy.rs); BIP-380 checksum re-implemented from the BIP text");
    let ok = rep.get("ms_roundtrips_ok") + rep.get("descriptor_roundtrips_ok") + rep.get("policy_roundtrips_ok") + rep.get("key_roundtrips_ok");
    rep.finish(
        states + patterns,
        transitions + cs_evals,
        ok + rep.get("checksum_conformance_strings"),
        rep.get("miniscripts") + rep.get("descriptors") + rep.get("semantic_policies") + rep.get("concrete_policies") + rep.get("key_strings") + cs_evals,
        ok.min(rep.get("checksum_substitutions_tried")),
        "round trip: every well-typed term up to the node bound (4 contexts; display == reference grammar, sugared and unsugared spellings parse to the same structure, re-display is a fixed point), descriptor wrappings incl. every tap tree shape up to 5 leaves (with own BIP-380 checksum), semantic/concrete policies, descriptor key grammar; checksum: implementation == BIP-380 model on every enumerated string and every (position, character) of base strings, ALL 1- and 2-character substitutions of short descriptors rejected, code model: all error patterns of weight <= 2 have distinct syndromes up to the stated length. non-trivial = min(round trips ok, substitutions tried)",
        true,
    )
}

#!/usr/bin/env python3
"""Write /verif/seeded/<id>/meta.json from the confirmation and detection records."""
import json, os, sys
NEEDS = json.load(open('/verif/seeded/needs.json'))
base = '/verif/seeded'
for sid in sorted(os.listdir(base)):
    d = f'{base}/{sid}'
    if not os.path.isdir(d) or not os.path.exists(f'{d}/confirm.json'):
        continue
    c = json.load(open(f'{d}/confirm.json'))
    if c.get('kind') == 'benign':
        continue
    det = json.load(open(f'{d}/detection.json')) if os.path.exists(f'{d}/detection.json') else {}
    n = NEEDS.get(sid, {})
    caught = sorted({k for tier in det.values() for k, v in tier.items() if v['exit'] == 1 and v['violations'] > 0})
    silent = sorted({k for tier in det.values() for k, v in tier.items() if v['exit'] == 0} - set(caught))
    meta = {
        'seed': sid,
        'property': sid.split('-')[0],
        'origin': 'independent sub-agent given only the property text and a scratch worktree',
        'change': n.get('change', ''),
        'needs_to_manifest': n.get('needs', ''),
        'confirmed_in_scratch_worktree': {
            'patch_touches_only_src': c['touches_only_src'],
            'repo_suite_with_change': c['suite_with_change'],
            'demonstration_fails_with_change': c['demo_with_change']['exit'] != 0,
            'demonstration_passes_without_change': c['demo_without_change']['exit'] == 0,
            'commands': ['git apply patch.diff', 'cargo test --workspace --no-fail-fast --offline', 'cargo test --offline --test seeded_demo', 'git apply -R patch.diff', 'cargo test --offline --test seeded_demo'],
        },
        'checks_run_with_change_applied_to_repo': det,
        'caught_by': caught,
        'silent': silent,
        'first_run': n.get('first_run', ''),
        'strengthening': n.get('strengthening', ''),
    }
    json.dump(meta, open(f'{d}/meta.json', 'w'), indent=1)
    print(sid, 'caught by', caught)

//! C18 — policy transformations preserve meaning.

use std::collections::BTreeMap;
use std::sync::atomic::{AtomicU64, Ordering};

use bitcoin::{absolute, relative};
use miniscript::policy::Liftable;
use rayon::prelude::*;
use serde_json::json;

use crate::common::*;
use crate::policy::{enum_concrete_shapes, enum_semantic, fill_holes, walk_semantic, P};

type Census = BTreeMap<&'static str, u64>;
fn bump(c: &mut Census, k: &'static str) { *c.entry(k).or_insert(0) += 1; }
fn merge(a: &mut Census, b: Census) {
    for (k, v) in b {
        *a.entry(k).or_insert(0) += v;
    }
}

fn atoms_of(ps: &[&P]) -> Vec<P> {
    let mut v: Vec<P> = vec![];
    for p in ps {
        for a in p.atoms() {
            if !v.contains(&a) {
                v.push(a);
            }
        }
    }
    v
}

/// truth table equality with all atoms independent
fn equivalent(a: &P, b: &P) -> bool {
    let atoms = atoms_of(&[a, b]);
    assert!(atoms.len() <= 20);
    for m in 0..(1u32 << atoms.len()) {
        let f = |p: &P| atoms.iter().position(|x| x == p).map(|i| m & (1 << i) != 0).unwrap_or(false);
        if a.eval(&f) != b.eval(&f) {
            return false;
        }
    }
    true
}

fn implies(a: &P, b: &P) -> bool {
    let atoms = atoms_of(&[a, b]);
    for m in 0..(1u32 << atoms.len()) {
        let f = |p: &P| atoms.iter().position(|x| x == p).map(|i| m & (1 << i) != 0).unwrap_or(false);
        if a.eval(&f) && !b.eval(&f) {
            return false;
        }
    }
    true
}

fn rel_implied(t: u32, age: u32) -> bool {
    // BIP68 semantics of "lock t is met at relative lock value `age`": same unit, t <= age
    let unit = |x: u32| x & (1 << 22) != 0;
    unit(t) == unit(age) && (t & 0xffff) <= (age & 0xffff)
}
fn abs_implied(t: u32, n: u32) -> bool {
    let unit = |x: u32| x >= 500_000_000;
    unit(t) == unit(n) && t <= n
}

/// minimum number of distinct true key atoms over satisfying assignments
fn min_keys(p: &P) -> Option<usize> {
    let atoms = atoms_of(&[p]);
    let mut best: Option<usize> = None;
    for m in 0..(1u32 << atoms.len()) {
        let f = |q: &P| atoms.iter().position(|x| x == q).map(|i| m & (1 << i) != 0).unwrap_or(false);
        if p.eval(&f) {
            let n = atoms.iter().enumerate().filter(|(i, a)| matches!(a, P::Key(_)) && m & (1 << i) != 0).count();
            best = Some(best.map(|b: usize| b.min(n)).unwrap_or(n));
        }
    }
    best
}

/// lock-kind masks (bit0 csv-height, bit1 csv-time, bit2 cltv-height, bit3 cltv-time) of every
/// satisfying path: a path picks one child of each `or`, exactly k children of each `thresh`,
/// all children of each `and`, and contains no UNSATISFIABLE leaf.
fn path_masks(p: &P) -> Vec<u8> {
    let uniq = |mut v: Vec<u8>| {
        v.sort();
        v.dedup();
        v
    };
    let cross = |a: &[u8], b: &[u8]| -> Vec<u8> { a.iter().flat_map(|x| b.iter().map(move |y| x | y)).collect() };
    match p {
        P::Unsat => vec![],
        P::Older(t) => vec![if t & (1 << 22) != 0 { 2 } else { 1 }],
        P::After(t) => vec![if *t >= 500_000_000 { 8 } else { 4 }],
        P::And(v) => uniq(v.iter().fold(vec![0u8], |acc, c| cross(&acc, &path_masks(c)))),
        P::Or(v) => uniq(v.iter().flat_map(|(_, c)| path_masks(c)).collect()),
        P::Thresh(k, v) => {
            let ms: Vec<Vec<u8>> = v.iter().map(path_masks).collect();
            let mut out = vec![];
            for sel in 0u32..(1 << v.len()) {
                if sel.count_ones() as usize != *k {
                    continue;
                }
                let mut acc = vec![0u8];
                for (i, m) in ms.iter().enumerate() {
                    if sel & (1 << i) != 0 {
                        acc = cross(&acc, m);
                    }
                }
                out.extend(acc);
            }
            uniq(out)
        }
        _ => vec![0],
    }
}

fn mixed_locks(p: &P) -> bool { path_masks(p).iter().any(|m| m & 3 == 3 || m & 12 == 12) }

fn has_repeated_atoms(p: &P) -> bool {
    fn leaves(p: &P, out: &mut Vec<P>) {
        let c = p.children();
        if c.is_empty() {
            out.push(p.clone());
        }
        for x in c {
            leaves(x, out);
        }
    }
    let mut l = vec![];
    leaves(p, &mut l);
    let n = l.len();
    l.sort();
    l.dedup();
    l.len() != n
}

fn semantic_checks(rep: &Report, p: &P, cen: &mut Census) {
    bump(cen, "semantic_policies");
    let real = p.to_semantic();
    let psx = p.sexpr();
    let mut viol = |class: &str, what: String| {
        rep.violation(Violation {
            key: format!("C18|{}|{}", class, psx),
            class: class.to_string(),
            what,
            case: json!({"policy": psx}),
        });
    };
    // normalized / sorted
    match guard(|| real.clone().normalized()) {
        Ok(n) => {
            let w = walk_semantic(&n);
            if !equivalent(p, &w) {
                viol("normalized-changes-meaning", format!("normalized() = {} has a different truth table", w.sexpr()));
            } else {
                bump(cen, "normalized_ok");
            }
            match guard(|| n.clone().normalized()) {
                Ok(n2) => {
                    if walk_semantic(&n2) != w {
                        viol("normalized-not-idempotent", format!("{} -> {}", w.sexpr(), walk_semantic(&n2).sexpr()));
                    }
                }
                Err(e) => viol("normalized-panic", e),
            }
        }
        Err(e) => viol("normalized-panic", e),
    }
    match guard(|| real.clone().sorted()) {
        Ok(s) => {
            if !equivalent(p, &walk_semantic(&s)) {
                viol("sorted-changes-meaning", format!("sorted() = {}", walk_semantic(&s).sexpr()));
            }
        }
        Err(e) => viol("sorted-panic", e),
    }
    // at_age / at_lock_time: for every value on both sides of every lock, both units
    let mut ages: Vec<u32> = vec![1, 0x400001];
    let mut times: Vec<u32> = vec![1, 500_000_001];
    for a in p.atoms() {
        match a {
            P::Older(t) => ages.extend([t - 1, t, t + 1]),
            P::After(t) => times.extend([t - 1, t, t + 1]),
            _ => {}
        }
    }
    ages.sort();
    ages.dedup();
    times.sort();
    times.dedup();
    for age in ages {
        let lt = match relative::LockTime::from_consensus(age) {
            Ok(l) => l,
            Err(_) => continue,
        };
        bump(cen, "at_age_evaluations");
        match guard(|| real.clone().at_age(lt)) {
            Ok(f) => {
                let w = walk_semantic(&f);
                // expected: original with unmet older() atoms replaced by UNSATISFIABLE
                let exp = subst(p, &|a| match a {
                    P::Older(t) if !rel_implied(*t, age) => Some(P::Unsat),
                    _ => None,
                });
                if !equivalent(&exp, &w) {
                    viol("at_age-wrong", format!("at_age({:#x}) = {} but the restriction is {}", age, w.sexpr(), exp.sexpr()));
                } else {
                    bump(cen, "filters_ok");
                }
                if w.atoms().iter().any(|a| matches!(a, P::Older(t) if !rel_implied(*t, age))) {
                    viol("at_age-keeps-unmet-lock", format!("at_age({:#x}) = {}", age, w.sexpr()));
                }
            }
            Err(e) => viol("at_age-panic", e),
        }
    }
    for n in times {
        let lt = absolute::LockTime::from_consensus(n);
        bump(cen, "at_lock_time_evaluations");
        match guard(|| real.clone().at_lock_time(lt)) {
            Ok(f) => {
                let w = walk_semantic(&f);
                let exp = subst(p, &|a| match a {
                    P::After(t) if !abs_implied(*t, n) => Some(P::Unsat),
                    _ => None,
                });
                if !equivalent(&exp, &w) {
                    viol("at_lock_time-wrong", format!("at_lock_time({}) = {} but the restriction is {}", n, w.sexpr(), exp.sexpr()));
                } else {
                    bump(cen, "filters_ok");
                }
                if w.atoms().iter().any(|a| matches!(a, P::After(t) if !abs_implied(*t, n))) {
                    viol("at_lock_time-keeps-unmet-lock", format!("at_lock_time({}) = {}", n, w.sexpr()));
                }
            }
            Err(e) => viol("at_lock_time-panic", e),
        }
    }
    // lock accessors: sorted, de-duplicated values that occur in the policy
    {
        fn locks(p: &P, rel: bool, out: &mut Vec<u32>) {
            match p {
                P::Older(n) if rel => out.push(*n),
                P::After(n) if !rel => out.push(*n),
                _ => {}
            }
            for c in p.children() {
                locks(c, rel, out);
            }
        }
        for rel in [true, false] {
            let mut exp = vec![];
            locks(p, rel, &mut exp);
            exp.sort();
            exp.dedup();
            let got = if rel { real.relative_timelocks() } else { real.absolute_timelocks() };
            if got != exp {
                viol("timelock-accessor", format!("{}_timelocks() = {:?}, the policy contains {:?}", if rel { "relative" } else { "absolute" }, got, exp));
            }
        }
        // is_trivial / is_unsatisfiable of the normalized policy imply the constant truth table
        if let Ok(nrm) = guard(|| real.clone().normalized()) {
            let tt: Vec<bool> = {
                let atoms = p.atoms();
                (0..(1u32 << atoms.len().min(12))).map(|m| p.eval(&|a: &P| atoms.iter().position(|x| x == a).map(|i| m & (1 << i) != 0).unwrap_or(false))).collect()
            };
            if nrm.is_trivial() && !tt.iter().all(|b| *b) {
                viol("is_trivial", "normalized() is TRIVIAL but the policy is not a tautology".into());
            }
            if nrm.is_unsatisfiable() && tt.iter().any(|b| *b) {
                viol("is_unsatisfiable", "normalized() is UNSATISFIABLE but some assignment satisfies the policy".into());
            }
        }
    }
    // n_keys / minimum_n_keys
    if real.n_keys() != p.keys().len() {
        viol("n_keys", format!("n_keys = {} but {} key tokens", real.n_keys(), p.keys().len()));
    }
    match guard(|| real.minimum_n_keys()) {
        Ok(m) => {
            let r = min_keys(p);
            if m != r {
                if m.is_some() && r.is_some() && has_repeated_atoms(p) && m.unwrap() > r.unwrap() {
                    // documented-as-double-counting behaviour on repeated keys: keyed by cause
                    rep.violation(Violation {
                        key: "C18|minimum_n_keys-double-counts-repeated-keys".into(),
                        class: "minimum_n_keys-double-counts-repeated-keys".into(),
                        what: format!("minimum_n_keys({}) = {:?}, fewest distinct signing keys = {:?}", psx, m, r),
                        case: json!({"policy": psx}),
                    });
                } else {
                    viol("minimum_n_keys", format!("minimum_n_keys = {:?}, reference = {:?}", m, r));
                }
            } else {
                bump(cen, "minimum_n_keys_ok");
            }
        }
        Err(e) => viol("minimum_n_keys-panic", e),
    }
}

fn subst(p: &P, f: &dyn Fn(&P) -> Option<P>) -> P {
    if let Some(r) = f(p) {
        return r;
    }
    match p {
        P::Thresh(k, v) => P::Thresh(*k, v.iter().map(|c| subst(c, f)).collect()),
        P::And(v) => P::And(v.iter().map(|c| subst(c, f)).collect()),
        P::Or(v) => P::Or(v.iter().map(|(w, c)| (*w, subst(c, f))).collect()),
        o => o.clone(),
    }
}

pub fn run(tier: Tier) -> i32 {
    let rep = Report::new("C18", tier);
    let atoms = vec![
        P::Key("A".into()),
        P::Key("B".into()),
        P::Key("C".into()),
        P::Sha256("H".into()),
        P::After(10),
        P::After(20),
        P::After(500_000_010),
        P::Older(5),
        P::Older(6),
        P::Older(4_194_309),
        P::Trivial,
        P::Unsat,
    ];
    let max_nodes = tier.pick(5, 6);
    let levels = enum_semantic(max_nodes, &atoms, tier.pick(3, 3));
    let mut all: Vec<&P> = levels.iter().flatten().collect();
    // wide thresholds (arity 4 and 5, every k) over keys, constants, a lock and one nested conjunction:
    // the threshold re-basing arithmetic (m = k - trivial, n = len - trivial - unsatisfiable)
    let wide: Vec<P> = {
        let pool = vec![P::Key("A".into()), P::Key("B".into()), P::Key("C".into()), P::Trivial, P::Unsat, P::Older(5), P::Thresh(2, vec![P::Key("D".into()), P::After(10)])];
        let mut v = vec![];
        for n in [4usize, 5] {
            let total = pool.len().pow(n as u32);
            for mut code in 0..total {
                let mut ch = vec![];
                let mut sorted = true;
                let mut last = 0;
                for _ in 0..n {
                    let i = code % pool.len();
                    code /= pool.len();
                    // children are a multiset for a threshold: enumerate non-decreasing index tuples only
                    if i < last {
                        sorted = false;
                    }
                    last = i;
                    ch.push(pool[i].clone());
                }
                if !sorted {
                    continue;
                }
                for k in 1..=n {
                    v.push(P::Thresh(k, ch.clone()));
                }
            }
        }
        v
    };
    all.extend(wide.iter());
    rep.extra("wide_thresholds", json!(wide.len()));
    rep.extra("bounds", json!({"semantic_nodes": max_nodes, "thresh_arity": 3, "policies_per_level": levels.iter().map(|l| l.len()).collect::<Vec<_>>()}));
    let cen = all
        .par_iter()
        .fold(Census::new, |mut cen, p| {
            semantic_checks(&rep, p, &mut cen);
            cen
        })
        .reduce(Census::new, |mut a, b| {
            merge(&mut a, b);
            a
        });
    rep.merge_counts(&cen);
    // miniscript side of the time-lock analysis: node-level bookkeeping and the mixed-lock
    // predicate on the lock interplay family and on every term with the full leaf alphabet
    {
        use crate::ast::{build, walk, StrEnv, T};
        use crate::terms::{explore, Alphabet};
        let te = explore::<miniscript::Segwitv0>(tier.pick(4, 5), Alphabet::Full, false);
        let mut terms: Vec<T> = te.all().map(|m| walk(m).relabel_distinct()).collect();
        terms.extend(crate::c12::lock_family::<miniscript::Segwitv0>());
        let c2 = terms
            .par_iter()
            .fold(Census::new, |mut cen, t| {
                let ms = match build::<String, miniscript::Segwitv0>(t, &StrEnv) {
                    Ok(m) => m,
                    Err(_) => return cen,
                };
                bump(&mut cen, "miniscript_timelock_checks");
                let li = ms.ext.timelock_info;
                let got = [li.csv_with_height, li.csv_with_time, li.cltv_with_height, li.cltv_with_time, li.contains_combination];
                let exp = crate::c12::tl_info(t);
                let path_mixed = crate::c12::mixed_timelocks(t);
                let mut viol = |class: &str, what: String| {
                    rep.violation(Violation {
                        key: format!("C18|ms-{}|{}", class, t.sexpr()),
                        class: format!("miniscript-{}", class),
                        what,
                        case: json!({"miniscript": ms.to_string(), "model": t.sexpr()}),
                    });
                };
                if got != exp {
                    viol("timelock_info", format!("timelock_info (csv h/t, cltv h/t, combination) = {:?}, reference {:?}", got, exp));
                }
                // the predicate fires whenever a satisfying path needs both units (never misses one)
                if path_mixed && !ms.has_mixed_timelocks() {
                    viol("mixed-missed", "a satisfying path needs a height and a time lock of one kind but has_mixed_timelocks() is false".into());
                }
                if ms.has_mixed_timelocks() && !path_mixed {
                    if crate::c12::mixed_timelocks_syntactic(t) || exp[4] {
                        bump(&mut cen, "miniscript_mixed_conservative");
                    } else {
                        viol("mixed-invented", "has_mixed_timelocks() is true but no conjunction combines the two units".into());
                    }
                }
                cen
            })
            .reduce(Census::new, |mut a, b| {
                merge(&mut a, b);
                a
            });
        rep.merge_counts(&c2);
    }
    // wider thresholds (arity 4, all k) over atoms
    let mut wide: Vec<P> = vec![];
    for a in 0..atoms.len() {
        for b in 0..atoms.len() {
            for k in 1..=4 {
                wide.push(P::Thresh(k, vec![atoms[a].clone(), atoms[b].clone(), atoms[(a + b) % atoms.len()].clone(), atoms[(a * 5 + b + 3) % atoms.len()].clone()]));
                wide.push(P::Thresh(k.min(3), vec![atoms[a].clone(), P::Thresh(2, vec![atoms[b].clone(), atoms[(a + 1) % atoms.len()].clone()]), P::Thresh(1, vec![atoms[(b + 2) % atoms.len()].clone(), atoms[a].clone()])]));
            }
        }
    }
    let cen = wide
        .par_iter()
        .fold(Census::new, |mut cen, p| {
            semantic_checks(&rep, p, &mut cen);
            cen
        })
        .reduce(Census::new, |mut a, b| {
            merge(&mut a, b);
            a
        });
    rep.merge_counts(&cen);

    // entailment: all ordered pairs of policies with <= n_ent nodes
    let n_ent = tier.pick(3, 4);
    let small: Vec<&P> = levels.iter().take(n_ent + 1).flatten().collect();
    let ent_pairs = AtomicU64::new(0);
    let ent_some = AtomicU64::new(0);
    small.par_iter().for_each(|a| {
        for b in &small {
            ent_pairs.fetch_add(1, Ordering::Relaxed);
            let (ra, rb) = (a.to_semantic(), b.to_semantic());
            match guard(|| ra.entails(rb)) {
                Ok(Some(r)) => {
                    ent_some.fetch_add(1, Ordering::Relaxed);
                    let exp = implies(a, b);
                    if r != exp {
                        rep.violation(Violation {
                            key: format!("C18|entails|{}|{}", a.sexpr(), b.sexpr()),
                            class: "entails-differs-from-implication".into(),
                            what: format!("({}).entails({}) = {} but truth-table implication is {}", a.sexpr(), b.sexpr(), r, exp),
                            case: json!({"a": a.sexpr(), "b": b.sexpr()}),
                        });
                    }
                }
                Ok(None) => {}
                Err(e) => {
                    rep.violation(Violation {
                        key: format!("C18|entails-panic|{}|{}", a.sexpr(), b.sexpr()),
                        class: format!("entails-panic@{}", panic_site(&e)),
                        what: e,
                        case: json!({"a": a.sexpr(), "b": b.sexpr()}),
                    });
                }
            }
        }
    });
    rep.count("entailment_pairs", ent_pairs.load(Ordering::Relaxed));
    rep.count("entailment_answers", ent_some.load(Ordering::Relaxed));

    // concrete policies: lift and timelock check
    let catoms: Vec<P> = atoms.iter().filter(|a| !matches!(a, P::Key(k) if k == "C")).cloned().collect();
    let shapes = enum_concrete_shapes(tier.pick(3, 4), &[(1, 1), (9, 1)], 3);
    let mut conc: Vec<P> = vec![];
    for (nl, lv) in shapes.iter().enumerate() {
        for sh in lv {
            let total = if nl <= 2 { catoms.len().pow(nl as u32) } else { catoms.len() * catoms.len() };
            for code in 0..total {
                let ls: Vec<P> = (0..nl)
                    .map(|i| {
                        if nl <= 2 {
                            catoms[(code / catoms.len().pow(i as u32)) % catoms.len()].clone()
                        } else {
                            catoms[(code / catoms.len().pow((i % 2) as u32) + i * 3) % catoms.len()].clone()
                        }
                    })
                    .collect();
                conc.push(fill_holes(sh, &ls));
            }
        }
    }
    conc.sort();
    conc.dedup();
    let cen = conc
        .par_iter()
        .fold(Census::new, |mut cen, p| {
            bump(&mut cen, "concrete_policies");
            let real = p.to_concrete();
            let psx = p.sexpr();
            let mixed = mixed_locks(p);
            let lib_mixed = real.check_timelocks().is_err();
            fn has_unsat(p: &P) -> bool { matches!(p, P::Unsat) || p.children().iter().any(|c| has_unsat(c)) }
            if lib_mixed && !mixed && has_unsat(p) {
                // conservative on paths that run through UNSATISFIABLE: keyed by cause
                rep.violation(Violation {
                    key: "C18|check_timelocks-counts-unsatisfiable-paths".into(),
                    class: "check_timelocks-counts-unsatisfiable-paths".into(),
                    what: format!("check_timelocks fires for {} whose only lock-mixing paths contain UNSATISFIABLE", psx),
                    case: json!({"policy": psx}),
                });
            } else if lib_mixed != mixed {
                rep.violation(Violation {
                    key: format!("C18|check_timelocks|{}", psx),
                    class: if lib_mixed { "check_timelocks-fires-without-mixed-path" } else { "check_timelocks-misses-mixed-path" }.into(),
                    what: format!("check_timelocks is_err = {} but a minimal satisfying set mixing height and time locks {}", lib_mixed, if mixed { "exists" } else { "does not exist" }),
                    case: json!({"policy": psx}),
                });
            } else if mixed {
                bump(&mut cen, "mixed_timelock_policies_detected");
            }
            match guard(|| real.lift()) {
                Ok(Ok(l)) => {
                    let w = walk_semantic(&l);
                    if !equivalent(p, &w) {
                        rep.violation(Violation {
                            key: format!("C18|concrete-lift|{}", psx),
                            class: "concrete-lift-changes-meaning".into(),
                            what: format!("lift() = {}", w.sexpr()),
                            case: json!({"policy": psx}),
                        });
                    } else {
                        bump(&mut cen, "concrete_lifts_ok");
                    }
                }
                Ok(Err(_)) => {
                    if !mixed && !lib_mixed {
                        rep.violation(Violation {
                            key: format!("C18|concrete-lift-refused|{}", psx),
                            class: "concrete-lift-refused".into(),
                            what: "lift() refuses a policy without mixed time locks".into(),
                            case: json!({"policy": psx}),
                        });
                    }
                }
                Err(e) => rep.violation(Violation { key: format!("C18|lift-panic|{}", psx), class: "concrete-lift-panic".into(), what: e, case: json!({"policy": psx}) }),
            }
            cen
        })
        .reduce(Census::new, |mut a, b| {
            merge(&mut a, b);
            a
        });
    rep.merge_counts(&cen);
    rep.sample(json!({"semantic_policy": all.last().map(|p| p.sexpr())}));
    rep.sample(json!({"concrete_policy": conc.last().map(|p| p.sexpr())}));
    rep.assume("atoms are independent boolean variables for truth tables; lock atoms get their BIP68/BIP65 truth value for at_age / at_lock_time");
    let evals = rep.get("semantic_policies") + rep.get("at_age_evaluations") + rep.get("at_lock_time_evaluations") + rep.get("entailment_pairs") + rep.get("concrete_policies");
    rep.finish(
        all.len() as u64 + wide.len() as u64 + conc.len() as u64,
        evals,
        rep.get("normalized_ok") + rep.get("filters_ok") + rep.get("entailment_answers") + rep.get("concrete_lifts_ok") + rep.get("minimum_n_keys_ok"),
        evals,
        rep.get("filters_ok").min(rep.get("entailment_answers")),
        "ALL semantic policies up to the node bound over 12 atoms (keys, hash, 3 absolute and 3 relative locks in both units, TRIVIAL, UNSATISFIABLE; thresholds of arity <= 3 with every k, repeated atoms allowed) plus wider thresholds: normalized / sorted keep the truth table, normalized idempotent, at_age / at_lock_time equal the restriction for every value around every lock in both units, n_keys, minimum_n_keys vs exhaustive assignment search; entails vs truth-table implication on ALL ordered pairs up to 3 nodes; concrete policies up to the leaf bound: lift keeps the truth table, check_timelocks fires iff a minimal satisfying set mixes units. non-trivial = min(filter checks, entailment answers)",
        true,
    )
}

//! C03 — non-malleable satisfactions of sane descriptors are the ONLY witness a third party
//! can get accepted: exhaustive search of all witnesses over the adversary's alphabet.

use std::collections::BTreeMap;

use rayon::prelude::*;
use serde_json::json;

use crate::c01::{bounds, Prop};
use crate::common::*;
use crate::desc::D;
use crate::keys::KeyForm;
use crate::rsm::verify_input;
use crate::sat::*;
use crate::world::{make_spend, worlds, WorldSat};

type Census = BTreeMap<&'static str, u64>;
fn bump(c: &mut Census, k: &'static str) { *c.entry(k).or_insert(0) += 1; }
fn bump_n(c: &mut Census, k: &'static str, n: u64) { *c.entry(k).or_insert(0) += n; }

fn control(c: &DescCase, cen: &mut Census) {
    let hl = c.hash_labels();
    for w in worlds(&c.keys, &hl, &c.afters, &c.olders, false) {
        let spend = make_spend(c.spk.clone(), w.locktime, w.sequence);
        let sat = WorldSat { world: &w, spend: &spend, sign: &c.sign, schnorr_all: false, lie_locks: false, cap: crate::world::SignCap::All };
        if let Ok(Ok((witness, script_sig))) = guard(|| c.desc.get_satisfaction_mall(&sat)) {
            if let Ok(tr) = verify_input(&spend, script_sig.as_bytes(), &witness, true) {
                let sigma = sigma_adv(c, &tr.initial_stack);
                let e = all_witnesses(c, &c.targets[0], &sigma, &spend, 100_000);
                if e.capped {
                    continue;
                }
                bump(cen, "control_cases");
                if e.solutions.iter().any(|s| s.witness != tr.initial_stack) {
                    bump(cen, "control_cases_with_alternative_witness");
                }
            }
        }
    }
}

fn check_desc(rep: &Report, c: &DescCase, thorough: bool, cen: &mut Census) {
    if !c.sane {
        // positive control (never a violation): on small NON-sane wsh descriptors the same search
        // must be able to find alternative witnesses for malleable satisfactions.
        if let D::Wsh(t) = &c.d {
            if t.size() <= 4 {
                control(c, cen);
            }
        }
        return;
    }
    bump(cen, "sane_descriptors");
    let hl = c.hash_labels();
    let dsx = c.d.sexpr();
    // sh(wsh(X)) adds a scriptSig and nothing else: its non-malleable satisfaction must be the one of
    // wsh(X) (whose uniqueness the search below decides), and it must refuse where wsh(X) refuses
    let twin: Option<DescCase> = match &c.d {
        D::Wsh(t) => crate::sat::prepare(&D::ShWsh(t.clone()), c.form).ok(),
        _ => None,
    };
    for w in worlds(&c.keys, &hl, &c.afters, &c.olders, thorough) {
        let spend = make_spend(c.spk.clone(), w.locktime, w.sequence);
        let sat = WorldSat { world: &w, spend: &spend, sign: &c.sign, schnorr_all: false, lie_locks: false, cap: crate::world::SignCap::All };
        bump(cen, "evaluations");
        let r0 = guard(|| c.desc.get_satisfaction(&sat));
        if let (Some(tw), Ok(r0)) = (&twin, &r0) {
            let r2 = guard(|| tw.desc.get_satisfaction(&sat));
            let same = match (r0, &r2) {
                (Ok((w0, _)), Ok(Ok((w2, _)))) => w0 == w2,
                (Err(_), Ok(Err(_))) => true,
                _ => false,
            };
            if same {
                bump(cen, "sh_wsh_twins_equal");
            } else {
                rep.violation(Violation {
                    key: format!("C03|sh-wsh-twin|{}|{}", dsx, w.short()),
                    class: "sh-wsh-nonmall-differs-from-wsh".into(),
                    what: format!("the non-malleable satisfier treats sh(wsh(X)) differently from wsh(X): wsh is_ok = {}, sh(wsh) is_ok = {:?}", r0.is_ok(), r2.as_ref().map(|x| x.is_ok())),
                    case: json!({"desc": c.desc.to_string(), "model": dsx, "world": w.json()}),
                });
            }
        }
        let (witness, script_sig) = match r0 {
            Ok(Ok(x)) => x,
            _ => {
                bump(cen, "nonmall_refused");
                continue;
            }
        };
        let tr = match verify_input(&spend, script_sig.as_bytes(), &witness, true) {
            Ok(t) => t,
            Err(_) => {
                bump(cen, "original_rejected(C01 territory)");
                continue;
            }
        };
        bump(cen, "originals");
        if tr.key_path {
            bump(cen, "originals_key_path");
        }
        // element-level original for the executed script
        let orig_elems: Vec<Vec<u8>> = tr.initial_stack.clone();
        let orig_target: Option<usize> = if tr.key_path {
            None
        } else {
            c.targets.iter().position(|t| t.script == tr.script)
        };
        let sigma = sigma_adv(c, &if tr.key_path { witness.clone() } else { orig_elems.clone() });
        let mut alternatives: Vec<(usize, Vec<Vec<u8>>)> = vec![];
        let mut capped = false;
        for (ti, t) in c.targets.iter().enumerate() {
            // key-only descriptors: the single target is the implied script
            let e = all_witnesses(c, t, &sigma, &spend, 300_000);
            bump_n(cen, "rsm_states", e.states);
            bump_n(cen, "rsm_transitions", e.transitions);
            bump_n(cen, "adversarial_paths_failed", e.failures);
            if e.capped {
                capped = true;
                continue;
            }
            for s in e.solutions {
                let is_orig = Some(ti) == orig_target && s.witness == orig_elems;
                if is_orig {
                    bump(cen, "original_refound_by_explorer");
                } else {
                    alternatives.push((ti, s.witness));
                }
            }
        }
        if capped {
            bump(cen, "search_capped");
            rep.cap_hit(format!("adversarial search capped for {}", dsx));
            continue;
        }
        if orig_target.is_some() || tr.key_path || matches!(c.d, D::Pkh(_) | D::Wpkh(_) | D::ShWpkh(_) | D::Bare(_)) {
            bump(cen, "cases_fully_searched");
        }
        // key-only forms execute an implied script: original elems == full stack
        for (ti, alt) in alternatives {
            // confirm concretely before accusing
            let (ss, wit) = wrap_solution(c, &c.targets[ti], &alt);
            if matches!(c.d, D::Pkh(_) | D::Wpkh(_) | D::ShWpkh(_) | D::Bare(_)) && alt == orig_elems {
                bump(cen, "original_refound_by_explorer");
                continue;
            }
            match verify_input(&spend, &ss, &wit, true) {
                Ok(_) => {
                    if ss == script_sig.as_bytes() && wit == witness {
                        bump(cen, "original_refound_by_explorer");
                        continue;
                    }
                    bump(cen, "alternative_witness_found");
                    rep.violation(Violation {
                        key: format!("C03|{}|{}", dsx, w.short()),
                        class: format!("third-party-alternative-witness-{}", c.kind()),
                        what: "a different witness built from public data / visible signatures is accepted under standardness rules".into(),
                        case: json!({"desc": c.desc.to_string(), "model": dsx, "world": w.json(),
                            "original_witness": witness.iter().map(|x| hex(x)).collect::<Vec<_>>(),
                            "original_script_sig": hex(script_sig.as_bytes()),
                            "alternative_witness": wit.iter().map(|x| hex(x)).collect::<Vec<_>>(),
                            "alternative_script_sig": hex(&ss)}),
                    });
                }
                Err(e) => {
                    rep.violation(Violation {
                        key: format!("C03|rsm-inconsistent|{}|{}", dsx, w.short()),
                        class: "machinery-rsm-inconsistent".into(),
                        what: format!("explorer solution rejected by concrete run: {}", e),
                        case: json!({"desc": c.desc.to_string(), "world": w.json()}),
                    });
                }
            }
        }
    }
}

/// Node-level lemma behind the non-malleable choice rules: a (dis)satisfaction that the satisfier
/// marks `has_sig` must contain a signature. Every fragment up to the bound x every world x
/// root_has_sig in {false, true}, through the satisfier hook (non-malleable mode).
fn has_sig_lemma<Ctx: crate::terms::Cx>(rep: &Report, ctxname: &'static str, te: &crate::terms::Terms<Ctx>, n: usize, tap: bool, form: KeyForm, thorough: bool) -> Census {
    use crate::ast::{build, walk};
    use crate::keys::DefEnv;
    use miniscript::miniscript::satisfy::{Placeholder, Satisfaction, Witness};
    use miniscript::DefiniteDescriptorKey;
    let all: Vec<crate::ast::T> = te.levels.iter().take(n + 1).flat_map(|l| l.iter()).map(|m| walk(m).relabel_distinct()).collect();
    all.par_iter()
        .fold(Census::new, |mut cen, t| {
            let env = DefEnv { form, with_origin: true };
            let ms = match build::<DefiniteDescriptorKey, Ctx>(t, &env) {
                Ok(m) => m,
                Err(_) => return cen,
            };
            let script = ms.encode().into_bytes();
            use bitcoin::hashes::Hash;
            let lh = if tap { Some(bitcoin::taproot::TapLeafHash::from_byte_array(crate::rsm::tapleaf_hash(0xc0, &script))) } else { None };
            let sign = if tap {
                crate::world::SignCtx::Taproot { merkle_root: None, internal_x: [0; 32] }
            } else {
                crate::world::SignCtx::Ecdsa { script_code: script.clone(), sigver: crate::rsm::SigVer::WitnessV0 }
            };
            let mut keys = t.keys();
            keys.sort();
            keys.dedup();
            let mut hl: Vec<String> = t.hashes().into_iter().map(|x| x.1).collect();
            hl.sort();
            hl.dedup();
            let spk = bitcoin::ScriptBuf::from_bytes([vec![0x51u8, 0x20], vec![7u8; 32]].concat());
            let tsx = t.sexpr();
            for w in worlds(&keys, &hl, &t.afters(), &t.olders(), thorough) {
                let spend = make_spend(spk.clone(), w.locktime, w.sequence);
                let sat = WorldSat { world: &w, spend: &spend, sign: &sign, schnorr_all: false, lie_locks: false, cap: crate::world::SignCap::All };
                for root_has_sig in [false, true] {
                    let r = guard(|| Satisfaction::<Placeholder<DefiniteDescriptorKey>>::verif_sat_dissat(&ms, &sat, false, root_has_sig, lh));
                    let (s, d) = match r {
                        Ok(x) => x,
                        Err(_) => continue,
                    };
                    for (which, x) in [("satisfaction", &s), ("dissatisfaction", &d)] {
                        bump(&mut cen, "has_sig_lemma_checks");
                        if let Witness::Stack(items) = &x.stack {
                            let any_sig = items.iter().any(|p| {
                                matches!(p, Placeholder::EcdsaSigPk(_) | Placeholder::EcdsaSigPkHash(_) | Placeholder::SchnorrSigPk(..) | Placeholder::SchnorrSigPkHash(..))
                            });
                            if x.has_sig {
                                bump(&mut cen, "has_sig_claims");
                            }
                            if x.has_sig && !any_sig {
                                rep.violation(Violation {
                                    key: format!("C03|has_sig-without-signature|{}|{}|{}|rhs={}|{}", ctxname, which, tsx, root_has_sig, w.short()),
                                    class: format!("has_sig-without-signature-{}-{}", ctxname, t.tag()),
                                    what: format!("the node-level {} is marked has_sig but contains no signature: a third party can build it, the non-malleable choice rules treat it as safe", which),
                                    case: json!({"ctx": ctxname, "fragment": ms.to_string(), "model": tsx, "world": w.json(), "root_has_sig": root_has_sig,
                                        "template": items.iter().map(|p| p.to_string()).collect::<Vec<_>>()}),
                                });
                            }
                        }
                    }
                }
            }
            cen
        })
        .reduce(Census::new, |mut a, b| {
            for (k, v) in b {
                *a.entry(k).or_insert(0) += v;
            }
            a
        })
}

pub fn run(tier: Tier) -> i32 {
    let rep = Report::new("C03", tier);
    match crate::kat::run_kats() {
        Ok(n) => rep.count("rsm_kats_passed", n),
        Err(e) => {
            println!("MACHINERY: reference Script machine failed its known-answer tests: {}", e);
            return 2;
        }
    }
    let b = bounds(Prop::C02, tier);
    let thorough = tier == Tier::Thorough;
    let u = universe(b.n_seg, b.n_leg, b.n_tap, b.alpha);
    let models = descriptor_models(&u, b.n_seg, b.n_shwsh, b.n_leg, b.n_tap, 0);
    rep.extra("bounds", json!({"nodes": {"wsh": b.n_seg, "sh-wsh": b.n_shwsh, "sh": b.n_leg, "tr": b.n_tap}}));
    let cen = models
        .par_iter()
        .fold(Census::new, |mut cen, d| {
            if let Ok(Ok(c)) = guard(|| prepare(d, KeyForm::Compressed)) {
                if c.keys.len() > 6 || matches!(&c.d, D::Wsh(crate::ast::T::Multi(4, _)) | D::Sh(crate::ast::T::Multi(4, _)) | D::Wsh(crate::ast::T::SortedMulti(4, _))) {
                    // wide multisigs: the all-witness search does not scale; they are covered by C01 / C09 / C13 / C17
                    bump(&mut cen, "wide_descriptors_skipped");
                    return cen;
                }
                bump(&mut cen, "descriptors");
                check_desc(&rep, &c, thorough, &mut cen);
            }
            cen
        })
        .reduce(Census::new, |mut a, b| {
            for (k, v) in b {
                *a.entry(k).or_insert(0) += v;
            }
            a
        });
    rep.merge_counts(&cen);
    let nf = b.n_seg.min(u.segwit.levels.len() - 1);
    rep.merge_counts(&has_sig_lemma::<miniscript::Segwitv0>(&rep, "segwitv0", &u.segwit, nf, false, KeyForm::Compressed, thorough));
    rep.merge_counts(&has_sig_lemma::<miniscript::Tap>(&rep, "tap", &u.tap, b.n_tap.min(u.tap.levels.len() - 1), true, KeyForm::XOnly, thorough));
    rep.merge_counts(&crate::c14::malleability_for_c03(&rep, tier));
    if let Some(d) = models.iter().rev().find(|d| matches!(d, D::Wsh(_))) {
        rep.sample(json!({"descriptor_model": d.sexpr()}));
    }
    rep.sample(json!({"adversary_alphabet": "elements of the original witness, [], [1], [2], 0^32, 1^32, 31/33-byte junk, every preimage, every public key, one non-verifying signature"}));
    rep.assume("the adversary cannot forge signatures nor alter the signed transaction; it knows every preimage and public key");
    rep.assume("RSM implements DESIGN.md Appendix A; standardness flags");
    let states = (u.segwit.count() + u.legacy.count() + u.tap.count()) as u64 + rep.get("rsm_states");
    let transitions = u.segwit.attempted + u.legacy.attempted + u.tap.attempted + rep.get("rsm_transitions");
    rep.finish(
        states,
        transitions,
        rep.get("original_refound_by_explorer"),
        rep.get("evaluations"),
        rep.get("cases_fully_searched"),
        "all sane descriptors from the C01 enumeration x all worlds in which the non-malleable satisfier succeeds; ALL witnesses over the adversary alphabet are explored on every script of the output (every tap leaf); any accepted witness other than the original is a violation; node level: every fragment x world x root_has_sig through the satisfier hook, a (dis)satisfaction marked has_sig contains a signature. non-trivial = cases whose adversarial search completed",
        true,
    )
}

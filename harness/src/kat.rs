//! Known-answer tests binding the reference Script machine to reality.
//! Run in the preamble of every execution-backed check; any failure is a
//! machinery error (exit 2), never a verdict.

use bitcoin::consensus::deserialize;
use bitcoin::{Amount, ScriptBuf, Transaction, TxOut};

use crate::ast::op::*;
use crate::common::unhex;
use crate::rsm::*;

const BIP174_FINAL_TX: &str = "0200000000010258e87a21b56daf0c23be8e7070456c336f7cbaa5c8757924f545887bb2abdd7500000000da00473044022074018ad4180097b873323c0015720b3684cc8123891048e7dbcd9b55ad679c99022073d369b740e3eb53dcefa33823c8070514ca55a7dd9544f157c167913261118c01483045022100f61038b308dc1da865a34852746f015772934208c6d24454393cd99bdf2217770220056e675a675a6d0a02b85b14e5e29074d8a25a9b5760bea2816f661910a006ea01475221029583bf39ae0a609747ad199addd634fa6108559d6c5cd39b4c2183f1ab96e07f2102dab61ff49a14db6a7d02b0cd1fbb78fc4b18312b5b4e54dae4dba2fbfef536d752aeffffffff838d0427d0ec650a68aa46bb0b098aea4422c071b2ca78352a077959d07cea1d01000000232200208c2353173743b595dfb4a07b72ba8e42e3797da74e87fe7d9d7497e3b2028903ffffffff0270aaf00800000000160014d85c2b71d0060b09c9886aeb815e50991dda124d00e1f5050000000016001400aea9a2e5f0f876a588df5546e8742d1d87008f000400473044022062eb7a556107a7c73f45ac4ab5a1dddf6f7075fb1275969a7f383efff784bcb202200c05dbb7470dbf2f08557dd356c7325c1ed30913e996cd3840945db12228da5f01473044022065f45ba5998b59a27ffe1a7bed016af1f1f90d54b3aa8f7450aa5f56a25103bd02207f724703ad1edb96680b284b56d4ffcb88f7fb759eabbe08aa30f29b851383d20147522103089dc10c7ac6db54f91329af617333db388cead0c231f723379d1b99030b02dc21023add904f3d6dcf59ddb906b0dee23529b7ffb9ed50e5e86151926860221f0e7352ae00000000";

struct NoSig;
impl Checker for NoSig {
    fn check_ecdsa(&self, _: &[u8], _: &[u8], _: SigVer) -> bool { false }
    fn check_schnorr(&self, _: &[u8], _: &[u8]) -> bool { false }
    fn check_locktime(&self, n: i64) -> bool { n <= 100 }
    fn check_sequence(&self, n: i64) -> bool { n <= 10 }
}

fn run_vec(script: &[u8], init: &[&[u8]], sigver: SigVer, standard: bool) -> Result<Vec<Vec<u8>>, &'static str> {
    let chk = NoSig;
    let ex = Exec::new(script, sigver, standard, &chk);
    let mut st = St::new(init.iter().map(|x| x.to_vec()).collect());
    ex.run(&mut st)?;
    Ok(st.stack)
}

pub fn run_kats() -> Result<u64, String> {
    let mut n = 0u64;
    // --- BIP174 finalized transaction: both inputs must verify, every single-bit corruption must not.
    let tx: Transaction = deserialize(&unhex(BIP174_FINAL_TX)).map_err(|e| e.to_string())?;
    let prevouts = vec![
        TxOut {
            value: Amount::from_sat(50_000_000),
            script_pubkey: ScriptBuf::from_bytes(unhex("a9140fb9463421696b82c833af241c78c17ddbde493487")),
        },
        TxOut {
            value: Amount::from_sat(200_000_000),
            script_pubkey: ScriptBuf::from_bytes(unhex("a914b7f5faf40e3d40a5a459b1db3535f2b72fa921e887")),
        },
    ];
    for idx in 0..2 {
        let spend = Spend { tx: tx.clone(), idx, prevouts: prevouts.clone() };
        let ss = tx.input[idx].script_sig.as_bytes().to_vec();
        let wit: Vec<Vec<u8>> = tx.input[idx].witness.iter().map(|x| x.to_vec()).collect();
        for standard in [false, true] {
            verify_input(&spend, &ss, &wit, standard)
                .map_err(|e| format!("KAT bip174 input {} standard={} rejected: {}", idx, standard, e))?;
            n += 1;
        }
        // corrupt scriptSig bytes
        for i in 0..ss.len() {
            let mut c = ss.clone();
            c[i] ^= 1;
            if verify_input(&spend, &c, &wit, true).is_ok() {
                return Err(format!("KAT bip174 input {}: corrupted scriptSig byte {} accepted", idx, i));
            }
            n += 1;
        }
        for (wi, w) in wit.iter().enumerate() {
            for i in 0..w.len() {
                let mut c = wit.clone();
                c[wi][i] ^= 1;
                if verify_input(&spend, &ss, &c, true).is_ok() {
                    return Err(format!("KAT bip174 input {}: corrupted witness {}:{} accepted", idx, wi, i));
                }
                n += 1;
            }
        }
        // wrong amount must break the segwit input only
        let mut p2 = prevouts.clone();
        p2[idx].value = Amount::from_sat(1);
        let sp2 = Spend { tx: tx.clone(), idx, prevouts: p2 };
        let r = verify_input(&sp2, &ss, &wit, true);
        if idx == 1 && r.is_ok() {
            return Err("KAT: BIP143 amount not committed".into());
        }
        if idx == 0 && r.is_err() {
            return Err("KAT: legacy sighash must not commit to amount".into());
        }
        n += 1;
    }

    // --- opcode micro vectors: (script, initial stack, sigver, standard, expected)
    use SigVer::*;
    let e: &[u8] = &[];
    let one: &[u8] = &[1];
    let two: &[u8] = &[2];
    let z32 = [0u8; 32];
    type V<'a> = (Vec<u8>, Vec<&'a [u8]>, SigVer, bool, Option<Vec<Vec<u8>>>);
    let vecs: Vec<V> = vec![
        // pushes and numbers
        (vec![OP_0], vec![], WitnessV0, true, Some(vec![vec![]])),
        (vec![OP_1], vec![], WitnessV0, true, Some(vec![vec![1]])),
        (vec![OP_16], vec![], WitnessV0, true, Some(vec![vec![16]])),
        (vec![0x01, 0x05], vec![], WitnessV0, true, None), // non-minimal push of 5
        (vec![0x01, 0x05], vec![], WitnessV0, false, Some(vec![vec![5]])),
        (vec![0x01, 0x11], vec![], WitnessV0, true, Some(vec![vec![0x11]])),
        (vec![PUSHDATA1, 0x01, 0x11], vec![], WitnessV0, true, None),
        (vec![PUSHDATA1, 0x01, 0x11], vec![], WitnessV0, false, Some(vec![vec![0x11]])),
        (vec![0x02, 0x11], vec![], WitnessV0, false, None), // truncated push
        // IF / NOTIF / MINIMALIF
        (vec![IF, OP_1, ELSE, OP_0, ENDIF], vec![one], WitnessV0, true, Some(vec![vec![1]])),
        (vec![IF, OP_1, ELSE, OP_0, ENDIF], vec![e], WitnessV0, true, Some(vec![vec![]])),
        (vec![IF, OP_1, ELSE, OP_0, ENDIF], vec![two], WitnessV0, true, None),
        (vec![IF, OP_1, ELSE, OP_0, ENDIF], vec![two], WitnessV0, false, Some(vec![vec![1]])),
        (vec![IF, OP_1, ELSE, OP_0, ENDIF], vec![two], Base, true, Some(vec![vec![1]])),
        (vec![IF, OP_1, ELSE, OP_0, ENDIF], vec![two], Tapscript, false, None),
        (vec![NOTIF, OP_1, ELSE, OP_0, ENDIF], vec![e], WitnessV0, true, Some(vec![vec![1]])),
        (vec![IF, OP_1], vec![one], WitnessV0, true, None), // unbalanced
        (vec![ENDIF], vec![], WitnessV0, true, None),
        (vec![IF, OP_1, ENDIF], vec![], WitnessV0, true, None), // underflow
        // negative zero is false
        (vec![IF, OP_1, ELSE, OP_0, ENDIF], vec![&[0x80]], Base, false, Some(vec![vec![]])),
        // VERIFY
        (vec![VERIFY], vec![one], WitnessV0, true, Some(vec![])),
        (vec![VERIFY], vec![e], WitnessV0, true, None),
        // stack ops
        (vec![DUP], vec![two], WitnessV0, true, Some(vec![vec![2], vec![2]])),
        (vec![SWAP], vec![one, two], WitnessV0, true, Some(vec![vec![2], vec![1]])),
        (vec![IFDUP], vec![e], WitnessV0, true, Some(vec![vec![]])),
        (vec![IFDUP], vec![two], WitnessV0, true, Some(vec![vec![2], vec![2]])),
        (vec![TOALTSTACK, OP_1, FROMALTSTACK], vec![two], WitnessV0, true, Some(vec![vec![1], vec![2]])),
        (vec![FROMALTSTACK], vec![], WitnessV0, true, None),
        (vec![DROP], vec![one], WitnessV0, true, Some(vec![])),
        (vec![SIZE], vec![&z32], WitnessV0, true, Some(vec![z32.to_vec(), vec![32]])),
        (vec![SIZE], vec![e], WitnessV0, true, Some(vec![vec![], vec![]])),
        // EQUAL
        (vec![EQUAL], vec![one, one], WitnessV0, true, Some(vec![vec![1]])),
        (vec![EQUAL], vec![one, two], WitnessV0, true, Some(vec![vec![]])),
        (vec![EQUALVERIFY], vec![one, two], WitnessV0, true, None),
        (vec![EQUALVERIFY], vec![one, one], WitnessV0, true, Some(vec![])),
        // arithmetic
        (vec![ADD], vec![one, two], WitnessV0, true, Some(vec![vec![3]])),
        (vec![ADD], vec![e, e], WitnessV0, true, Some(vec![vec![]])),
        (vec![ADD], vec![&[0x00], one], WitnessV0, true, None), // non-minimal number
        (vec![ADD], vec![&[0x00], one], WitnessV0, false, Some(vec![vec![1]])),
        (vec![ADD], vec![&[1, 2, 3, 4, 5], one], WitnessV0, false, None), // > 4 bytes
        (vec![BOOLAND], vec![one, two], WitnessV0, true, Some(vec![vec![1]])),
        (vec![BOOLAND], vec![one, e], WitnessV0, true, Some(vec![vec![]])),
        (vec![BOOLOR], vec![e, two], WitnessV0, true, Some(vec![vec![1]])),
        (vec![BOOLOR], vec![e, e], WitnessV0, true, Some(vec![vec![]])),
        (vec![ZERO_NOT_EQUAL], vec![two], WitnessV0, true, Some(vec![vec![1]])),
        (vec![ZERO_NOT_EQUAL], vec![e], WitnessV0, true, Some(vec![vec![]])),
        (vec![ZERO_NOT_EQUAL], vec![&z32], WitnessV0, true, None),
        (vec![NUMEQUAL], vec![two, two], WitnessV0, true, Some(vec![vec![1]])),
        (vec![NUMEQUALVERIFY], vec![two, one], WitnessV0, true, None),
        // hashes
        (
            vec![SHA256],
            vec![e],
            WitnessV0,
            true,
            Some(vec![unhex("e3b0c44298fc1c149afbf4c8996fb92427ae41e4649b934ca495991b7852b855")]),
        ),
        (vec![HASH160], vec![e], WitnessV0, true, Some(vec![unhex("b472a266d0bd89c13706a4132ccfb16f7c3b9fcb")])),
        (vec![RIPEMD160], vec![e], WitnessV0, true, Some(vec![unhex("9c1185a5c5e9fc54612808977ee8f548b2258d31")])),
        (
            vec![HASH256],
            vec![e],
            WitnessV0,
            true,
            Some(vec![unhex("5df6e0e2761359d30a8275058e299fcc0381534545f55cf43e41983f5d4c9456")]),
        ),
        // CHECKSIG with empty / invalid signatures
        (vec![CHECKSIG], vec![e, &[2; 33]], WitnessV0, true, Some(vec![vec![]])),
        (vec![CHECKSIGVERIFY], vec![e, &[2; 33]], WitnessV0, true, None),
        (vec![CHECKSIG], vec![e, &[4; 65]], WitnessV0, true, None), // uncompressed key in v0 (policy)
        (vec![CHECKSIG], vec![e, &[4; 65]], WitnessV0, false, Some(vec![vec![]])),
        (vec![CHECKSIG], vec![e, &[4; 65]], Base, true, Some(vec![vec![]])),
        (vec![CHECKSIG], vec![&[0x30, 1, 2], &[2; 33]], WitnessV0, false, None), // not DER: consensus failure
        // tapscript CHECKSIG / CHECKSIGADD
        (vec![CHECKSIG], vec![e, &[2; 32]], Tapscript, true, Some(vec![vec![]])),
        (vec![CHECKSIG], vec![&[9; 64], &[2; 32]], Tapscript, false, None), // invalid non-empty sig aborts
        (vec![CHECKSIG], vec![e, e], Tapscript, false, None),           // empty pubkey
        (vec![CHECKSIG], vec![&[9; 64], &[2; 33]], Tapscript, false, Some(vec![vec![1]])), // unknown key type
        (vec![CHECKSIG], vec![&[9; 64], &[2; 33]], Tapscript, true, None),
        (vec![CHECKSIGADD], vec![e, two, &[2; 32]], Tapscript, true, Some(vec![vec![2]])),
        (vec![CHECKSIGADD], vec![e, two, &[2; 32]], WitnessV0, true, None),
        (vec![CHECKMULTISIG], vec![e, e, one], Tapscript, true, None),
        // CHECKMULTISIG: 0-of-1 succeeds with empty dummy; NULLDUMMY; k>n
        (vec![CHECKMULTISIG], vec![e, e, &[2; 33], one], WitnessV0, true, Some(vec![vec![1]])),
        (vec![CHECKMULTISIG], vec![one, e, &[2; 33], one], WitnessV0, true, None),
        (vec![CHECKMULTISIG], vec![e, e, one, &[2; 33], one], WitnessV0, true, Some(vec![vec![]])),
        (vec![CHECKMULTISIG], vec![e, e, e, two, &[2; 33], one], WitnessV0, true, None),
        (vec![CHECKMULTISIGVERIFY], vec![e, e, one, &[2; 33], one], WitnessV0, true, None),
        // CLTV / CSV (NoSig checker: locktime ok iff n <= 100, sequence ok iff n <= 10)
        (vec![0x01, 0x64, CLTV], vec![], WitnessV0, true, Some(vec![vec![100]])),
        (vec![0x01, 0x65, CLTV], vec![], WitnessV0, true, None),
        (vec![OP_1NEGATE, CLTV], vec![], WitnessV0, true, None),
        (vec![0x05, 0xff, 0xff, 0xff, 0xff, 0x00, CLTV], vec![], WitnessV0, true, None),
        (vec![0x06, 1, 0, 0, 0, 0, 0, CLTV], vec![], WitnessV0, false, None),
        (vec![OP_1 + 9, CSV], vec![], WitnessV0, true, Some(vec![vec![10]])),
        (vec![OP_1 + 10, CSV], vec![], WitnessV0, true, None),
        (vec![0x05, 0, 0, 0, 0x80, 0, CSV], vec![], WitnessV0, true, Some(vec![vec![0, 0, 0, 0x80, 0]])),
        // disabled / reserved
        (vec![IF, 0x7e, ENDIF, OP_1], vec![e], WitnessV0, false, None), // OP_CAT disabled even unexecuted
        (vec![IF, 0x65, ENDIF, OP_1], vec![e], WitnessV0, false, None), // VERIF fails even unexecuted
        (vec![RETURN], vec![], WitnessV0, false, None),
        (vec![0xb0], vec![one], WitnessV0, true, None), // NOP1 discouraged
        (vec![0xb0], vec![one], WitnessV0, false, Some(vec![vec![1]])),
    ];
    for (i, (script, init, sv, std, expect)) in vecs.iter().enumerate() {
        let got = run_vec(script, init, *sv, *std).ok();
        if &got != expect {
            return Err(format!(
                "KAT micro-vector {} failed: script={} sigver={:?} standard={} expected={:?} got={:?}",
                i,
                crate::common::hex(script),
                sv,
                std,
                expect,
                got
            ));
        }
        n += 1;
    }
    // op count: 202 NOPs fail, 201 pass (non-tapscript); tapscript has no limit
    let nops = |k: usize| {
        let mut v = vec![NOP; k];
        v.push(OP_1);
        v
    };
    if run_vec(&nops(201), &[], WitnessV0, false).is_err() || run_vec(&nops(202), &[], WitnessV0, false).is_ok() {
        return Err("KAT op count".into());
    }
    if run_vec(&nops(300), &[], Tapscript, false).is_err() {
        return Err("KAT tapscript op count".into());
    }
    n += 3;
    // nondeterministic mode vs brute force on a fixed script: IF <1> ELSE SIZE 32 EQUALVERIFY ENDIF style
    {
        let script = vec![IF, SIZE, 0x01, 0x20, EQUALVERIFY, SHA256, DROP, OP_1, ELSE, ZERO_NOT_EQUAL, ENDIF];
        let sigma: Vec<Vec<u8>> = vec![vec![], vec![1], vec![2], vec![0; 32], vec![3; 32]];
        let chk = NoSig;
        let ex = Exec::new(&script, WitnessV0, true, &chk);
        let e = explore(
            &ex,
            &ExploreOpts { sigma: &sigma, finish: Finish::Clean, existence_only: false, max_states: 100000, initial: vec![], max_materialise: 10 },
        );
        let mut sols: Vec<Vec<Vec<u8>>> = e.solutions.iter().map(|s| s.witness.clone()).collect();
        sols.sort();
        // brute force all witnesses of length <= 3
        let mut bf = vec![];
        let mut cands: Vec<Vec<Vec<u8>>> = vec![vec![]];
        for _ in 0..3 {
            let mut next = vec![];
            for c in &cands {
                for s in &sigma {
                    let mut c2 = c.clone();
                    c2.push(s.clone());
                    next.push(c2);
                }
            }
            for w in &next {
                let mut st = St::new(w.clone());
                if ex.run(&mut st).is_ok() && st.stack.len() == 1 && cast_bool(&st.stack[0]) {
                    bf.push(w.clone());
                }
            }
            cands = next;
        }
        bf.sort();
        if bf != sols {
            return Err(format!("KAT explorer vs brute force: {:?} vs {:?}", sols, bf));
        }
        n += 1;
    }
    Ok(n)
}

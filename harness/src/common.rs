//! Shared plumbing: evidence, violations, known findings, panic capture.

use std::collections::{BTreeMap, BTreeSet};
use std::panic::{self, AssertUnwindSafe};
use std::sync::Mutex;
use std::time::Instant;

use serde_json::{json, Value};

pub const VERIF_DIR: &str = "/verif";

#[derive(Clone, Copy, PartialEq, Eq, Debug)]
pub enum Tier {
    Quick,
    Thorough,
}

impl Tier {
    pub fn name(self) -> &'static str {
        match self {
            Tier::Quick => "quick",
            Tier::Thorough => "thorough",
        }
    }
    pub fn pick<T>(self, q: T, t: T) -> T {
        match self {
            Tier::Quick => q,
            Tier::Thorough => t,
        }
    }
}

#[derive(Clone, Debug)]
pub struct Violation {
    /// canonical identity of the failing case (input / history / panic site)
    pub key: String,
    /// class of failure: violations of one class are printed once with a count
    pub class: String,
    pub what: String,
    pub case: Value,
}

#[derive(Clone, Debug)]
pub struct KnownFinding {
    pub property: String,
    pub key: String,
    pub what: String,
}

pub struct Report {
    pub prop: String,
    pub tier: Tier,
    pub seed: u64,
    start: Instant,
    inner: Mutex<Inner>,
}

#[derive(Default)]
struct Inner {
    census: BTreeMap<String, u64>,
    samples: Vec<Value>,
    violations: Vec<Violation>,
    viol_keys: BTreeSet<String>,
    extra: BTreeMap<String, Value>,
    assumptions: Vec<String>,
    caps: Vec<String>,
}

/// Set by `--replay <file>`: the key of the one violation to reproduce.
pub static REPLAY_KEY: std::sync::OnceLock<String> = std::sync::OnceLock::new();

impl Report {
    pub fn new(prop: &str, tier: Tier) -> Self {
        let seed = std::env::var("VERIF_SEED").ok().and_then(|s| s.parse().ok()).unwrap_or(0);
        Report {
            prop: prop.to_string(),
            tier,
            seed,
            start: Instant::now(),
            inner: Mutex::new(Inner::default()),
        }
    }

    pub fn count(&self, k: &str, n: u64) {
        let mut g = self.inner.lock().unwrap();
        *g.census.entry(k.to_string()).or_insert(0) += n;
    }

    pub fn merge_counts(&self, m: &BTreeMap<&'static str, u64>) {
        let mut g = self.inner.lock().unwrap();
        for (k, v) in m {
            *g.census.entry(k.to_string()).or_insert(0) += *v;
        }
    }

    pub fn get(&self, k: &str) -> u64 {
        *self.inner.lock().unwrap().census.get(k).unwrap_or(&0)
    }

    pub fn sample(&self, v: Value) {
        let mut g = self.inner.lock().unwrap();
        if g.samples.len() < 12 {
            g.samples.push(v);
        }
    }

    /// Replace-last sample: used to keep "the most complex" example.
    pub fn sample_force(&self, v: Value) {
        let mut g = self.inner.lock().unwrap();
        g.samples.push(v);
    }

    pub fn extra(&self, k: &str, v: Value) {
        self.inner.lock().unwrap().extra.insert(k.to_string(), v);
    }

    pub fn assume(&self, s: &str) {
        self.inner.lock().unwrap().assumptions.push(s.to_string());
    }

    pub fn cap_hit(&self, s: String) {
        let mut g = self.inner.lock().unwrap();
        if g.caps.len() < 50 && !g.caps.contains(&s) {
            g.caps.push(s);
        }
    }

    pub fn violation(&self, v: Violation) {
        let mut g = self.inner.lock().unwrap();
        if g.viol_keys.insert(v.key.clone()) {
            g.violations.push(v);
        }
    }

    pub fn n_violations(&self) -> usize {
        self.inner.lock().unwrap().violations.len()
    }

    pub fn elapsed(&self) -> f64 {
        self.start.elapsed().as_secs_f64()
    }

    /// Writes evidence, prints verdict lines, returns process exit code.
    pub fn finish(
        &self,
        states: u64,
        transitions: u64,
        traces_validated: u64,
        evaluations: u64,
        distinct_nontrivial: u64,
        rule: &str,
        exhaustive: bool,
    ) -> i32 {
        let known = load_known(&self.prop);
        let g = self.inner.lock().unwrap();

        // split violations into known / new
        let mut new_v: Vec<&Violation> = vec![];
        let mut known_hit: BTreeMap<String, (String, u64)> = BTreeMap::new();
        for v in &g.violations {
            if let Some(k) = known.iter().find(|k| k.key == v.key) {
                let e = known_hit.entry(k.key.clone()).or_insert((k.what.clone(), 0));
                e.1 += 1;
            } else {
                new_v.push(v);
            }
        }
        for (key, (what, _n)) in &known_hit {
            println!("KNOWN-FINDING: property={} {} [{}]", self.prop, what, key);
        }

        // replay mode: the check ran as usual; only the recorded case decides, no evidence is written
        if let Some(key) = REPLAY_KEY.get() {
            let hit = g.violations.iter().find(|v| &v.key == key);
            return match hit {
                Some(v) => {
                    println!("VIOLATION property={} replay={}", self.prop, std::env::var("MSVERIF_REPLAY_FILE").unwrap_or_default());
                    println!("  reproduced: class={} what={}", v.class, v.what);
                    println!("  key={}", v.key);
                    1
                }
                None => {
                    println!("{} replay: the recorded case no longer violates the property (key {})", self.prop, key);
                    0
                }
            };
        }
        // group new violations by class, print at most a few replays per class
        let mut by_class: BTreeMap<String, Vec<&Violation>> = BTreeMap::new();
        for v in &new_v {
            by_class.entry(v.class.clone()).or_default().push(v);
        }
        let _ = std::fs::create_dir_all(format!("{}/replays", VERIF_DIR));
        for (class, vs) in &by_class {
            // smallest case first
            let mut vs: Vec<&&Violation> = vs.iter().collect();
            vs.sort_by_key(|v| (v.key.len(), v.key.clone()));
            for v in vs.iter().take(3) {
                let h = fnv64(v.key.as_bytes());
                let path = format!("{}/replays/{}-{:016x}.json", VERIF_DIR, self.prop, h);
                let body = json!({
                    "property": self.prop,
                    "tier": self.tier.name(),
                    "class": class,
                    "key": v.key,
                    "what": v.what,
                    "case": v.case,
                });
                let _ = std::fs::write(&path, serde_json::to_string_pretty(&body).unwrap());
                println!("VIOLATION property={} replay={}", self.prop, path);
                println!("  class={} what={}", class, v.what);
                println!("  key={}", v.key);
            }
            if vs.len() > 3 {
                println!("  ... {} more violations of class {}", vs.len() - 3, class);
            }
        }

        let mut coverage = serde_json::Map::new();
        coverage.insert("states".into(), json!(states.max(1)));
        coverage.insert("transitions".into(), json!(transitions.max(1)));
        coverage.insert("traces_validated_against_impl".into(), json!(traces_validated));
        coverage.insert("evaluations".into(), json!(evaluations.max(1)));
        coverage.insert("distinct_nontrivial".into(), json!(distinct_nontrivial));
        coverage.insert("rule".into(), json!(rule));
        coverage.insert("exhaustive".into(), json!(exhaustive && g.caps.is_empty()));
        let samples: Vec<Value> =
            if g.samples.is_empty() { vec![json!("(no samples recorded)")] } else { g.samples.clone() };
        coverage.insert("samples".into(), json!(samples));
        coverage.insert("census".into(), json!(g.census));
        coverage.insert("caps_hit".into(), json!(g.caps));
        coverage.insert(
            "known_findings_seen".into(),
            json!(known_hit.iter().map(|(k, (w, n))| json!({"key":k,"what":w,"cases":n})).collect::<Vec<_>>()),
        );
        for (k, v) in &g.extra {
            coverage.insert(k.clone(), v.clone());
        }
        let ev = json!({
            "property_id": self.prop,
            "tier": self.tier.name(),
            "seed": self.seed,
            "level": "model_checking",
            "coverage": Value::Object(coverage),
            "assumptions": g.assumptions,
            "wall_s": self.start.elapsed().as_secs_f64(),
            "violations": new_v.len(),
        });
        let _ = std::fs::create_dir_all(format!("{}/evidence", VERIF_DIR));
        let path = format!("{}/evidence/{}.json", VERIF_DIR, self.prop);
        std::fs::write(&path, serde_json::to_string_pretty(&ev).unwrap()).expect("write evidence");

        println!(
            "{} tier={} states={} transitions={} traces_validated={} evaluations={} nontrivial={} violations={} known={} wall={:.1}s",
            self.prop,
            self.tier.name(),
            states,
            transitions,
            traces_validated,
            evaluations,
            distinct_nontrivial,
            new_v.len(),
            known_hit.len(),
            self.start.elapsed().as_secs_f64()
        );
        if distinct_nontrivial < 2 {
            println!("MACHINERY: degenerate exploration (distinct_nontrivial < 2)");
            return 2;
        }
        if new_v.is_empty() {
            0
        } else {
            1
        }
    }
}

pub fn load_known(prop: &str) -> Vec<KnownFinding> {
    let path = format!("{}/known_findings.jsonl", VERIF_DIR);
    let mut out = vec![];
    if let Ok(s) = std::fs::read_to_string(path) {
        for line in s.lines() {
            let line = line.trim();
            if line.is_empty() || line.starts_with('#') || line.starts_with("fixed:") {
                continue;
            }
            if let Ok(v) = serde_json::from_str::<Value>(line) {
                if v["status"] == "known" && v["property"] == prop {
                    out.push(KnownFinding {
                        property: prop.to_string(),
                        key: v["key"].as_str().unwrap_or("").to_string(),
                        what: v["what"].as_str().unwrap_or("").to_string(),
                    });
                }
            }
        }
    }
    out
}

pub fn fnv64(b: &[u8]) -> u64 {
    let mut h: u64 = 0xcbf29ce484222325;
    for x in b {
        h ^= *x as u64;
        h = h.wrapping_mul(0x100000001b3);
    }
    h
}

thread_local! {
    static LAST_PANIC: std::cell::RefCell<Option<String>> = const { std::cell::RefCell::new(None) };
}

pub static FIRST_PANIC_ANY_THREAD: std::sync::Mutex<Option<String>> = std::sync::Mutex::new(None);

pub fn install_panic_hook() {
    panic::set_hook(Box::new(|info| {
        let loc = info
            .location()
            .map(|l| {
                let f = l.file();
                let f = f.strip_prefix("/repo/").unwrap_or(f);
                format!("{}:{}", f, l.line())
            })
            .unwrap_or_else(|| "?".into());
        let msg = if let Some(s) = info.payload().downcast_ref::<&str>() {
            s.to_string()
        } else if let Some(s) = info.payload().downcast_ref::<String>() {
            s.clone()
        } else {
            "?".into()
        };
        let mut m: String = msg.chars().take(160).collect();
        m = m.replace('\n', " ");
        LAST_PANIC.with(|p| *p.borrow_mut() = Some(format!("{} ({})", loc, m)));
        if std::env::var("MSVERIF_PANIC_TRACE").is_ok() {
            eprintln!("PANIC {} ({})\n{}", loc, m, std::backtrace::Backtrace::force_capture());
        }
        // a panic on a pool thread resurfaces on the thread that joins it: keep the first one globally too
        if let Ok(mut g) = FIRST_PANIC_ANY_THREAD.lock() {
            if g.is_none() {
                *g = Some(format!("{} ({})", loc, m));
            }
        }
    }));
}

/// Run `f`, converting a panic into Err("file:line (message)").
pub fn guard<R>(f: impl FnOnce() -> R) -> Result<R, String> {
    match panic::catch_unwind(AssertUnwindSafe(f)) {
        Ok(r) => Ok(r),
        Err(_) => Err(LAST_PANIC.with(|p| p.borrow_mut().take()).unwrap_or_else(|| "panic".into())),
    }
}

/// The `file:line` part of a guard() error.
pub fn panic_site(e: &str) -> String {
    e.split(' ').next().unwrap_or(e).to_string()
}

pub fn hex(b: &[u8]) -> String {
    let mut s = String::with_capacity(b.len() * 2);
    for x in b {
        s.push_str(&format!("{:02x}", x));
    }
    s
}

pub fn unhex(s: &str) -> Vec<u8> {
    (0..s.len() / 2).map(|i| u8::from_str_radix(&s[2 * i..2 * i + 2], 16).unwrap()).collect()
}

//! C06 — static types predict what fragments do when executed (also validates the
//! specification tables of C05 against execution).

use std::collections::BTreeMap;

use bitcoin::hashes::Hash;
use miniscript::miniscript::types::Base;
use miniscript::{DefiniteDescriptorKey, Legacy, Segwitv0, Tap};
use rayon::prelude::*;
use serde_json::json;

use crate::ast::{build, walk, T};
use crate::common::*;
use crate::keys::{key, preimage, DefEnv, KeyForm};
use crate::rsm::{cast_bool, explore, tapleaf_hash, Exec, ExploreOpts, Finish, SigVer, TxChecker};
use crate::sat::{dedup_keep_order, key_ser};
use crate::spec::{spec_rule, Frag, ST};
use crate::terms::{explore as explore_terms, Alphabet, Cx};
use crate::world::{ecdsa_sig_for, make_spend, schnorr_leaf_sig_for};

type Census = BTreeMap<&'static str, u64>;
fn bump(c: &mut Census, k: &'static str) { *c.entry(k).or_insert(0) += 1; }
fn bump_n(c: &mut Census, k: &'static str, n: u64) { *c.entry(k).or_insert(0) += n; }

pub fn spec_type(t: &T, tapscript: bool) -> Option<ST> {
    let ch: Vec<ST> = t.children().iter().map(|c| spec_type(c, tapscript)).collect::<Option<Vec<_>>>()?;
    let (frag, k) = match t {
        T::False => (Frag::False, 0),
        T::True => (Frag::True, 0),
        T::PkK(_) => (Frag::PkK, 0),
        T::PkH(_) | T::RawPkH(_) => (Frag::PkH, 0),
        T::After(_) | T::Older(_) => (Frag::Time, 0),
        T::Sha256(_) | T::Hash256(_) | T::Ripemd160(_) | T::Hash160(_) => (Frag::Hash, 0),
        T::Multi(..) | T::SortedMulti(..) => (Frag::Multi, 0),
        T::MultiA(..) | T::SortedMultiA(..) => (Frag::MultiA, 0),
        T::Alt(_) => (Frag::Alt, 0),
        T::Swap(_) => (Frag::Swap, 0),
        T::Check(_) => (Frag::Check, 0),
        T::DupIf(_) => (Frag::DupIf, 0),
        T::Verify(_) => (Frag::Verify, 0),
        T::NonZero(_) => (Frag::NonZero, 0),
        T::ZeroNotEqual(_) => (Frag::ZeroNotEqual, 0),
        T::AndV(..) => (Frag::AndV, 0),
        T::AndB(..) => (Frag::AndB, 0),
        T::OrB(..) => (Frag::OrB, 0),
        T::OrC(..) => (Frag::OrC, 0),
        T::OrD(..) => (Frag::OrD, 0),
        T::OrI(..) => (Frag::OrI, 0),
        T::AndOr(..) => (Frag::AndOr, 0),
        T::Thresh(k, _) => (Frag::Thresh, *k),
    };
    spec_rule(frag, &ch, k, tapscript)
}

struct PathObs {
    consumed: usize,
    top_consumed: Option<Vec<u8>>,
    result: Option<Vec<u8>>,
    shape_ok: bool,
    sigs: usize,
}

fn check_labels(lbl: &ST, obs_std: &[PathObs], obs_cons: &[PathObs]) -> Vec<String> {
    let mut bad = vec![];
    let truthy = |o: &PathObs| o.result.as_ref().map(|r| cast_bool(r)).unwrap_or(lbl.base == Base::V);
    for (flags, obs) in [("standard", obs_std), ("consensus", obs_cons)] {
        for o in obs {
            if !o.shape_ok {
                bad.push(format!("base {:?}: stack shape wrong on a non-aborting path ({})", lbl.base, flags));
                break;
            }
        }
        if lbl.z && obs.iter().any(|o| o.consumed != 0) {
            bad.push(format!("z: a path consumes {} elements ({})", obs.iter().map(|o| o.consumed).max().unwrap(), flags));
        }
        if lbl.o && obs.iter().any(|o| o.consumed != 1) {
            bad.push(format!("o: a path consumes {:?} elements ({})", obs.iter().find(|o| o.consumed != 1).map(|o| o.consumed), flags));
        }
        if lbl.n && obs.iter().any(|o| truthy(o) && o.top_consumed.as_ref().map(|t| !cast_bool(t)).unwrap_or(true)) {
            bad.push(format!("n: satisfied with a zero / absent top input ({})", flags));
        }
    }
    if lbl.u && obs_cons.iter().any(|o| truthy(o) && o.result.as_deref() != Some(&[1u8][..])) {
        bad.push("u: a satisfying path leaves something other than exactly 1 (consensus flags)".into());
    }
    if lbl.s && obs_cons.iter().any(|o| truthy(o) && o.sigs == 0) {
        bad.push("s: a satisfying path checks no signature (consensus flags)".into());
    }
    if lbl.d && !obs_std.iter().any(|o| o.sigs == 0 && o.result.as_deref() == Some(&[][..])) {
        bad.push("d: no signature-free input leaves exactly the empty vector (standard flags)".into());
    }
    if lbl.f && obs_std.iter().any(|o| o.sigs == 0 && o.result.as_ref().map(|r| !cast_bool(r)).unwrap_or(false)) {
        bad.push("f: a signature-free input leaves a false value (standard flags)".into());
    }
    // `e` is not checked by execution: in the specification it is only meaningful together
    // with `m` (e.g. or_d: e = e_Z although the dissatisfaction also runs X's), see DESIGN.md.
    bad
}

fn run_ctx<Ctx: Cx>(rep: &Report, ctxname: &'static str, n: usize, alpha: Alphabet, tap: bool, sigver: SigVer, form: KeyForm) -> (Census, u64, u64) {
    let te = explore_terms::<Ctx>(n, alpha, tap);
    let mut all: Vec<T> = te.all().map(|m| walk(m).relabel_distinct()).collect();
    if alpha == Alphabet::Small {
        // lock values around every change of the minimal-number length, the BIP-68 value mask and
        // type flag, and the height/time threshold: bare and below the wrappers that consume a B
        let mut base: Vec<T> = vec![];
        for v in [1u32, 16, 17, 127, 128, 255, 256, 32767, 32768, 65535, 65536, 65537, 0x3f_ffff, 0x40_0000, 0x40_0001, 0x40_ffff, 0x41_0000, 0x7fff_ffff] {
            base.push(T::Older(v));
        }
        for v in [1u32, 16, 17, 127, 128, 255, 256, 32767, 32768, 65535, 65536, 8_388_607, 8_388_608, 499_999_999, 500_000_000, 500_000_001, 0x7fff_ffff] {
            base.push(T::After(v));
        }
        for b in base {
            all.push(T::Verify(Box::new(b.clone())));
            all.push(T::ZeroNotEqual(Box::new(b.clone())));
            all.push(T::AndV(Box::new(T::Verify(Box::new(b.clone()))), Box::new(T::True)));
            all.push(b);
        }
    }
    let cen = all
        .par_iter()
        .fold(Census::new, |mut cen, t| {
            let env = DefEnv { form, with_origin: false };
            let ms = match build::<DefiniteDescriptorKey, Ctx>(t, &env) {
                Ok(m) => m,
                Err(_) => return cen,
            };
            let base = ms.ty.corr.base;
            if t.keys().len() > 4 {
                // two 2-of-3 multisigs: the input alphabet (a signature per key) makes the stack search
                // exceed its state cap; bounded out explicitly instead of reported as capped
                bump(&mut cen, "fragments_with_more_than_4_keys_skipped");
                return cen;
            }
            if base == Base::K {
                bump(&mut cen, "k_terms_judged_through_c_wrapper");
                return cen;
            }
            bump(&mut cen, "fragments");
            let script = ms.encode().into_bytes();
            let lh = if tap { Some(bitcoin::taproot::TapLeafHash::from_byte_array(tapleaf_hash(0xc0, &script))) } else { None };
            let spk = bitcoin::ScriptBuf::from_bytes({
                let mut v = vec![0x51, 0x20];
                v.extend_from_slice(&[7u8; 32]);
                v
            });
            let lib_lbl = ST::from_lib(&ms.ty);
            let spec_lbl = spec_type(t, tap);
            let mut keys = t.keys();
            keys.sort();
            keys.dedup();
            // two transactions: one meeting after(10)/older(5), one meeting neither
            let mut txs = vec![(10u32, 5u32), (0, 0xffff_ffff)];
            let own = (t.afters().iter().max().copied().unwrap_or(10), t.olders().iter().max().copied().unwrap_or(5));
            if own != (10, 5) {
                // a transaction meeting this term's own lock values
                txs.push(own);
            }
            for (lt, seq) in txs {
                if (lt, seq) == (0, 0xffff_ffff) && t.afters().is_empty() && t.olders().is_empty() {
                    continue;
                }
                let spend = make_spend(spk.clone(), lt, seq);
                let mut sigma: Vec<Vec<u8>> = vec![vec![], vec![1], vec![2], vec![0u8; 32], vec![1u8; 32], vec![9u8; 33]];
                for kl in &keys {
                    sigma.push(key_ser(kl, form));
                    sigma.push(match sigver {
                        SigVer::Tapscript => schnorr_leaf_sig_for(key(kl), &spend, lh.unwrap(), 0),
                        sv => ecdsa_sig_for(key(kl), &spend, &script, sv),
                    });
                }
                sigma.push(match sigver {
                    SigVer::Tapscript => vec![0x42u8; 64],
                    _ => crate::world::sign_ecdsa(key("BOGUS"), [0x5a; 32], 1),
                });
                for (_, hl) in t.hashes() {
                    sigma.push(preimage(&hl).to_vec());
                }
                let sigma = dedup_keep_order(sigma);
                let sentinel = vec![0x53u8, 0x53];
                let mut obs: Vec<Vec<PathObs>> = vec![];
                let mut capped = false;
                for standard in [true, false] {
                    let chk = TxChecker::new(&spend, script.clone(), lh);
                    let ex = Exec::new(&script, sigver, standard, &chk);
                    let e = explore(
                        &ex,
                        &ExploreOpts {
                            sigma: &sigma,
                            finish: Finish::Raw,
                            existence_only: false,
                            max_states: 400_000,
                            initial: if base == Base::W { vec![sentinel.clone()] } else { vec![] },
                            max_materialise: 12,
                        },
                    );
                    bump_n(&mut cen, "rsm_states", e.states);
                    bump_n(&mut cen, "rsm_transitions", e.transitions);
                    bump_n(&mut cen, "paths_completed", e.solutions.len() as u64);
                    bump_n(&mut cen, "paths_aborted", e.failures);
                    capped |= e.capped;
                    let o: Vec<PathObs> = e
                        .solutions
                        .iter()
                        .map(|s| {
                            // witness is bottom-up; the first materialised (top) is last
                            let consumed = s.witness.len();
                            let top_consumed = s.witness.last().cloned();
                            let (result, shape_ok) = match base {
                                Base::B => (s.final_stack.first().cloned(), s.final_stack.len() == 1 && s.final_alt.is_empty()),
                                Base::V => (None, s.final_stack.is_empty() && s.final_alt.is_empty()),
                                Base::W => {
                                    let ok = s.final_stack.len() == 2 && s.final_stack.contains(&sentinel) && s.final_alt.is_empty();
                                    let r = if ok {
                                        Some(if s.final_stack[0] == sentinel { s.final_stack[1].clone() } else { s.final_stack[0].clone() })
                                    } else {
                                        None
                                    };
                                    (r, ok)
                                }
                                Base::K => unreachable!(),
                            };
                            PathObs { consumed, top_consumed, result, shape_ok, sigs: s.trace.sigs.len() }
                        })
                        .collect();
                    obs.push(o);
                }
                if capped {
                    bump(&mut cen, "exploration_capped");
                    rep.cap_hit(format!("fragment exploration capped: {} {}", ctxname, t.sexpr()));
                    continue;
                }
                bump(&mut cen, "fragment_explorations");
                // the script decoder labels the same bytes on its own (key hashes through a constructor of
                // their own): its labels are statements about the same executions
                if let Ok(dec) = guard(|| miniscript::Miniscript::<Ctx::Key, Ctx>::decode_consensus(bitcoin::Script::from_bytes(&script))) {
                    if let Ok(dec) = dec {
                        let dl = ST::from_lib(&dec.ty);
                        let bad = check_labels(&dl, &obs[0], &obs[1]);
                        if !bad.is_empty() {
                            rep.violation(Violation {
                                key: format!("C06|decoded|{}|{}|lt={} seq={:#x}", ctxname, t.sexpr(), lt, seq),
                                class: format!("decoded-type-label-false-{}-{}", ctxname, bad[0].split(':').next().unwrap_or("")),
                                what: format!("the decoder types the script of {} as {} but: {}", ms, dl.letters(), bad.join("; ")),
                                case: json!({"ctx": ctxname, "fragment": ms.to_string(), "script": hex(&script), "decoded_type": dl.letters()}),
                            });
                        } else {
                            bump(&mut cen, "decoded_types_confirmed");
                        }
                    }
                }
                let bad = check_labels(&lib_lbl, &obs[0], &obs[1]);
                if !bad.is_empty() {
                    rep.violation(Violation {
                        key: format!("C06|{}|{}|lt={} seq={:#x}", ctxname, t.sexpr(), lt, seq),
                        class: format!("type-label-false-{}-{}", ctxname, bad[0].split(':').next().unwrap_or("")),
                        what: format!("library type {} but: {}", lib_lbl.letters(), bad.join("; ")),
                        case: json!({"ctx": ctxname, "fragment": ms.to_string(), "model": t.sexpr(), "script": hex(&script), "nLockTime": lt, "nSequence": seq,
                            "library_type": lib_lbl.letters(), "spec_type": spec_lbl.map(|s| s.letters())}),
                    });
                } else {
                    bump(&mut cen, "library_types_confirmed");
                }
                if let Some(sl) = spec_lbl {
                    let bad = check_labels(&sl, &obs[0], &obs[1]);
                    if !bad.is_empty() {
                        rep.violation(Violation {
                            key: format!("C06|spec-table|{}|{}|lt={} seq={:#x}", ctxname, t.sexpr(), lt, seq),
                            class: format!("machinery-spec-table-unsound-{}", bad[0].split(':').next().unwrap_or("")),
                            what: format!("SPEC TABLE type {} is contradicted by execution: {}", sl.letters(), bad.join("; ")),
                            case: json!({"ctx": ctxname, "fragment": ms.to_string(), "spec_type": sl.letters()}),
                        });
                    } else {
                        bump(&mut cen, "spec_types_confirmed");
                    }
                } else {
                    rep.violation(Violation {
                        key: format!("C06|spec-rejects|{}|{}", ctxname, t.sexpr()),
                        class: "machinery-spec-table-rejects-well-typed-term".into(),
                        what: "spec tables reject a term the library accepts (C05 should have reported the rule)".into(),
                        case: json!({"ctx": ctxname, "fragment": ms.to_string()}),
                    });
                }
            }
            cen
        })
        .reduce(Census::new, |mut a, b| {
            for (k, v) in b {
                *a.entry(k).or_insert(0) += v;
            }
            a
        });
    (cen, te.count() as u64, te.attempted)
}

/// The context's own statement of which fragments are malleable for lack of MINIMALIF: or_i and d:
/// in the pre-segwit contexts, nothing elsewhere. (The execution side of this is the `d`/`e`
/// behaviour of IF-based fragments under standard vs consensus flags measured above.)
fn minimalif_rule<Ctx: Cx>(rep: &Report, ctxname: &'static str, n: usize, tap: bool, pre_segwit: bool) -> Census {
    use miniscript::ScriptContext;
    let mut cen = Census::new();
    let te = explore_terms::<Ctx>(n, Alphabet::Small, tap);
    for m in te.all() {
        bump(&mut cen, "minimalif_rule_checks");
        let expect_err = pre_segwit && matches!(m.node, miniscript::Terminal::OrI(..) | miniscript::Terminal::DupIf(..));
        let got = Ctx::check_terminal_non_malleable(&m.node).is_err();
        if got != expect_err {
            rep.violation(Violation {
                key: format!("C06|minimalif-rule|{}|{}", ctxname, m),
                class: format!("context-minimalif-rule-{}", ctxname),
                what: format!("check_terminal_non_malleable({}) is_err = {} in context {}, expected {}", m, got, ctxname, expect_err),
                case: json!({"ctx": ctxname, "fragment": m.to_string()}),
            });
        }
    }
    cen
}

pub fn run(tier: Tier) -> i32 {
    let rep = Report::new("C06", tier);
    match crate::kat::run_kats() {
        Ok(n) => rep.count("rsm_kats_passed", n),
        Err(e) => {
            println!("MACHINERY: reference Script machine failed its known-answer tests: {}", e);
            return 2;
        }
    }
    let n = tier.pick(5, 6);
    rep.extra("bounds", json!({"nodes": n, "nodes_full_alphabet": n - 1}));
    let mut states = 0;
    let mut transitions = 0;
    for (cen, s, t) in [
        run_ctx::<Segwitv0>(&rep, "segwitv0", n, Alphabet::Small, false, SigVer::WitnessV0, KeyForm::Compressed),
        run_ctx::<Legacy>(&rep, "legacy", n, Alphabet::Small, false, SigVer::Base, KeyForm::Compressed),
        run_ctx::<Tap>(&rep, "tap", n, Alphabet::Small, true, SigVer::Tapscript, KeyForm::XOnly),
        // full leaf alphabet (sortedmulti(_a), 2-of-3, the other hashes, time-based locks) one node less
        run_ctx::<Segwitv0>(&rep, "segwitv0", n - 1, Alphabet::Full, false, SigVer::WitnessV0, KeyForm::Compressed),
        run_ctx::<Tap>(&rep, "tap", n - 1, Alphabet::Full, true, SigVer::Tapscript, KeyForm::XOnly),
    ] {
        rep.merge_counts(&cen);
        states += s;
        transitions += t;
    }
    rep.merge_counts(&minimalif_rule::<Segwitv0>(&rep, "segwitv0", n - 1, false, false));
    rep.merge_counts(&minimalif_rule::<Tap>(&rep, "tap", n - 1, true, false));
    rep.merge_counts(&minimalif_rule::<Legacy>(&rep, "legacy", n - 1, false, true));
    rep.merge_counts(&minimalif_rule::<miniscript::BareCtx>(&rep, "bare", n - 1, false, true));
    rep.sample(json!({"alphabet": "[], [1], [2], 0^32, 1^32, 33 junk bytes, every key, every key's valid signature, one non-verifying signature, every preimage; W fragments get a sentinel on top"}));
    rep.sample(json!({"labels": "z o n (all paths), u s (consensus), d f e (standard), base shape B/V/W; K judged through c:K"}));
    rep.assume("fragment executed alone on the RSM with a lazily materialised input stack; transaction (nLockTime=10,nSequence=5) and (0,0xffffffff)");
    rep.finish(
        states + rep.get("rsm_states"),
        transitions + rep.get("rsm_transitions"),
        rep.get("library_types_confirmed"),
        rep.get("fragment_explorations"),
        rep.get("library_types_confirmed").min(rep.get("paths_completed")),
        "every well-typed term (at most 4 keys) of every base type up to the node bound in Segwitv0, Legacy and Tap: ALL input stacks over the alphabet explored on the fragment script (consensus and standard flags); every label of the library type and of the specification-table type checked on every complete path. non-trivial = fragments whose exploration completed with at least one complete path",
        true,
    )
}

//! Shared enumeration for the execution-backed properties (C01, C02, C03, C07, C09, C13, C17):
//! descriptor cases, signing contexts, alphabets, witness search.

use std::collections::BTreeSet;

use bitcoin::hashes::{hash160, sha256, Hash};
use bitcoin::taproot::TapLeafHash;
use bitcoin::ScriptBuf;
use miniscript::{DefiniteDescriptorKey, Descriptor, Legacy, Segwitv0, Tap};

use crate::ast::{push_data_minimal, scriptnum_bytes, walk, T};
use crate::desc::{build_desc, D};
use crate::keys::{hash_bytes, key, preimage, DefEnv, KeyForm};
use crate::rsm::{
    explore, tapbranch_hash, tapleaf_hash, Exec, Exploration, ExploreOpts, Finish, SigVer, Solution, Spend,
    TxChecker,
};
use crate::terms::{explore as explore_terms, Alphabet, Cx, Terms};
use crate::world::{
    ecdsa_sig_for, ref_merkle_root, ref_taproot_output, schnorr_key_sig_for, schnorr_leaf_sig_for, SignCtx,
    World,
};

pub struct DescCase {
    pub d: D,
    pub form: KeyForm,
    pub desc: Descriptor<DefiniteDescriptorKey>,
    pub spk: ScriptBuf,
    /// distinct key labels / hash labels / lock values
    pub keys: Vec<String>,
    pub hashes: Vec<(char, String)>,
    pub afters: Vec<u32>,
    pub olders: Vec<u32>,
    pub sane: bool,
    pub sign: SignCtx,
    /// executable targets: (script, sigver, tap leaf index)
    pub targets: Vec<Target>,
}

#[derive(Clone, Debug)]
pub struct Target {
    pub script: Vec<u8>,
    pub sigver: SigVer,
    /// index into tap leaves for Tapscript targets
    pub leaf: Option<usize>,
}

pub fn p2pkh_script(keybytes: &[u8]) -> Vec<u8> {
    let mut s = vec![0x76, 0xa9, 0x14];
    s.extend_from_slice(&hash160::Hash::hash(keybytes).to_byte_array());
    s.push(0x88);
    s.push(0xac);
    s
}

pub fn key_ser(label: &str, form: KeyForm) -> Vec<u8> {
    let k = key(label);
    match crate::keys::form_of(label, form) {
        KeyForm::Uncompressed => k.uncompressed(),
        KeyForm::XOnly => k.x32(),
        _ => k.compressed(),
    }
}

impl DescCase {
    pub fn tap_leaves(&self) -> Vec<(u8, Vec<u8>)> {
        match &self.desc {
            Descriptor::Tr(tr) => tr.leaves().map(|l| (l.depth(), l.miniscript().encode().into_bytes())).collect(),
            _ => vec![],
        }
    }

    pub fn hash_labels(&self) -> Vec<String> {
        let mut v: Vec<String> = self.hashes.iter().map(|x| x.1.clone()).collect();
        v.sort();
        v.dedup();
        v
    }
}

/// Build the real descriptor and everything the harness needs around it.
pub fn prepare(d: &D, form: KeyForm) -> Result<DescCase, String> {
    let is_tr = matches!(d, D::Tr(..));
    // Tr: full keys (compressed) give x-only through to_x_only_pubkey; XOnly form uses SinglePubKey::XOnly
    let env = DefEnv { form, with_origin: true };
    let desc = build_desc::<DefiniteDescriptorKey>(d, &env)?;
    let spk = desc.script_pubkey();
    let mut keys = d.keys();
    keys.sort();
    keys.dedup();
    let mut hashes = vec![];
    let mut afters = vec![];
    let mut olders = vec![];
    for t in d.scripts() {
        hashes.extend(t.hashes());
        afters.extend(t.afters());
        olders.extend(t.olders());
    }
    hashes.sort();
    hashes.dedup();
    afters.sort();
    afters.dedup();
    olders.sort();
    olders.dedup();
    let sane = desc_is_sane(&desc);
    let ser_form = if is_tr { KeyForm::XOnly } else { form };
    let (sign, targets) = match d {
        D::Wsh(_) | D::ShWsh(_) => {
            let s = desc.explicit_script().map_err(|e| e.to_string())?.into_bytes();
            (
                SignCtx::Ecdsa { script_code: s.clone(), sigver: SigVer::WitnessV0 },
                vec![Target { script: s, sigver: SigVer::WitnessV0, leaf: None }],
            )
        }
        D::Sh(_) => {
            let s = desc.explicit_script().map_err(|e| e.to_string())?.into_bytes();
            (
                SignCtx::Ecdsa { script_code: s.clone(), sigver: SigVer::Base },
                vec![Target { script: s, sigver: SigVer::Base, leaf: None }],
            )
        }
        D::Bare(_) | D::Pkh(_) => {
            let s = spk.as_bytes().to_vec();
            (
                SignCtx::Ecdsa { script_code: s.clone(), sigver: SigVer::Base },
                vec![Target { script: s, sigver: SigVer::Base, leaf: None }],
            )
        }
        D::Wpkh(k) | D::ShWpkh(k) => {
            let s = p2pkh_script(&key_ser(k, form));
            (
                SignCtx::Ecdsa { script_code: s.clone(), sigver: SigVer::WitnessV0 },
                vec![Target { script: s, sigver: SigVer::WitnessV0, leaf: None }],
            )
        }
        D::Tr(ik, _) => {
            let leaves: Vec<(u8, Vec<u8>)> = match &desc {
                Descriptor::Tr(tr) => {
                    tr.leaves().map(|l| (l.depth(), l.miniscript().encode().into_bytes())).collect()
                }
                _ => unreachable!(),
            };
            let root = ref_merkle_root(&leaves);
            let mut x = [0u8; 32];
            x.copy_from_slice(&key(ik).x32());
            let targets = leaves
                .iter()
                .enumerate()
                .map(|(i, (_, s))| Target { script: s.clone(), sigver: SigVer::Tapscript, leaf: Some(i) })
                .collect();
            (SignCtx::Taproot { merkle_root: root, internal_x: x }, targets)
        }
    };
    let _ = ser_form;
    Ok(DescCase { d: d.clone(), form, desc, spk, keys, hashes, afters, olders, sane, sign, targets })
}

/// The library's default sanity rules (`Ctx::SANE`) applied to every script of the descriptor.
pub fn desc_is_sane(desc: &Descriptor<DefiniteDescriptorKey>) -> bool {
    use miniscript::descriptor::ShInner;
    use miniscript::ScriptContext;
    match desc {
        Descriptor::Bare(b) => b.as_inner().validate(&miniscript::BareCtx::SANE).is_ok(),
        Descriptor::Pkh(_) | Descriptor::Wpkh(_) => true,
        Descriptor::Wsh(w) => w.as_inner().validate(&Segwitv0::SANE).is_ok(),
        Descriptor::Sh(sh) => match sh.as_inner() {
            ShInner::Wsh(w) => w.as_inner().validate(&Segwitv0::SANE).is_ok(),
            ShInner::Wpkh(_) => true,
            ShInner::Ms(ms) => ms.validate(&Legacy::SANE).is_ok(),
        },
        Descriptor::Tr(tr) => tr.leaves().all(|l| l.miniscript().validate(&Tap::SANE).is_ok()),
    }
}

/// serialisation form of keys inside the scripts of this case
pub fn script_key_form(c: &DescCase) -> KeyForm {
    if matches!(c.d, D::Tr(..)) {
        KeyForm::XOnly
    } else {
        c.form
    }
}

/// Σ_caller: what the caller can put on the stack in `world` for target `t`.
pub fn sigma_caller(c: &DescCase, t: &Target, world: &World, spend: &Spend) -> Vec<Vec<u8>> { sigma_caller_known(c, t, world, spend, None) }

/// `known`: the public keys the caller can put into a witness (None = all of the descriptor's keys)
pub fn sigma_caller_known(c: &DescCase, t: &Target, world: &World, spend: &Spend, known: Option<&BTreeSet<String>>) -> Vec<Vec<u8>> {
    let mut s: Vec<Vec<u8>> = vec![vec![], vec![1]];
    let form = script_key_form(c);
    let leaves = c.tap_leaves();
    for kl in &c.keys {
        if known.map(|k| k.contains(kl)).unwrap_or(true) {
            s.push(key_ser(kl, form));
        }
        if world.sigs.contains(kl) {
            match t.sigver {
                SigVer::Tapscript => {
                    let lh = TapLeafHash::from_byte_array(tapleaf_hash(0xc0, &leaves[t.leaf.unwrap()].1));
                    s.push(schnorr_leaf_sig_for(key(kl), spend, lh, 0));
                }
                sv => s.push(ecdsa_sig_for(key(kl), spend, &t.script, sv)),
            }
        }
    }
    for hl in c.hash_labels() {
        if world.pre.contains(&hl) {
            s.push(preimage(&hl).to_vec());
        }
    }
    s.push(vec![0u8; 32]);
    dedup_keep_order(s)
}

pub fn dedup_keep_order(v: Vec<Vec<u8>>) -> Vec<Vec<u8>> {
    let mut seen = BTreeSet::new();
    let mut out = vec![];
    for e in v {
        if seen.insert(e.clone()) {
            out.push(e);
        }
    }
    out.sort_by(|a, b| (a.len(), a).cmp(&(b.len(), b)));
    out
}

/// Σ_adv: what a third party can use given the original witness.
pub fn sigma_adv(c: &DescCase, original: &[Vec<u8>]) -> Vec<Vec<u8>> {
    let mut s: Vec<Vec<u8>> = vec![vec![], vec![1], vec![2], vec![0u8; 32], vec![1u8; 32], vec![7u8; 31], vec![7u8; 33]];
    let form = script_key_form(c);
    for e in original {
        if e.len() <= 80 {
            s.push(e.clone());
        }
    }
    for kl in &c.keys {
        s.push(key_ser(kl, form));
    }
    for hl in c.hash_labels() {
        s.push(preimage(&hl).to_vec());
    }
    // one well-formed signature that verifies for nothing
    match form {
        KeyForm::XOnly => s.push(vec![0x42u8; 64]),
        _ => {
            let bogus = crate::world::sign_ecdsa(key("BOGUS"), [0x5a; 32], 1);
            s.push(bogus);
        }
    }
    dedup_keep_order(s)
}

/// Reference control block for tap leaf `idx`.
pub fn ref_control_block(leaves: &[(u8, Vec<u8>)], idx: usize, internal_x: &[u8; 32]) -> Vec<u8> {
    // compute path by recursive descent collecting sibling hashes
    fn rec(leaves: &[(u8, Vec<u8>)], i: &mut usize, d: u8, idx: usize, path: &mut Option<Vec<[u8; 32]>>) -> [u8; 32] {
        if leaves[*i].0 == d {
            let h = tapleaf_hash(0xc0, &leaves[*i].1);
            if *i == idx {
                *path = Some(vec![]);
            }
            *i += 1;
            return h;
        }
        let before = path.is_some();
        let l = rec(leaves, i, d + 1, idx, path);
        let in_left = !before && path.is_some();
        let before_r = path.is_some();
        let r = rec(leaves, i, d + 1, idx, path);
        let in_right = !before_r && path.is_some();
        if in_left {
            path.as_mut().unwrap().push(r);
        } else if in_right {
            path.as_mut().unwrap().push(l);
        }
        tapbranch_hash(&l, &r)
    }
    let mut path = None;
    let mut i = 0;
    let root = rec(leaves, &mut i, 0, idx, &mut path);
    let (_, parity) = ref_taproot_output(internal_x, Some(root));
    let mut cb = vec![0xc0 | parity];
    cb.extend_from_slice(internal_x);
    for h in path.unwrap() {
        cb.extend_from_slice(&h);
    }
    cb
}

pub fn push_element(e: &[u8], out: &mut Vec<u8>) {
    // minimal push of a stack element in a scriptSig
    if e.is_empty() {
        out.push(0x00);
    } else if e.len() == 1 && (1..=16).contains(&e[0]) {
        out.push(0x50 + e[0]);
    } else if e.len() == 1 && e[0] == 0x81 {
        out.push(0x4f);
    } else {
        push_data_minimal(e, out);
    }
}

/// Turn an element-level solution for target `t` into (scriptSig, witness).
pub fn wrap_solution(c: &DescCase, t: &Target, sol: &[Vec<u8>]) -> (Vec<u8>, Vec<Vec<u8>>) {
    match &c.d {
        D::Wsh(_) => {
            let mut w = sol.to_vec();
            w.push(t.script.clone());
            (vec![], w)
        }
        D::ShWsh(_) => {
            let mut w = sol.to_vec();
            w.push(t.script.clone());
            let mut redeem = vec![0x00, 0x20];
            redeem.extend_from_slice(&sha256::Hash::hash(&t.script).to_byte_array());
            let mut ss = vec![];
            push_data_minimal(&redeem, &mut ss);
            (ss, w)
        }
        D::Sh(_) => {
            let mut ss = vec![];
            for e in sol {
                push_element(e, &mut ss);
            }
            push_data_minimal(&t.script, &mut ss);
            (ss, vec![])
        }
        D::Bare(_) | D::Pkh(_) => {
            let mut ss = vec![];
            for e in sol {
                push_element(e, &mut ss);
            }
            (ss, vec![])
        }
        D::Wpkh(_) => (vec![], sol.to_vec()),
        D::ShWpkh(k) => {
            let mut redeem = vec![0x00, 0x14];
            redeem.extend_from_slice(&hash160::Hash::hash(&key_ser(k, c.form)).to_byte_array());
            let mut ss = vec![];
            push_data_minimal(&redeem, &mut ss);
            (ss, sol.to_vec())
        }
        D::Tr(ik, _) => {
            let leaves = c.tap_leaves();
            let mut x = [0u8; 32];
            x.copy_from_slice(&key(ik).x32());
            let mut w = sol.to_vec();
            w.push(t.script.clone());
            w.push(ref_control_block(&leaves, t.leaf.unwrap(), &x));
            (vec![], w)
        }
    }
}

pub struct Search {
    pub found: Option<(usize, Vec<Vec<u8>>)>,
    pub key_path: bool,
    pub states: u64,
    pub transitions: u64,
    pub capped: bool,
}

/// Does any witness over Σ_caller(world) spend this output (standard rules)?
pub fn witness_exists(c: &DescCase, world: &World, spend: &Spend, max_states: u64) -> Search { witness_exists_known(c, world, spend, max_states, None) }

pub fn witness_exists_known(c: &DescCase, world: &World, spend: &Spend, max_states: u64, known: Option<&BTreeSet<String>>) -> Search {
    let mut r = Search { found: None, key_path: false, states: 0, transitions: 0, capped: false };
    if let D::Tr(ik, _) = &c.d {
        if world.sigs.contains(ik) {
            r.key_path = true;
            r.found = Some((usize::MAX, vec![]));
            return r;
        }
    }
    let leaves = c.tap_leaves();
    for (ti, t) in c.targets.iter().enumerate() {
        let sigma = sigma_caller_known(c, t, world, spend, known);
        let lh = t.leaf.map(|i| TapLeafHash::from_byte_array(tapleaf_hash(0xc0, &leaves[i].1)));
        let chk = TxChecker::new(spend, t.script.clone(), lh);
        let ex = Exec::new(&t.script, t.sigver, true, &chk);
        let e = explore(
            &ex,
            &ExploreOpts {
                sigma: &sigma,
                finish: Finish::Clean,
                existence_only: true,
                max_states,
                initial: vec![],
                max_materialise: 40,
            },
        );
        r.states += e.states;
        r.transitions += e.transitions;
        r.capped |= e.capped;
        if let Some(s) = e.solutions.first() {
            r.found = Some((ti, s.witness.clone()));
            return r;
        }
    }
    r
}

/// All witnesses over `sigma` for target t (standard rules).
pub fn all_witnesses(c: &DescCase, t: &Target, sigma: &[Vec<u8>], spend: &Spend, max_states: u64) -> Exploration {
    let leaves = c.tap_leaves();
    let lh = t.leaf.map(|i| TapLeafHash::from_byte_array(tapleaf_hash(0xc0, &leaves[i].1)));
    let chk = TxChecker::new(spend, t.script.clone(), lh);
    let ex = Exec::new(&t.script, t.sigver, true, &chk);
    explore(
        &ex,
        &ExploreOpts {
            sigma,
            finish: Finish::Clean,
            existence_only: false,
            max_states,
            initial: vec![],
            max_materialise: 40,
        },
    )
}

pub fn key_path_sig(c: &DescCase, spend: &Spend) -> Option<Vec<u8>> {
    if let (D::Tr(ik, _), SignCtx::Taproot { merkle_root, .. }) = (&c.d, &c.sign) {
        Some(schnorr_key_sig_for(key(ik), spend, *merkle_root, 0))
    } else {
        None
    }
}

// ---------- descriptor enumeration ----------

pub struct Universe {
    pub segwit: Terms<Segwitv0>,
    pub legacy: Terms<Legacy>,
    pub tap: Terms<Tap>,
}

pub fn universe(n_seg: usize, n_leg: usize, n_tap: usize, alpha: Alphabet) -> Universe {
    Universe {
        segwit: explore_terms::<Segwitv0>(n_seg, alpha, false),
        legacy: explore_terms::<Legacy>(n_leg, alpha, false),
        tap: explore_terms::<Tap>(n_tap, alpha, true),
    }
}

pub fn b_terms<Ctx: Cx>(te: &Terms<Ctx>, max_nodes: usize) -> Vec<T> {
    let mut out = vec![];
    for (n, lvl) in te.levels.iter().enumerate() {
        if n > max_nodes {
            break;
        }
        for m in lvl {
            if m.ty.corr.base == miniscript::miniscript::types::Base::B {
                out.push(walk(m).relabel_distinct());
            }
        }
    }
    out
}

/// Duplicate-key variants: all non-trivial set partitions of key positions (<= max_pos).
pub fn key_partitions(t: &T, max_pos: usize) -> Vec<T> {
    let keys = t.keys();
    let n = keys.len();
    if n < 2 || n > max_pos {
        return vec![];
    }
    let mut out = vec![];
    for p in crate::terms::set_partitions(n) {
        if p.iter().enumerate().all(|(i, v)| *v == i) {
            continue; // all distinct = the canonical one
        }
        let mut i = 0;
        out.push(t.map_keys(&mut |_| {
            let l = format!("K{}", p[i] + 1);
            i += 1;
            l
        }));
    }
    out
}

/// Lock-value variants: every assignment of {10, 20, 500000010} to the `after` leaves and of
/// {5, 6, 4194309} to the `older` leaves (terms with 2..=3 lock leaves; the base assignment excluded).
/// Opcode-budget ladder: every binary / ternary combinator with a 1-of-20 multisig in each child
/// position, padded with `v:older(1)` (two opcodes) and `v:1` (one opcode) so that the WORST-CASE
/// number of counted opcodes - computed here from first principles: every non-push opcode of the
/// script counts whether executed or not, every executed CHECKMULTISIG adds its 20 keys, and a
/// dissatisfied multisig is still executed - runs from 197 to 206 around the consensus limit of 201.
/// Returns (name, term, worst-case count).
pub fn budget_ladder() -> Vec<(String, T, usize)> {
    use crate::ast::encode_ref;
    let env = crate::keys::RefEnc { form: KeyForm::Compressed };
    let b = |t: T| Box::new(t);
    let multi = |p: &str| T::Multi(1, (1..=20).map(|i| format!("{}{}", p, i)).collect());
    let (m1, m2, m3) = (multi("A"), multi("B"), multi("C"));
    // (name, core of base type B, keys executed on the worst path)
    let cores: Vec<(&str, T, usize)> = vec![
        ("or_c", T::AndV(b(T::OrC(b(m1.clone()), b(T::Verify(b(m2.clone()))))), b(T::True)), 40),
        ("or_d", T::OrD(b(m1.clone()), b(m2.clone())), 40),
        ("or_b", T::OrB(b(m1.clone()), b(T::Alt(b(m2.clone())))), 40),
        ("and_b", T::AndB(b(m1.clone()), b(T::Alt(b(m2.clone())))), 40),
        ("and_v", T::AndV(b(T::Verify(b(m1.clone()))), b(m2.clone())), 40),
        ("or_i", T::OrI(b(m1.clone()), b(m2.clone())), 20),
        ("andor", T::AndOr(b(m1.clone()), b(m2.clone()), b(m3.clone())), 40),
        ("thresh", T::Thresh(1, vec![m1.clone(), T::Alt(b(m2.clone())), T::Alt(b(m3.clone()))]), 60),
        ("or_d(and_b)", T::OrD(b(T::AndB(b(m1.clone()), b(T::Alt(b(m2.clone()))))), b(m3.clone())), 60),
        ("or_d(thresh)", T::OrD(b(T::Thresh(2, vec![m1.clone(), T::Alt(b(m2.clone()))])), b(m3.clone())), 60),
        ("andor(thresh)", T::AndOr(b(T::Thresh(2, vec![m1.clone(), T::Alt(b(m2.clone()))])), b(T::True), b(m3.clone())), 60),
    ];
    let static_ops = |t: &T| -> usize {
        crate::rsm::parse_script(&encode_ref(t, &env)).iter().filter(|o| matches!(o, crate::rsm::Op::Code(c) if *c > 0x60)).count()
    };
    let mut out = vec![];
    for (name, core, keys) in cores {
        let base = static_ops(&core) + keys;
        for total in 197..=206usize {
            if total < base {
                continue;
            }
            let pad = total - base;
            let (twos, ones) = (pad / 2, pad % 2);
            let mut t = core.clone();
            for _ in 0..ones {
                t = T::AndV(b(T::Verify(b(T::True))), b(t));
            }
            for _ in 0..twos {
                t = T::AndV(b(T::Verify(b(T::Older(1)))), b(t));
            }
            debug_assert_eq!(static_ops(&t) + keys, total);
            out.push((format!("{}@{}", name, total), t, total));
        }
    }
    out
}

/// Conjunction chains `and_v(v:X1,and_v(v:X2,..,pk(K1)))` whose script is EXACTLY `target` bytes long
/// under the reference encoder: scripts sitting on the boundaries where a push opcode or a compact
/// size grows by a byte (75/76, 255/256 for the redeem-script push of P2SH, 252/253 for the script
/// item of a witness). Two fillings per target: key-heavy (most signatures) and hash-heavy.
pub fn size_boundary_terms(form: KeyForm, targets: &[usize], max_keys: usize) -> Vec<(usize, T)> {
    use crate::ast::encode_ref;
    let env = crate::keys::RefEnc { form };
    let b = |t: T| Box::new(t);
    let v = |t: T| T::Verify(b(t));
    let size = |t: &T| encode_ref(t, &env).len();
    let pk = |i: usize| T::Check(b(T::PkK(format!("K{}", i))));
    let pkh = |i: usize| T::Check(b(T::PkH(format!("K{}", i))));
    let last = pk(1);
    let s_last = size(&last);
    let s_pk = size(&v(pk(2)));
    let s_pkh = size(&v(pkh(2)));
    let s_sha = size(&v(T::Sha256("H1".into())));
    // relative locks of one unit with 1-, 2- and 3-byte numbers (value pushes of 1, 2, 3 and 4 bytes)
    let locks = [T::Older(1), T::Older(17), T::Older(128), T::Older(32768)];
    let s_lock: Vec<usize> = locks.iter().map(|l| size(&v(l.clone()))).collect();
    let mut out = vec![];
    for &target in targets {
        if target < s_last {
            continue;
        }
        let rest = target - s_last;
        let mut found = 0;
        // key-heavy first (n_pk descending), then hash-heavy (n_sha descending)
        let mut combos: Vec<(usize, usize, usize)> = vec![];
        for n_pk in (0..max_keys).rev() {
            for n_pkh in 0..=1usize {
                for n_sha in 0..=7usize {
                    combos.push((n_pk, n_pkh, n_sha));
                }
            }
        }
        let mut heavy = combos.clone();
        heavy.sort_by_key(|(a, _, c)| (std::cmp::Reverse(*c), *a));
        for order in [combos, heavy] {
            'combo: for (n_pk, n_pkh, n_sha) in order {
                if n_pk + n_pkh + 1 > max_keys {
                    continue;
                }
                let used = n_pk * s_pk + n_pkh * s_pkh + n_sha * s_sha;
                if used > rest {
                    continue;
                }
                let gap = rest - used;
                // fill the gap with at most three lock pieces
                let mut pick: Option<Vec<usize>> = None;
                if gap == 0 {
                    pick = Some(vec![]);
                }
                for a in 0..4 {
                    if pick.is_none() && s_lock[a] == gap {
                        pick = Some(vec![a]);
                    }
                    for b2 in a..4 {
                        if pick.is_none() && s_lock[a] + s_lock[b2] == gap {
                            pick = Some(vec![a, b2]);
                        }
                        for c in b2..4 {
                            if pick.is_none() && s_lock[a] + s_lock[b2] + s_lock[c] == gap {
                                pick = Some(vec![a, b2, c]);
                            }
                        }
                    }
                }
                let pick = match pick {
                    Some(p) => p,
                    None => continue 'combo,
                };
                let mut items: Vec<T> = vec![];
                for i in 0..n_pk {
                    items.push(pk(2 + i));
                }
                for i in 0..n_pkh {
                    items.push(pkh(2 + n_pk + i));
                }
                for _ in 0..n_sha {
                    items.push(T::Sha256("H1".into()));
                }
                for a in pick {
                    items.push(locks[a].clone());
                }
                let mut acc = last.clone();
                for it in items.into_iter().rev() {
                    acc = T::AndV(b(v(it)), b(acc));
                }
                debug_assert_eq!(size(&acc), target);
                if size(&acc) == target {
                    out.push((target, acc));
                    found += 1;
                }
                break;
            }
            if found >= 2 {
                break;
            }
        }
    }
    out.dedup();
    out
}

/// The same term with every sha256 leaf replaced by each other hash kind (the small alphabet has
/// sha256 only; the satisfier, the planner and the PSBT look-ups have one code path per kind).
pub fn hash_variants(t: &T) -> Vec<T> {
    if !t.hashes().iter().any(|(k, _)| *k == 's') {
        return vec![];
    }
    fn rec(t: &mut T, kind: u8) {
        if let T::Sha256(h) = t {
            let h = h.clone();
            *t = match kind {
                0 => T::Hash256(h),
                1 => T::Ripemd160(h),
                _ => T::Hash160(h),
            };
            return;
        }
        for c in t.children_mut() {
            rec(c, kind);
        }
    }
    (0..3u8)
        .map(|k| {
            let mut t2 = t.clone();
            rec(&mut t2, k);
            t2
        })
        .collect()
}

pub fn lock_variants(t: &T) -> Vec<T> {
    let na = t.afters().len();
    let no = t.olders().len();
    if na + no < 2 || na + no > 3 {
        return vec![];
    }
    let av = [10u32, 20, 500_000_010];
    let ov = [5u32, 6, 4_194_309];
    let mut out = vec![];
    // two locks of one kind: every ordered pair from a wider value set (the height/time boundary
    // 500 000 000, values with bits above the BIP-68 16-bit mask) - "which of the two is the
    // stricter one" is decided on effective values, not on raw numbers
    if na + no == 2 && (na == 2 || no == 2) {
        let wide_a = [10u32, 20, 499_999_999, 500_000_000, 500_000_010];
        let wide_o = [5u32, 6, 65_541, 65_546, 4_194_309, 4_259_845];
        let vals: &[u32] = if na == 2 { &wide_a } else { &wide_o };
        for x in vals {
            for y in vals {
                let mut t2 = t.clone();
                let mut i = 0;
                fn rec2(t: &mut T, i: &mut usize, x: u32, y: u32) {
                    match t {
                        T::After(n) | T::Older(n) => {
                            *n = if *i == 0 { x } else { y };
                            *i += 1;
                        }
                        _ => {
                            for c in t.children_mut() {
                                rec2(c, i, x, y);
                            }
                        }
                    }
                }
                rec2(&mut t2, &mut i, *x, *y);
                out.push(t2);
            }
        }
    }
    let total = 3usize.pow((na + no) as u32);
    for code in 0..total {
        let mut digits = vec![];
        let mut c = code;
        for _ in 0..(na + no) {
            digits.push(c % 3);
            c /= 3;
        }
        if digits.iter().all(|d| *d == 0) {
            continue;
        }
        let mut i = 0;
        fn rec(t: &mut T, digits: &[usize], i: &mut usize, av: &[u32; 3], ov: &[u32; 3]) {
            match t {
                T::After(n) => {
                    *n = av[digits[*i]];
                    *i += 1;
                }
                T::Older(n) => {
                    *n = ov[digits[*i]];
                    *i += 1;
                }
                _ => {
                    for c in t.children_mut() {
                        rec(c, digits, i, av, ov);
                    }
                }
            }
        }
        let mut t2 = t.clone();
        rec(&mut t2, &digits, &mut i, &av, &ov);
        out.push(t2);
    }
    out
}

/// The list of descriptor models for the execution-backed checks.
/// All fragments (every base type) up to `max_nodes` nodes.
pub fn all_fragments<Ctx: Cx>(te: &Terms<Ctx>, max_nodes: usize) -> Vec<T> {
    let mut out = vec![];
    for (n, lvl) in te.levels.iter().enumerate() {
        if n > max_nodes {
            break;
        }
        for m in lvl {
            out.push(walk(m).relabel_distinct());
        }
    }
    out
}

/// One-hole contexts: the fragment below every unary wrapper and in every child position of every
/// binary / ternary constructor and of 2- and 3-child thresholds, next to fixed key siblings of
/// each base type. Whether a combination is well typed is decided by `Miniscript::from_ast` when
/// the candidate is built. All well-typed results (any base type) are returned.
pub fn contexts1<Ctx: Cx>(f: &T) -> Vec<T> {
    let b = |t: T| Box::new(t);
    let p = || T::Check(b(T::PkK("K8".into())));
    let q = || T::Check(b(T::PkK("K7".into())));
    let s = || T::Swap(b(T::Check(b(T::PkK("K6".into())))));
    let s2 = || T::Swap(b(T::Check(b(T::PkK("K5".into())))));
    let vp = || T::Verify(b(p()));
    let x = || f.clone();
    let cands = vec![
        T::Alt(b(x())),
        T::Swap(b(x())),
        T::Check(b(x())),
        T::DupIf(b(x())),
        T::Verify(b(x())),
        T::NonZero(b(x())),
        T::ZeroNotEqual(b(x())),
        T::AndV(b(x()), b(p())),
        T::AndV(b(x()), b(vp())),
        T::AndV(b(vp()), b(x())),
        T::AndB(b(x()), b(s())),
        T::AndB(b(p()), b(x())),
        T::OrB(b(x()), b(s())),
        T::OrB(b(p()), b(x())),
        T::OrC(b(x()), b(vp())),
        T::OrC(b(q()), b(x())),
        T::OrD(b(x()), b(p())),
        T::OrD(b(p()), b(x())),
        T::OrI(b(x()), b(p())),
        T::OrI(b(p()), b(x())),
        T::OrI(b(x()), b(vp())),
        T::OrI(b(vp()), b(x())),
        T::AndOr(b(x()), b(p()), b(q())),
        T::AndOr(b(p()), b(x()), b(q())),
        T::AndOr(b(p()), b(q()), b(x())),
        T::AndOr(b(p()), b(x()), b(vp())),
        T::AndOr(b(p()), b(vp()), b(x())),
        T::Thresh(1, vec![x(), s()]),
        T::Thresh(2, vec![x(), s()]),
        T::Thresh(1, vec![p(), x()]),
        T::Thresh(2, vec![p(), x()]),
        T::Thresh(2, vec![x(), s(), s2()]),
        T::Thresh(2, vec![p(), x(), s2()]),
        T::Thresh(1, vec![p(), s(), x()]),
    ];
    cands.into_iter().filter(|t| crate::ast::build::<String, Ctx>(t, &crate::ast::StrEnv).is_ok()).collect()
}

fn is_b<Ctx: Cx>(t: &T) -> bool {
    matches!(crate::ast::build::<String, Ctx>(t, &crate::ast::StrEnv), Ok(ms) if ms.ty.corr.base == miniscript::miniscript::types::Base::B)
}

/// One level of context, B results only.
pub fn in_contexts<Ctx: Cx>(f: &T) -> Vec<T> { contexts1::<Ctx>(f).into_iter().filter(|t| is_b::<Ctx>(t)).collect() }

/// Two nested levels of context (sibling keys of the inner level renamed), B results only.
pub fn in_contexts2<Ctx: Cx>(f: &T) -> Vec<T> {
    let mut out = vec![];
    for c1 in contexts1::<Ctx>(f) {
        let inner = c1.map_keys(&mut |k| match k {
            "K8" => "K18".to_string(),
            "K7" => "K17".to_string(),
            "K6" => "K16".to_string(),
            "K5" => "K15".to_string(),
            o => o.to_string(),
        });
        for c2 in contexts1::<Ctx>(&inner) {
            if is_b::<Ctx>(&c2) {
                out.push(c2);
            }
        }
    }
    out
}

/// `depth` nested levels of context (sibling keys renamed per level), B results only.
pub fn in_contexts_n<Ctx: Cx>(f: &T, depth: usize) -> Vec<T> {
    let mut cur = vec![f.clone()];
    for level in 0..depth {
        let mut next = std::collections::BTreeSet::new();
        for t in &cur {
            let inner = t.map_keys(&mut |k| if k.len() == 2 && k.starts_with('K') && "5678".contains(&k[1..]) { format!("K{}{}", level + 1, &k[1..]) } else { k.to_string() });
            for c in contexts1::<Ctx>(&inner) {
                next.insert(c);
            }
        }
        cur = next.into_iter().collect();
    }
    cur.into_iter().filter(|t| is_b::<Ctx>(t)).collect()
}

/// Fragments the node-count enumeration does not reach but compilers emit routinely, and
/// signature-free legs that are heavier than a signature (so that "cheapest" and "safest"
/// choices diverge): used as extra hole fillers of the context family.
pub fn macro_fragments(tap: bool) -> Vec<T> {
    let b = |t: T| Box::new(t);
    let sha = |h: &str| T::Sha256(h.into());
    let h2 = T::AndV(b(T::Verify(b(sha("H1")))), b(sha("H2")));
    let h3 = T::AndV(b(T::Verify(b(sha("H1")))), b(T::AndV(b(T::Verify(b(sha("H2")))), b(sha("H3")))));
    let utv = |x: T| T::OrI(b(T::AndV(b(T::Verify(b(x))), b(T::True))), b(T::False));
    let mut v = vec![
        utv(sha("H1")),
        T::OrI(b(T::False), b(T::ZeroNotEqual(b(T::Older(5))))),
        T::OrI(b(T::False), b(T::ZeroNotEqual(b(T::After(10))))),
        h2.clone(),
        h3.clone(),
        T::AndV(b(T::Verify(b(h3.clone()))), b(T::Older(5))),
        T::AndV(b(T::Verify(b(h2.clone()))), b(T::After(10))),
        utv(h2.clone()),
        utv(h3.clone()),
        T::AndV(b(T::Verify(b(T::Check(b(T::PkK("K1".into())))))), b(T::Older(5))),
        T::AndV(b(T::Verify(b(T::Check(b(T::PkK("K1".into())))))), b(sha("H1"))),
    ];
    // two locks of one kind on one path (boundary and masked values)
    for (x, y) in [(500_000_000u32, 500_000_010u32), (500_000_010, 500_000_000), (499_999_999, 10)] {
        v.push(T::AndV(b(T::Verify(b(T::After(x)))), b(T::After(y))));
    }
    for (x, y) in [(65_541u32, 10u32), (6, 65_541), (4_259_845, 4_194_310)] {
        v.push(T::AndV(b(T::Verify(b(T::Older(x)))), b(T::Older(y))));
    }
    if tap {
        v.push(T::MultiA(2, vec!["K1".into(), "K2".into(), "K3".into()]));
    } else {
        v.push(T::Multi(2, vec!["K1".into(), "K2".into(), "K3".into()]));
    }
    // or_c: the one combinator whose smallest useful instance (six nodes, and eight once it is closed
    // into a B by t:) lies beyond the plain enumeration and beyond the hole fillers of the contexts
    {
        let pk = |k: &str| T::Check(b(T::PkK(k.into())));
        let orc = |z: T| T::OrC(b(pk("K1")), b(T::Verify(b(z))));
        for z in [pk("K2"), sha("H1"), T::Older(5), T::After(10)] {
            v.push(orc(z.clone()));
            v.push(T::AndV(b(orc(z)), b(T::True)));
        }
        v.push(T::AndV(b(orc(pk("K2"))), b(pk("K3"))));
    }
    let wrapped: Vec<T> = v.iter().flat_map(|x| vec![T::Alt(b(x.clone())), T::Swap(b(x.clone()))]).collect();
    v.extend(wrapped);
    v
}

pub fn descriptor_models(u: &Universe, n_seg: usize, n_shwsh: usize, n_leg: usize, n_tap: usize, n_part: usize) -> Vec<D> {
    descriptor_models_ctx(u, n_seg, n_shwsh, n_leg, n_tap, n_part, n_seg.saturating_sub(1))
}

pub fn descriptor_models_ctx(u: &Universe, n_seg: usize, n_shwsh: usize, n_leg: usize, n_tap: usize, n_part: usize, n_ctx: usize) -> Vec<D> {
    let mut out = vec![];
    for k in ["K1"] {
        out.push(D::Pkh(k.into()));
        out.push(D::Wpkh(k.into()));
        out.push(D::ShWpkh(k.into()));
        out.push(D::Tr(k.into(), vec![]));
        out.push(D::Bare(T::Check(Box::new(T::PkK(k.into())))));
        out.push(D::Bare(T::Check(Box::new(T::PkH(k.into())))));
    }
    for (kk, n) in [(1, 1), (1, 2), (2, 2), (1, 3), (2, 3), (3, 3)] {
        let ks: Vec<String> = (1..=n).map(|i| format!("K{}", i)).collect();
        out.push(D::Bare(T::Multi(kk, ks.clone())));
        out.push(D::Bare(T::SortedMulti(kk, ks.clone())));
        out.push(D::Sh(T::Multi(kk, ks.clone())));
        out.push(D::Sh(T::SortedMulti(kk, ks.clone())));
        out.push(D::Wsh(T::SortedMulti(kk, ks.clone())));
        out.push(D::ShWsh(T::SortedMulti(kk, ks.clone())));
    }
    let seg = b_terms(&u.segwit, n_seg);
    for t in &seg {
        out.push(D::Wsh(t.clone()));
        if t.size() <= n_shwsh {
            out.push(D::ShWsh(t.clone()));
        }
        if t.size() <= n_part {
            for p in key_partitions(t, 4) {
                out.push(D::Wsh(p));
            }
        }
        for v in lock_variants(t) {
            out.push(D::Wsh(v));
        }
        if t.size() <= n_part + 1 {
            for v in hash_variants(t) {
                out.push(D::Wsh(v));
            }
        }
    }
    for t in &b_terms(&u.legacy, n_leg) {
        out.push(D::Sh(t.clone()));
        if t.size() <= n_part {
            for p in key_partitions(t, 4) {
                out.push(D::Sh(p));
            }
        }
        if t.size() <= n_part + 1 {
            for v in lock_variants(t) {
                out.push(D::Sh(v));
            }
        }
        if t.size() <= n_part {
            for v in hash_variants(t) {
                out.push(D::Sh(v));
            }
        }
    }
    let tap = b_terms(&u.tap, n_tap);
    for t in &tap {
        out.push(D::Tr("KI".into(), vec![(0, t.clone())]));
        if t.size() <= n_part {
            for p in key_partitions(t, 4) {
                out.push(D::Tr("KI".into(), vec![(0, p)]));
            }
        }
        for v in lock_variants(t) {
            out.push(D::Tr("KI".into(), vec![(0, v)]));
        }
        if t.size() <= n_part + 1 {
            for v in hash_variants(t) {
                out.push(D::Tr("KI".into(), vec![(0, v)]));
            }
        }
    }
    // guarded fragments: every B term F one node below the bound, as and_v(v:pk(KG),F). The guard
    // makes fragments that are non-malleable but not "safe" on their own (a signature-free branch
    // next to a signed one) part of a sane descriptor, four nodes deeper than the plain enumeration.
    let guard = |f: &T| T::AndV(Box::new(T::Verify(Box::new(T::Check(Box::new(T::PkK("K9".into())))))), Box::new(f.clone()));
    for t in seg.iter().filter(|t| t.size() + 1 <= n_seg && t.size() >= 2) {
        out.push(D::Wsh(guard(t)));
    }
    for t in tap.iter().filter(|t| t.size() <= n_tap.max(4) && t.size() + 1 <= n_seg && t.size() >= 2) {
        out.push(D::Tr("KI".into(), vec![(0, guard(t))]));
    }
    // scripts exactly on a push-opcode / compact-size boundary (size figures are sums of such terms)
    for (_, t) in size_boundary_terms(KeyForm::Compressed, &[75, 76, 77, 255, 256, 257], 5) {
        out.push(D::Sh(t));
    }
    for (_, t) in size_boundary_terms(KeyForm::Uncompressed, &[255, 256, 257], 4) {
        // (exact when the descriptor is instantiated over uncompressed keys)
        out.push(D::Sh(t));
    }
    for (_, t) in size_boundary_terms(KeyForm::Compressed, &[252, 253, 254], 5) {
        out.push(D::Wsh(t.clone()));
        out.push(D::ShWsh(t));
    }
    for (_, t) in size_boundary_terms(KeyForm::XOnly, &[252, 253, 254], 5) {
        out.push(D::Tr("KI".into(), vec![(0, t)]));
    }
    // P2SH has no MINIMALIF rule: whether a guarded IF-based fragment counts as sane there is the
    // context's own decision, so the guarded family exists for the legacy universe too
    for t in b_terms(&u.legacy, n_leg).iter().filter(|t| t.size() + 1 <= n_leg && t.size() >= 2) {
        out.push(D::Sh(guard(t)));
    }
    // one-hole contexts around every fragment (any base type) of up to n_ctx nodes: terms of up to
    // n_ctx + 8 nodes whose inner fragment is exhaustive
    {
        use rayon::prelude::*;
        let mut fs = all_fragments(&u.segwit, n_ctx.min(u.segwit.levels.len() - 1));
        fs.extend(macro_fragments(false));
        let mut seen: std::collections::BTreeSet<T> = std::collections::BTreeSet::new();
        let v: Vec<T> = fs.par_iter().flat_map_iter(|f| in_contexts::<Segwitv0>(f)).collect();
        for t in v {
            if t.size() > n_seg && seen.insert(t.clone()) {
                out.push(D::Wsh(t));
            }
        }
        let mut ft = all_fragments(&u.tap, n_ctx.min(u.tap.levels.len() - 1));
        ft.extend(macro_fragments(true));
        let v: Vec<T> = ft.par_iter().flat_map_iter(|f| in_contexts::<Tap>(f)).collect();
        let mut seen: std::collections::BTreeSet<T> = std::collections::BTreeSet::new();
        for t in v {
            if t.size() > n_tap && seen.insert(t.clone()) {
                out.push(D::Tr("KI".into(), vec![(0, t)]));
            }
        }
    }
    // the macro fragments one context level up AND guarded by a key (sane descriptors in which a
    // signature-free macro leg competes with a signed one)
    // (left out in the lean mode used by the quick tier of C02, whose witness search is the costly part)
    let lean = n_ctx + 2 <= n_seg && n_seg <= 5;
    if !lean {
        let guardk = |f: &T| T::AndV(Box::new(T::Verify(Box::new(T::Check(Box::new(T::PkK("K9".into())))))), Box::new(f.clone()));
        for f in macro_fragments(false) {
            for c in in_contexts::<Segwitv0>(&f) {
                out.push(D::Wsh(guardk(&c)));
            }
        }
        for f in macro_fragments(true) {
            for c in in_contexts::<Tap>(&f) {
                out.push(D::Tr("KI".into(), vec![(0, guardk(&c))]));
            }
        }
    }
    // the internal key of a tr() descriptor reused inside its script tree
    for t in tap.iter().filter(|t| !lean && t.size() <= 5 && t.keys().iter().any(|k| k == "K1")) {
        out.push(D::Tr("K1".into(), vec![(0, t.clone())]));
    }
    // wide thresholds (beyond the node bound, fixed shapes): thresh over 3 and 4 children of the
    // usual kinds and k-of-3 / k-of-4 multisigs, every k. Over- and under-satisfaction, the
    // position of the dissatisfied children and the cost ordering only show with n >= 3.
    {
        let pk = |i: usize| T::Check(Box::new(T::PkK(format!("K{}", i))));
        let spk = |i: usize| T::Swap(Box::new(pk(i)));
        let ks = |a: usize, n: usize| -> Vec<String> { (a..a + n).map(|i| format!("K{}", i)).collect() };
        let sln_older = T::Swap(Box::new(T::OrI(Box::new(T::False), Box::new(T::ZeroNotEqual(Box::new(T::Older(5)))))));
        let a_sha = T::Alt(Box::new(T::Sha256("H1".into())));
        let altv_sha = T::Alt(Box::new(T::OrI(Box::new(T::False), Box::new(T::AndV(Box::new(T::Verify(Box::new(T::Sha256("H1".into())))), Box::new(T::True))))));
        // a:u:t:v:sha256(H): a hash leg with a unique dissatisfaction (keeps the threshold non-malleable)
        let autv_sha = T::Alt(Box::new(T::OrI(Box::new(T::AndV(Box::new(T::Verify(Box::new(T::Sha256("H1".into())))), Box::new(T::True))), Box::new(T::False))));
        let mut wide: Vec<(T, bool)> = vec![]; // (term, ecdsa-only)
        for k in 1..=3 {
            wide.push((T::Thresh(k, vec![pk(1), spk(2), spk(3)]), false));
            wide.push((T::Thresh(k, vec![pk(1), spk(2), a_sha.clone()]), false));
            wide.push((T::Thresh(k, vec![pk(1), spk(2), autv_sha.clone()]), false));
            wide.push((T::Thresh(k, vec![pk(1), autv_sha.clone(), spk(2)]), false));
            wide.push((T::Thresh(k, vec![pk(1), spk(2), sln_older.clone()]), false));
            wide.push((T::Thresh(k, vec![T::Multi(1, ks(1, 2)), T::Alt(Box::new(T::Multi(1, ks(3, 2)))), spk(5)]), true));
            wide.push((T::Multi(k, ks(1, 3)), true));
        }
        // four children of mixed kinds (key, key, hash, wrapped lock) in two orders, every k: the
        // static worst-case selection sorts children by (satisfaction - dissatisfaction) cost
        let a_ln_older = T::Alt(Box::new(T::OrI(Box::new(T::False), Box::new(T::ZeroNotEqual(Box::new(T::Older(5)))))));
        for k in 1..=4usize {
            wide.push((T::Thresh(k, vec![pk(1), spk(2), a_sha.clone(), a_ln_older.clone()]), false));
            wide.push((T::Thresh(k, vec![pk(1), a_ln_older.clone(), a_sha.clone(), spk(2)]), false));
            wide.push((T::Thresh(k, vec![pk(1), spk(2), autv_sha.clone(), a_ln_older.clone()]), false));
            // three signed legs and one hash leg with a unique dissatisfaction (u:t:v: and l:t:v: forms)
            wide.push((T::Thresh(k, vec![pk(1), spk(2), spk(3), autv_sha.clone()]), false));
            wide.push((T::Thresh(k, vec![pk(1), spk(2), spk(3), altv_sha.clone()]), false));
            wide.push((T::Thresh(k, vec![pk(1), altv_sha.clone(), spk(2), spk(3)]), false));
        }
        for k in [1usize, 2, 4] {
            wide.push((T::Thresh(k, vec![pk(1), spk(2), spk(3), spk(4)]), false));
            wide.push((T::Multi(k, ks(1, 4)), true));
        }
        for (t, ecdsa) in &wide {
            out.push(D::Wsh(t.clone()));
            if *ecdsa {
                out.push(D::Sh(t.clone()));
            } else {
                out.push(D::Tr("KI".into(), vec![(0, t.clone())]));
            }
        }
        for k in 1..=3 {
            out.push(D::Tr("KI".into(), vec![(0, T::MultiA(k, ks(1, 3)))]));
            out.push(D::Tr("KI".into(), vec![(0, T::Thresh(k, vec![T::MultiA(1, ks(1, 2)), T::Alt(Box::new(T::MultiA(1, ks(3, 2)))), spk(5)]))]));
        }
        for k in [1usize, 2, 4] {
            out.push(D::Tr("KI".into(), vec![(0, T::MultiA(k, ks(1, 4)))]));
        }
        // arities around the number-encoding and consensus boundaries (OP_16 / 17, 20 keys; P2SH 520 bytes)
        for n in [7usize, 15, 16, 17, 20] {
            for k in [1usize, 2, n - 1, n] {
                out.push(D::Wsh(T::Multi(k, ks(1, n))));
                out.push(D::Wsh(T::SortedMulti(k, ks(1, n))));
                out.push(D::Sh(T::Multi(k, ks(1, n))));
                out.push(D::ShWsh(T::Multi(k, ks(1, n))));
                out.push(D::Tr("KI".into(), vec![(0, T::MultiA(k, ks(1, n)))]));
                out.push(D::Tr("KI".into(), vec![(0, T::SortedMultiA(k, ks(1, n)))]));
            }
            // thresh over n keys
            let mut subs = vec![pk(1)];
            for i in 2..=n {
                subs.push(spk(i));
            }
            for k in [1usize, 2, n - 1, n] {
                out.push(D::Wsh(T::Thresh(k, subs.clone())));
            }
        }
    }
    // deep tap trees: left- and right-leaning chains of depth 7 and 8 (control blocks of 257 and 289
    // bytes: their length prefix needs 3 bytes)
    for depth in [7usize, 8] {
        for left in [true, false] {
            let mut ls: Vec<(u8, T)> = vec![];
            // equal leaves: the deepest one is then the costliest path (single-key worlds spend each leaf alone)
            let heavy = T::Check(Box::new(T::PkK("K1".into())));
            if left {
                ls.push((depth as u8, heavy.clone()));
                ls.push((depth as u8, T::Check(Box::new(T::PkK("K3".into())))));
                for d in (1..depth).rev() {
                    ls.push((d as u8, T::Check(Box::new(T::PkK(format!("K{}", 10 + d))))));
                }
            } else {
                for d in 1..depth {
                    ls.push((d as u8, T::Check(Box::new(T::PkK(format!("K{}", 10 + d))))));
                }
                ls.push((depth as u8, T::Check(Box::new(T::PkK("K3".into())))));
                ls.push((depth as u8, heavy.clone()));
            }
            out.push(D::Tr("KI".into(), ls));
        }
    }
    // dissatisfactions the static analysis does not count (and_v is never typed `d`, yet the satisfier
    // knows how to dissatisfy it through its right child): fragments where such a dissatisfaction ties
    // in size with the canonical one, in positions where it would be used
    {
        let b = |t: T| Box::new(t);
        let pkl = |k: &str| T::Check(b(T::PkK(k.into())));
        let x = |a: &str, m1: &str, m2: &str| T::OrI(b(pkl(a)), b(T::AndV(b(T::Verify(b(T::True))), b(T::Multi(1, vec![m1.into(), m2.into()])))));
        out.push(D::Wsh(T::OrB(b(x("K1", "K2", "K3")), b(T::Alt(b(x("K4", "K5", "K6")))))));
        out.push(D::Wsh(T::OrB(b(x("K1", "K2", "K3")), b(T::Swap(b(pkl("K4")))))));
        out.push(D::Wsh(T::OrD(b(x("K1", "K2", "K3")), b(pkl("K4")))));
        out.push(D::Wsh(T::AndOr(b(x("K1", "K2", "K3")), b(pkl("K4")), b(pkl("K5")))));
        out.push(D::Wsh(T::Thresh(1, vec![x("K1", "K2", "K3"), T::Alt(b(x("K4", "K5", "K6")))])));
        out.push(D::Wsh(T::Thresh(2, vec![x("K1", "K2", "K3"), T::Alt(b(x("K4", "K5", "K6"))), T::Swap(b(pkl("K7")))])));
        out.push(D::Sh(T::OrB(b(x("K1", "K2", "K3")), b(T::Swap(b(pkl("K4")))))));
    }
    // a spendable script that the lift refuses (height and time locks combined on one path, next
    // to a plain key path): alone, and as a leaf at every position of 2- and 3-leaf trees — a
    // refusal of one leaf must make the whole descriptor unliftable, never drop the leaf
    {
        let pkl = |k: &str| T::Check(Box::new(T::PkK(k.into())));
        let lm = |k: &str| {
            T::OrD(
                Box::new(pkl(k)),
                Box::new(T::AndV(Box::new(T::Verify(Box::new(T::After(10)))), Box::new(T::After(500_000_010)))),
            )
        };
        out.push(D::Wsh(lm("K1")));
        out.push(D::Tr("KI".into(), vec![(0, lm("K1"))]));
        out.push(D::Tr("KI".into(), vec![(1, lm("K1")), (1, pkl("K2"))]));
        out.push(D::Tr("KI".into(), vec![(1, pkl("K2")), (1, lm("K1"))]));
        for pos in 0..3usize {
            for shape in [[1u8, 2, 2], [2, 2, 1]] {
                let ls: Vec<(u8, T)> = (0..3).map(|i| (shape[i], if i == pos { lm("K1") } else { pkl(&format!("K{}", i + 2)) })).collect();
                out.push(D::Tr("KI".into(), ls));
            }
        }
    }
    // multi-leaf trees: ALL ordered pairs of B leaves <= n_tree2 nodes (2-leaf tree), and ALL
    // ordered triples of B leaves <= n_tree3 nodes in both 3-leaf shapes. Keys distinct across leaves.
    let shift = |t: &T, off: usize| {
        let t2 = t.map_keys(&mut |k| format!("K{}", k[1..].parse::<usize>().unwrap() + off));
        t2.map_hashes(&mut |_, h| format!("H{}", h[1..].parse::<usize>().unwrap() + off))
    };
    let (n_tree2, n_tree3) = if n_tap >= 6 { (3, 2) } else { (2, 1) };
    let l2: Vec<&T> = tap.iter().filter(|t| t.size() <= n_tree2).collect();
    for a in &l2 {
        for b in &l2 {
            out.push(D::Tr("KI".into(), vec![(1, (*a).clone()), (1, shift(b, 10))]));
        }
    }
    let mut l3: Vec<T> = tap.iter().filter(|t| t.size() <= n_tree3).cloned().collect();
    l3.push(T::Check(Box::new(T::PkK("K1".into()))));
    l3.push(T::Check(Box::new(T::PkH("K1".into()))));
    for a in &l3 {
        for b in &l3 {
            for c in &l3 {
                out.push(D::Tr("KI".into(), vec![(1, a.clone()), (2, shift(b, 10)), (2, shift(c, 20))]));
                out.push(D::Tr("KI".into(), vec![(2, a.clone()), (2, shift(b, 10)), (1, shift(c, 20))]));
            }
        }
    }
    out
}

/// scriptSig/witness sizes measured on real data
pub fn serialized_witness_size(w: &[Vec<u8>]) -> usize {
    crate::rsm::compact_size(w.len()).len()
        + w.iter().map(|e| crate::rsm::compact_size(e.len()).len() + e.len()).sum::<usize>()
}

#[allow(dead_code)]
pub fn unused(_: &Solution) -> Vec<u8> { scriptnum_bytes(0) }
#[allow(dead_code)]
pub fn unused2(l: &str) -> Vec<u8> { hash_bytes('s', l) }

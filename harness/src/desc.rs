//! Boring model of an output descriptor: `D` (walker, printer, builders).

use std::sync::Arc;

use miniscript::descriptor::{ShInner, TapTree};
use miniscript::{BareCtx, Descriptor, Legacy, MiniscriptKey, Segwitv0, Tap};

use crate::ast::{build, walk, Env, T};

#[derive(Clone, PartialEq, Eq, Hash, PartialOrd, Ord, Debug)]
pub enum D {
    Bare(T),
    Pkh(String),
    Wpkh(String),
    ShWpkh(String),
    Sh(T),
    Wsh(T),
    ShWsh(T),
    /// internal key, leaves as (depth, script) in DFS order
    Tr(String, Vec<(u8, T)>),
}

/// Binary tree shape used to generate tap trees.
#[derive(Clone, PartialEq, Eq, Debug)]
pub enum Shape {
    Leaf,
    Node(Box<Shape>, Box<Shape>),
}

impl Shape {
    pub fn n_leaves(&self) -> usize {
        match self {
            Shape::Leaf => 1,
            Shape::Node(a, b) => a.n_leaves() + b.n_leaves(),
        }
    }
    pub fn depths(&self) -> Vec<u8> {
        fn rec(s: &Shape, d: u8, out: &mut Vec<u8>) {
            match s {
                Shape::Leaf => out.push(d),
                Shape::Node(a, b) => {
                    rec(a, d + 1, out);
                    rec(b, d + 1, out);
                }
            }
        }
        let mut out = vec![];
        rec(self, 0, &mut out);
        out
    }
    /// all binary tree shapes with exactly n leaves
    pub fn all(n: usize) -> Vec<Shape> {
        if n == 1 {
            return vec![Shape::Leaf];
        }
        let mut out = vec![];
        for a in 1..n {
            for l in Shape::all(a) {
                for r in Shape::all(n - a) {
                    out.push(Shape::Node(Box::new(l.clone()), Box::new(r)));
                }
            }
        }
        out
    }
    pub fn print(&self, leaves: &[String]) -> String {
        fn rec(s: &Shape, leaves: &[String], i: &mut usize, out: &mut String) {
            match s {
                Shape::Leaf => {
                    out.push_str(&leaves[*i]);
                    *i += 1;
                }
                Shape::Node(a, b) => {
                    out.push('{');
                    rec(a, leaves, i, out);
                    out.push(',');
                    rec(b, leaves, i, out);
                    out.push('}');
                }
            }
        }
        let mut out = String::new();
        let mut i = 0;
        rec(self, leaves, &mut i, &mut out);
        out
    }
    /// Rebuild a shape from a DFS depth list (None if the list is not a valid tree).
    pub fn from_depths(depths: &[u8]) -> Option<Shape> {
        fn rec(depths: &[u8], i: &mut usize, d: u8) -> Option<Shape> {
            if *i >= depths.len() {
                return None;
            }
            if depths[*i] == d {
                *i += 1;
                return Some(Shape::Leaf);
            }
            if depths[*i] < d {
                return None;
            }
            let l = rec(depths, i, d + 1)?;
            let r = rec(depths, i, d + 1)?;
            Some(Shape::Node(Box::new(l), Box::new(r)))
        }
        let mut i = 0;
        let s = rec(depths, &mut i, 0)?;
        if i == depths.len() {
            Some(s)
        } else {
            None
        }
    }
}

impl D {
    pub fn sexpr(&self) -> String {
        match self {
            D::Bare(t) => format!("bare({})", t.sexpr()),
            D::Pkh(k) => format!("pkh({})", k),
            D::Wpkh(k) => format!("wpkh({})", k),
            D::ShWpkh(k) => format!("sh(wpkh({}))", k),
            D::Sh(t) => format!("sh({})", t.sexpr()),
            D::Wsh(t) => format!("wsh({})", t.sexpr()),
            D::ShWsh(t) => format!("sh(wsh({}))", t.sexpr()),
            D::Tr(k, l) => format!(
                "tr({};{})",
                k,
                l.iter().map(|(d, t)| format!("{}:{}", d, t.sexpr())).collect::<Vec<_>>().join(";")
            ),
        }
    }

    /// Reference descriptor string without checksum.
    pub fn print(&self) -> String {
        match self {
            D::Bare(t) => t.print(),
            D::Pkh(k) => format!("pkh({})", k),
            D::Wpkh(k) => format!("wpkh({})", k),
            D::ShWpkh(k) => format!("sh(wpkh({}))", k),
            D::Sh(t) => format!("sh({})", t.print()),
            D::Wsh(t) => format!("wsh({})", t.print()),
            D::ShWsh(t) => format!("sh(wsh({}))", t.print()),
            D::Tr(k, l) => {
                if l.is_empty() {
                    format!("tr({})", k)
                } else {
                    let depths: Vec<u8> = l.iter().map(|x| x.0).collect();
                    let shape = Shape::from_depths(&depths).expect("valid tree");
                    let leaves: Vec<String> = l.iter().map(|x| x.1.print()).collect();
                    format!("tr({},{})", k, shape.print(&leaves))
                }
            }
        }
    }

    pub fn keys(&self) -> Vec<String> {
        match self {
            D::Bare(t) | D::Sh(t) | D::Wsh(t) | D::ShWsh(t) => t.keys(),
            D::Pkh(k) | D::Wpkh(k) | D::ShWpkh(k) => vec![k.clone()],
            D::Tr(k, l) => {
                let mut v = vec![k.clone()];
                for (_, t) in l {
                    v.extend(t.keys());
                }
                v
            }
        }
    }

    pub fn scripts(&self) -> Vec<&T> {
        match self {
            D::Bare(t) | D::Sh(t) | D::Wsh(t) | D::ShWsh(t) => vec![t],
            D::Tr(_, l) => l.iter().map(|x| &x.1).collect(),
            _ => vec![],
        }
    }

    pub fn map_keys(&self, f: &mut dyn FnMut(&str) -> String) -> D {
        match self {
            D::Bare(t) => D::Bare(t.map_keys(f)),
            D::Sh(t) => D::Sh(t.map_keys(f)),
            D::Wsh(t) => D::Wsh(t.map_keys(f)),
            D::ShWsh(t) => D::ShWsh(t.map_keys(f)),
            D::Pkh(k) => D::Pkh(f(k)),
            D::Wpkh(k) => D::Wpkh(f(k)),
            D::ShWpkh(k) => D::ShWpkh(f(k)),
            D::Tr(k, l) => {
                let k2 = f(k);
                D::Tr(k2, l.iter().map(|(d, t)| (*d, t.map_keys(f))).collect())
            }
        }
    }
}

pub fn walk_desc<Pk: MiniscriptKey>(d: &Descriptor<Pk>) -> D {
    match d {
        Descriptor::Bare(b) => D::Bare(walk(b.as_inner())),
        Descriptor::Pkh(p) => D::Pkh(p.as_inner().to_string()),
        Descriptor::Wpkh(p) => D::Wpkh(p.as_inner().to_string()),
        Descriptor::Sh(sh) => match sh.as_inner() {
            ShInner::Wsh(w) => D::ShWsh(walk(w.as_inner())),
            ShInner::Wpkh(p) => D::ShWpkh(p.as_inner().to_string()),
            ShInner::Ms(ms) => D::Sh(walk(ms)),
        },
        Descriptor::Wsh(w) => D::Wsh(walk(w.as_inner())),
        Descriptor::Tr(tr) => D::Tr(
            tr.internal_key().to_string(),
            tr.leaves().map(|l| (l.depth(), walk(l.miniscript()))).collect(),
        ),
    }
}

/// Build a tap tree from a DFS (depth, leaf) list using only leaf/combine.
pub fn build_taptree<Pk: MiniscriptKey>(
    leaves: &[(u8, T)],
    env: &dyn Env<Pk>,
) -> Result<TapTree<Pk>, String> {
    fn rec<Pk: MiniscriptKey>(
        leaves: &[(u8, T)],
        i: &mut usize,
        d: u8,
        env: &dyn Env<Pk>,
    ) -> Result<TapTree<Pk>, String> {
        if *i >= leaves.len() {
            return Err("bad tree".into());
        }
        if leaves[*i].0 == d {
            let ms = build::<Pk, Tap>(&leaves[*i].1, env)?;
            *i += 1;
            return Ok(TapTree::leaf(Arc::new(ms)));
        }
        let l = rec(leaves, i, d + 1, env)?;
        let r = rec(leaves, i, d + 1, env)?;
        TapTree::combine(l, r).map_err(|e| e.to_string())
    }
    let mut i = 0;
    rec(leaves, &mut i, 0, env)
}

/// Build the real descriptor through the constructors.
pub fn build_desc<Pk: MiniscriptKey>(d: &D, env: &dyn Env<Pk>) -> Result<Descriptor<Pk>, String> {
    let e = |x: miniscript::Error| x.to_string();
    match d {
        D::Bare(t) => Descriptor::new_bare(build::<Pk, BareCtx>(t, env)?).map_err(e),
        D::Pkh(k) => Descriptor::new_pkh(env.pk(k)).map_err(e),
        D::Wpkh(k) => Descriptor::new_wpkh(env.pk(k)).map_err(e),
        D::ShWpkh(k) => Descriptor::new_sh_wpkh(env.pk(k)).map_err(e),
        D::Sh(t) => Descriptor::new_sh(build::<Pk, Legacy>(t, env)?).map_err(e),
        D::Wsh(t) => Descriptor::new_wsh(build::<Pk, Segwitv0>(t, env)?).map_err(e),
        D::ShWsh(t) => Descriptor::new_sh_wsh(build::<Pk, Segwitv0>(t, env)?).map_err(e),
        D::Tr(k, l) => {
            let tree = if l.is_empty() { None } else { Some(build_taptree(l, env)?) };
            Descriptor::new_tr(env.pk(k), tree).map_err(e)
        }
    }
}
